// Correspondence harness for property C14: executes the op-line protocol of
// /verif/lean/Sympler/DataFormatDriver.lean on the REAL DataFormat / Data / SmartPointer classes.
//
// usage: h_dataformat [--noalign] [--noguard] [--leakcheck] < cases.txt
//
//   * every case runs in a forked child (fresh static `c_size_of_datatype`, crash isolation);
//     the child calls DataFormat::alignDataFor(n) first when the case line says `align n`
//     (n is normally DATA_ALIGNMENT, as in main()); `align none` or --noalign skips the call.
//   * operations whose execution would be undefined behaviour (null format, null block, attribute
//     outside the allocated block, null smart pointer, memcpy-duplicated std::string, empty
//     assignment to a never constructed std::string) are recognised from the real objects BEFORE
//     they are executed; the harness prints `ub:<kind>` and ends the case, exactly as the model.
//     With --noguard the operation is then executed anyway: `survived` is printed if it returns (and
//     the case goes on, beyond what the model describes), the parent prints `crash` if the child
//     died (ASan/UBSan report, signal).
//   * doubles are printed as the shortest decimal that reads back to the same double, written as
//     a rational p/q (q a power of ten, not reduced; the comparer normalises).
//
// data_format.cpp is compiled into the harness (instead of being taken from libbasic.a) so that
// the sanitizer flags given to build_harness.sh instrument the code under test as well.
#ifndef H_DF_SRC
#define H_DF_SRC "/repo/source/src/basic/data_format.cpp"
#endif
#include H_DF_SRC

#include "consts.h"

#include <cstdio>
#include <cstring>
#include <iostream>
#include <string>
#include <vector>
#include <sys/wait.h>
#include <unistd.h>
#if defined(__SANITIZE_ADDRESS__)
#include <sanitizer/lsan_interface.h>
#endif

typedef DataFormat::datatype_t dt_t;

static const char *TYPE_NAMES[] = {"INT", "DOUBLE", "INT_POINT", "POINT", "TENSOR", "STRING",
                                   "VECTOR_INT", "VECTOR_DOUBLE", "VECTOR_POINT", "VECTOR_TENSOR"};
static const int N_TYPES = 10;

static bool g_noguard = false;
static bool g_noalign = false;
static bool g_leakcheck = false;

// ---------------------------------------------------------------- output

// protocol lines go to the original stdout; fd 1 is redirected to stderr at start because the
// library writes MSG_DEBUG / MSG_INFO texts to cout
static FILE *g_out = NULL;
static void out(const std::string &s) {
  fputs(s.c_str(), g_out);
  fputc('\n', g_out);
  fflush(g_out);
}

// shortest round-trip decimal of a double as an (unreduced) rational string
static std::string ratOfDouble(double x) {
  if (x != x) return "nan";
  if (x == 0) return "0";
  if (x > 1.7e308 || x < -1.7e308) return x > 0 ? "inf" : "-inf";
  char buf[64];
  int prec = 1;
  for (; prec <= 17; ++prec) {
    snprintf(buf, sizeof buf, "%.*e", prec - 1, x);
    if (strtod(buf, NULL) == x) break;
  }
  // buf = [-]d[.ddd]e[+-]XX
  std::string s(buf);
  bool neg = s[0] == '-';
  if (neg) s = s.substr(1);
  size_t epos = s.find('e');
  std::string mant = s.substr(0, epos);
  int e10 = atoi(s.c_str() + epos + 1);
  std::string digits;
  for (size_t i = 0; i < mant.size(); ++i)
    if (mant[i] != '.') digits += mant[i];
  e10 -= (int) digits.size() - 1;
  while (digits.size() > 1 && digits[digits.size() - 1] == '0') {
    digits.erase(digits.size() - 1);
    ++e10;
  }
  std::string r = neg ? "-" : "";
  r += digits;
  if (e10 >= 0) r += std::string(e10, '0');
  else r += "/1" + std::string(-e10, '0');
  return r;
}

static std::string showPoint(const point_t &p) {
  return ratOfDouble(p.x) + "," + ratOfDouble(p.y) + "," + ratOfDouble(p.z);
}

static std::string showTensor(const tensor_t &t) {
  std::string s;
  for (int a = 0; a < 3; ++a)
    for (int b = 0; b < 3; ++b) {
      if (a || b) s += ",";
      s += ratOfDouble(t(a, b));
    }
  return s;
}

// ---------------------------------------------------------------- parsing (mirrors the Lean driver)

static std::vector<std::string> splitOn(char c, const std::string &s) {
  std::vector<std::string> r;
  std::string cur;
  for (size_t i = 0; i < s.size(); ++i) {
    if (s[i] == c) { r.push_back(cur); cur.clear(); }
    else cur += s[i];
  }
  r.push_back(cur);
  return r;
}

static std::vector<std::string> words(const std::string &s) {
  std::vector<std::string> w = splitOn(' ', s), r;
  for (size_t i = 0; i < w.size(); ++i)
    if (!w[i].empty()) r.push_back(w[i]);
  return r;
}

struct Line {
  bool ok;
  std::vector<std::string> ws;
  bool hasPayload;
  std::string payload;
};

static Line splitLine(const std::string &line) {
  Line l;
  l.ok = true;
  l.hasPayload = false;
  size_t b = line.find('[');
  if (b == std::string::npos) {
    l.ws = words(line);
    return l;
  }
  std::string rest = line.substr(b + 1);
  size_t e = rest.size();
  while (e > 0 && (rest[e - 1] == ' ' || rest[e - 1] == '\r')) --e;
  if (e == 0 || rest[e - 1] != ']') { l.ok = false; return l; }
  l.ws = words(line.substr(0, b));
  l.hasPayload = true;
  l.payload = rest.substr(0, e - 1);
  return l;
}

static bool parseNatLim(size_t lim, const std::string &s, long long &v) {
  if (s.empty() || s.size() > lim) return false;
  v = 0;
  for (size_t i = 0; i < s.size(); ++i) {
    if (s[i] < '0' || s[i] > '9') return false;
    v = v * 10 + (s[i] - '0');
  }
  return true;
}

static bool parseIntLim(size_t lim, const std::string &s, long long &v) {
  if (!s.empty() && s[0] == '-') {
    if (!parseNatLim(lim, s.substr(1), v)) return false;
    v = -v;
    return true;
  }
  return parseNatLim(lim, s, v);
}

static bool parseRat(const std::string &s, double &x) {
  std::vector<std::string> parts = splitOn('/', s);
  long long p, q;
  if (parts.size() == 1) {
    if (!parseIntLim(15, parts[0], p)) return false;
    x = (double) p;
    return true;
  }
  if (parts.size() == 2) {
    if (!parseIntLim(15, parts[0], p) || !parseNatLim(15, parts[1], q) || q == 0) return false;
    x = (double) p / (double) q;
    return true;
  }
  return false;
}

static bool parseId(const std::string &s, size_t &v) {
  long long x;
  if (!parseNatLim(9, s, x)) return false;
  v = (size_t) x;
  return true;
}

struct Value {
  int kind; // 0 int 1 dbl 2 ipt 3 pt 4 tens 5 str
  int i[3];
  double d[9];
  std::string s;
};

static bool hasPrefix(const std::string &s, const char *p) { return s.compare(0, strlen(p), p) == 0; }

static bool parseRats(const std::string &s, size_t n, double *dst) {
  std::vector<std::string> parts = splitOn(',', s);
  if (parts.size() != n) return false;
  for (size_t k = 0; k < n; ++k)
    if (!parseRat(parts[k], dst[k])) return false;
  return true;
}

static bool parseVal(const std::string &w, const Line &l, bool allowPayload, Value &v) {
  long long x;
  if (hasPrefix(w, "int:")) {
    if (!parseIntLim(9, w.substr(4), x)) return false;
    v.kind = 0; v.i[0] = (int) x; return true;
  }
  if (hasPrefix(w, "dbl:")) { v.kind = 1; return parseRat(w.substr(4), v.d[0]); }
  if (hasPrefix(w, "ipt:")) {
    std::vector<std::string> parts = splitOn(',', w.substr(4));
    if (parts.size() != 3) return false;
    for (int k = 0; k < 3; ++k) {
      if (!parseIntLim(9, parts[k], x)) return false;
      v.i[k] = (int) x;
    }
    v.kind = 2; return true;
  }
  if (hasPrefix(w, "pt:")) { v.kind = 3; return parseRats(w.substr(3), 3, v.d); }
  if (hasPrefix(w, "tens:")) { v.kind = 4; return parseRats(w.substr(5), 9, v.d); }
  if (w == "str:" && allowPayload && l.hasPayload) { v.kind = 5; v.s = l.payload; return true; }
  return false;
}

static int typeOfName(const std::string &s) {
  for (int i = 0; i < N_TYPES; ++i)
    if (s == TYPE_NAMES[i]) return i;
  return -1;
}

static bool numTextChar(char c) { return (c >= '0' && c <= '9') || (c != 0 && strchr("+-.eE(), tnsor", c) != NULL); }

// ---------------------------------------------------------------- the objects of one case

static std::vector<DataFormat *> fmts;
static std::vector<Data *> datas;
static std::vector<size_t> blockSize; // bytes of the block m_data points to (0: NULL)

static bool isContainer(dt_t t) {
  return t == DataFormat::VECTOR_DOUBLE || t == DataFormat::VECTOR_INT || t == DataFormat::VECTOR_POINT ||
         t == DataFormat::VECTOR_TENSOR;
}

static bool inBlock(size_t d, const DataFormat::attribute_t &a) {
  return a.offset + DataFormat::c_size_of_datatype[a.datatype] <= blockSize[d];
}

static const size_t ALIGN_OF[] = {alignof(int), alignof(double), alignof(int_point_t), alignof(point_t),
                                  alignof(tensor_t), alignof(std::string), alignof(vector_int_sp),
                                  alignof(vector_double_sp), alignof(vector_point_sp), alignof(vector_tensor_sp)};

// malloc() returns memory aligned for every type: the address is aligned iff the offset is
static bool misaligned(const DataFormat::attribute_t &a) { return a.offset % ALIGN_OF[a.datatype] != 0; }

// a smart pointer of the first `n` bytes of the format sits at a misaligned address
static bool spMisaligned(DataFormat *f, size_t bytes) {
  for (size_t i = 0; i < f->rows(); ++i) {
    const DataFormat::attribute_t &a = f->attrByIndex(i);
    if (a.offset + DataFormat::c_size_of_datatype[a.datatype] <= bytes && isContainer(a.datatype) && misaligned(a))
      return true;
  }
  return false;
}

static void *ptrOf(size_t d, const DataFormat::attribute_t &a) { return DataFormat::ptrByAttr(a, datas[d]->data()); }

static bool zeroBytes(const void *p, size_t n) {
  const unsigned char *c = (const unsigned char *) p;
  for (size_t i = 0; i < n; ++i)
    if (c[i]) return false;
  return true;
}

// m_value of a smart pointer slot (all four instantiations have the same layout)
static bool spIsNull(size_t d, const DataFormat::attribute_t &a) {
  return ((vector_int_sp *) ptrOf(d, a))->isNull();
}

static bool liveString(size_t d, const DataFormat::attribute_t &a) { return !zeroBytes(ptrOf(d, a), sizeof(std::string)); }

// `DataFormat::release(m_data)` would touch an attribute outside the block?
static const char *guardRelease(size_t d) {
  Data *x = datas[d];
  if (!x->format() || x->isNull()) return NULL;
  if (spMisaligned(x->format(), blockSize[d])) return "ub:misaligned";
  for (size_t i = 0; i < x->rows(); ++i) {
    const DataFormat::attribute_t &a = x->attrByIndex(i);
    if (isContainer(a.datatype) && !inBlock(d, a)) return "ub:stale";
  }
  return NULL;
}

// memcpy of the source block + deep copy loop (copy constructor and operator=)
static const char *guardCopyFrom(size_t e, size_t fsize) {
  Data *src = datas[e];
  if (src->isNull()) return "ub:nullblock";
  if (blockSize[e] < fsize) return "ub:stale";
  for (size_t i = 0; i < src->rows(); ++i) {
    const DataFormat::attribute_t &a = src->attrByIndex(i);
    if (a.datatype == DataFormat::STRING && liveString(e, a)) return "ub:strcopy";
  }
  if (spMisaligned(src->format(), fsize)) return "ub:misaligned";
  for (size_t i = 0; i < src->rows(); ++i) {
    const DataFormat::attribute_t &a = src->attrByIndex(i);
    if (isContainer(a.datatype) && spIsNull(e, a)) return "ub:nullsp";
  }
  return NULL;
}

static std::string showValue(size_t d, const DataFormat::attribute_t &a) {
  Data *x = datas[d];
  int i = (int) a.index;
  char buf[64];
  switch (a.datatype) {
  case DataFormat::INT:
    snprintf(buf, sizeof buf, "int:%d", x->intByIndex(i));
    return buf;
  case DataFormat::DOUBLE: return "dbl:" + ratOfDouble(x->doubleByIndex(i));
  case DataFormat::INT_POINT: {
    int_point_t &p = x->intPointByIndex(i);
    snprintf(buf, sizeof buf, "ipt:%d,%d,%d", p.x, p.y, p.z);
    return buf;
  }
  case DataFormat::POINT: return "pt:" + showPoint(x->pointByIndex(i));
  case DataFormat::TENSOR: return "tens:" + showTensor(x->tensorByIndex(i));
  case DataFormat::STRING: return "str:[" + x->stringByIndex(i) + "]";
  case DataFormat::VECTOR_INT: {
    std::string s = "vec:{";
    vector<int> &v = *x->vectorIntByIndex(i);
    for (size_t k = 0; k < v.size(); ++k) {
      snprintf(buf, sizeof buf, "%sint:%d", k ? ";" : "", v[k]);
      s += buf;
    }
    return s + "}";
  }
  case DataFormat::VECTOR_DOUBLE: {
    std::string s = "vec:{";
    vector<double> &v = *x->vectorDoubleByIndex(i);
    for (size_t k = 0; k < v.size(); ++k) s += std::string(k ? ";" : "") + "dbl:" + ratOfDouble(v[k]);
    return s + "}";
  }
  case DataFormat::VECTOR_POINT: {
    std::string s = "vec:{";
    vector<point_t> &v = *x->vectorPointByIndex(i);
    for (size_t k = 0; k < v.size(); ++k) s += std::string(k ? ";" : "") + "pt:" + showPoint(v[k]);
    return s + "}";
  }
  case DataFormat::VECTOR_TENSOR: {
    std::string s = "vec:{";
    vector<tensor_t> &v = *x->vectorTensorByIndex(i);
    for (size_t k = 0; k < v.size(); ++k) s += std::string(k ? ";" : "") + "tens:" + showTensor(v[k]);
    return s + "}";
  }
  default: return "?";
  }
}

static std::string showAttr(const DataFormat::attribute_t &a) {
  char buf[64];
  snprintf(buf, sizeof buf, " %zu %zu ", a.index, a.offset);
  return a.name + buf + TYPE_NAMES[a.datatype] + (a.persistent ? " 1 " : " 0 ") + a.symbol;
}

// does Data::toStringByIndex / fromStringByIndex have a case for this type?  Asked from the real
// code on a fresh one-attribute record.
static int g_toStrSupported[16], g_fromStrSupported[16];
static void probeSupport() {
#if defined(__SANITIZE_ADDRESS__)
  // the probe assigns to a STRING attribute; its buffer is never freed (no std::string destructor is
  // ever run by DataFormat::release) — keep that out of the --leakcheck report of the case
  __lsan::ScopedDisabler noLeakReport;
#endif
  for (int t = 0; t < N_TYPES; ++t) {
    DataFormat f;
    f.addAttribute("x", (dt_t) t);
    Data d(&f);
    try { d.toStringByIndex(0); g_toStrSupported[t] = 1; } catch (gError &) { g_toStrSupported[t] = 0; }
    try { d.fromStringByIndex(0, "0"); g_fromStrSupported[t] = 1; } catch (gError &) { g_fromStrSupported[t] = 0; }
  }
}

// ---------------------------------------------------------------- one case

struct EndCase {};

// a ub was recognised: print it; guard mode: end the case; noguard mode: remember and go on
static bool g_afterUb = false;
static void ub(const char *kind) {
  if (g_afterUb) return; // noguard mode: only the first one is reported
  out(kind);
  if (!g_noguard) throw EndCase();
  g_afterUb = true;
}
static void done(const std::string &s) {
  // --noguard: the operation the model calls undefined returned; say so and go on with the case
  // (the model's output ends at the `ub:` line; what follows is for replays of findings)
  if (g_afterUb) { out("survived"); g_afterUb = false; }
  out(s);
}

static bool needData(const std::string &w, size_t &d) {
  if (!parseId(w, d)) { out("err:parse"); return false; }
  return true;
}

static void execOp(const Line &l) {
  const std::vector<std::string> &w = l.ws;
  const std::string op = w.empty() ? "" : w[0];
  size_t n = w.size();
  size_t a1 = 0, a2 = 0;
#define PARSE_ERR { out("err:parse"); return; }
#define NO_PAYLOAD if (l.hasPayload) PARSE_ERR
#define GET_DATA(id) if ((id) >= datas.size() || !datas[id]) { out("err:nodata"); return; }
#define GET_FMT(id) if ((id) >= fmts.size()) { out("err:nofmt"); return; }

  if (op == "leakcheck" && n == 1) {
    NO_PAYLOAD;
#if defined(__SANITIZE_ADDRESS__)
    // every live record and format is reachable from the vectors above; what LeakSanitizer still
    // finds was allocated by the code under test and lost
    done(std::string("lsan leaks=") + (__lsan_do_recoverable_leak_check() ? "1" : "0"));
#else
    done("lsan unavailable");
#endif
    return;
  }
  if (op == "fmt" && n == 1) {
    NO_PAYLOAD;
    fmts.push_back(new DataFormat());
    done("fmt " + std::to_string(fmts.size() - 1));
    return;
  }
  if (op == "fmtcopy" && n == 2) {
    NO_PAYLOAD;
    if (!parseId(w[1], a1)) PARSE_ERR;
    GET_FMT(a1);
    fmts.push_back(new DataFormat(*fmts[a1]));
    done("fmt " + std::to_string(fmts.size() - 1));
    return;
  }
  if ((op == "fadd" || op == "dadd") && n == 6) {
    NO_PAYLOAD;
    int t = typeOfName(w[3]);
    if (!parseId(w[1], a1) || t < 0 || (w[4] != "0" && w[4] != "1")) PARSE_ERR;
    bool pers = w[4] == "1";
    std::string sym = w[5] == "-" ? "" : w[5];
    if (op == "fadd") {
      GET_FMT(a1);
      try {
        DataFormat::attribute_t a = fmts[a1]->addAttribute(w[2], (dt_t) t, pers, sym);
        done("attr " + showAttr(a));
      } catch (gError &) { out("err:typemismatch"); }
      return;
    }
    GET_DATA(a1);
    Data *x = datas[a1];
    if (!x->format()) ub("ub:nullfmt");
    else if (!x->attrExists(w[2])) {
      // the block will be re-allocated: memcpy(m_data, oldData, old_size)
      if (x->isNull()) ub("ub:nullblock");
      else if (blockSize[a1] < x->format()->size()) ub("ub:stale");
      else if (isContainer((dt_t) t) && x->format()->size() % ALIGN_OF[t] != 0) ub("ub:misaligned");
    }
    try {
      size_t before = x->format()->size();
      DataFormat::attribute_t a = x->addAttribute(w[2], (dt_t) t, pers, sym);
      if (x->format()->size() != before) blockSize[a1] = x->format()->size();
      done("attr " + showAttr(a));
    } catch (gError &) { out("err:typemismatch"); }
    return;
  }
  if (op == "layout" && n == 2) {
    NO_PAYLOAD;
    if (!parseId(w[1], a1)) PARSE_ERR;
    GET_FMT(a1);
    DataFormat *f = fmts[a1];
    std::string s = "layout size=" + std::to_string(f->size()) + " rows=" + std::to_string(f->rows());
    for (size_t i = 0; i < f->rows(); ++i) {
      const DataFormat::attribute_t &a = f->attrByIndex(i);
      const DataFormat::attribute_t &b = f->attrByName(a.name);
      s += " | " + a.name + " " + std::to_string(a.index) + " " + std::to_string(a.offset) + " " +
           TYPE_NAMES[a.datatype] + (a.persistent ? " 1" : " 0") + (b.persistent ? " 1 " : " 0 ") + a.symbol;
    }
    done(s);
    return;
  }
  if (op == "new" && n == 2) {
    NO_PAYLOAD;
    if (!parseId(w[1], a1)) PARSE_ERR;
    GET_FMT(a1);
    if (fmts[a1]->size() && spMisaligned(fmts[a1], fmts[a1]->size())) ub("ub:misaligned");
    datas.push_back(new Data(fmts[a1]));
    blockSize.push_back(fmts[a1]->size());
    done("data " + std::to_string(datas.size() - 1));
    return;
  }
  if (op == "new0" && n == 1) {
    NO_PAYLOAD;
    datas.push_back(new Data());
    blockSize.push_back(0);
    done("data " + std::to_string(datas.size() - 1));
    return;
  }
  if (op == "copy" && n == 2) {
    NO_PAYLOAD;
    if (!parseId(w[1], a1)) PARSE_ERR;
    GET_DATA(a1);
    Data *src = datas[a1];
    size_t fsize = src->format() ? src->format()->size() : 0;
    if (src->format() && fsize != 0) {
      const char *g = guardCopyFrom(a1, fsize);
      if (g) ub(g);
    }
    datas.push_back(new Data(*src));
    blockSize.push_back(fsize);
    done("data " + std::to_string(datas.size() - 1));
    return;
  }
  if (op == "assign" && n == 3) {
    NO_PAYLOAD;
    if (!parseId(w[1], a1) || !parseId(w[2], a2)) PARSE_ERR;
    GET_DATA(a1);
    GET_DATA(a2);
    Data *dst = datas[a1], *src = datas[a2];
    size_t newSize = blockSize[a1];
    if (dst->format() != src->format()) {
      const char *g = guardRelease(a1);
      if (g) ub(g);
      if (src->format()) {
        size_t fsize = src->format()->size();
        newSize = fsize;
        if (fsize == 0) ub("ub:nullblock");
        else if ((g = guardCopyFrom(a2, fsize))) ub(g);
      } else newSize = 0;
    } else if (src->format()) {
      size_t fsize = src->format()->size();
      if (dst->isNull() || src->isNull()) ub("ub:nullblock");
      else if (blockSize[a1] < fsize || blockSize[a2] < fsize) ub("ub:stale");
      else {
        const char *g = guardCopyFrom(a2, fsize);
        if (g) ub(g);
      }
    }
    *dst = *src;
    blockSize[a1] = newSize;
    done("ok");
    return;
  }
  if (op == "del" && n == 2) {
    NO_PAYLOAD;
    if (!parseId(w[1], a1)) PARSE_ERR;
    GET_DATA(a1);
    const char *g = guardRelease(a1);
    if (g) ub(g);
    delete datas[a1];
    datas[a1] = NULL;
    done("ok");
    return;
  }
  if (op == "setfmt" && n == 3) {
    NO_PAYLOAD;
    if (!parseId(w[1], a1) || !parseId(w[2], a2)) PARSE_ERR;
    GET_DATA(a1);
    GET_FMT(a2);
    const char *g = guardRelease(a1);
    if (g) ub(g);
    else if (fmts[a2]->size() && spMisaligned(fmts[a2], fmts[a2]->size())) ub("ub:misaligned");
    datas[a1]->setFormatAndAlloc(fmts[a2]);
    blockSize[a1] = fmts[a2]->size();
    done("ok");
    return;
  }
  if ((op == "release" || op == "realloc") && n == 2) {
    NO_PAYLOAD;
    if (!parseId(w[1], a1)) PARSE_ERR;
    GET_DATA(a1);
    Data *x = datas[a1];
    if (!x->format()) ub("ub:nullfmt");
    else {
      const char *g = guardRelease(a1);
      if (g) ub(g);
      else if (op == "realloc" && x->format()->size() && spMisaligned(x->format(), x->format()->size()))
        ub("ub:misaligned");
    }
    if (op == "release") { x->release(); blockSize[a1] = 0; }
    else { x->reAlloc(); blockSize[a1] = x->format()->size(); }
    done("ok");
    return;
  }
  if ((op == "clear" || op == "clearall") && n == 2) {
    NO_PAYLOAD;
    if (!parseId(w[1], a1)) PARSE_ERR;
    GET_DATA(a1);
    Data *x = datas[a1];
    bool all = op == "clearall";
    if (!x->format()) ub("ub:nullfmt");
    else {
      bool found = false;
      if (!x->isNull())
        for (size_t i = 0; i < x->rows() && !found; ++i) {
          const DataFormat::attribute_t &a = x->attrByIndex(i);
          if ((all || !a.persistent) && inBlock(a1, a) && isContainer(a.datatype) && misaligned(a)) {
            ub("ub:misaligned");
            found = true;
          }
        }
      for (size_t i = 0; i < x->rows() && !found; ++i) {
        const DataFormat::attribute_t &a = x->attrByIndex(i);
        if (all || !a.persistent) {
          if (x->isNull()) { ub("ub:nullblock"); break; }
          if (!inBlock(a1, a)) { ub("ub:stale"); break; }
        }
      }
    }
    if (all) x->clearAll(); else x->clear();
    done("ok");
    return;
  }

  // ---- operations on one attribute
  bool attrOp = (op == "protect" || op == "unprotect" || op == "get" || op == "rc" || op == "tostr") && n == 3;
  bool setOp = (op == "set" || op == "push") && n == 4;
  bool fromOp = op == "fromstr" && n == 3;
  if (!(attrOp || setOp || fromOp)) PARSE_ERR;
  if (!parseId(w[1], a1) || !parseId(w[2], a2)) PARSE_ERR;
  Value v;
  if (attrOp) NO_PAYLOAD;
  if (fromOp && !l.hasPayload) PARSE_ERR;
  if (op == "push") {
    NO_PAYLOAD;
    if (!parseVal(w[3], l, false, v) || v.kind == 2 || v.kind == 5) PARSE_ERR;
  }
  if (op == "set") {
    if (!parseVal(w[3], l, true, v)) PARSE_ERR;
    if (l.hasPayload && v.kind != 5) PARSE_ERR;
  }
  GET_DATA(a1);
  Data *x = datas[a1];
  if (!x->format()) {
    ub("ub:nullfmt");
    // nothing sensible can be executed without the attribute table: dereference it as the accessor would
    volatile size_t r = x->rows();
    (void) r;
    done("ok");
    return;
  }
  if (a2 >= x->rows()) { out("err:index"); return; }
  const DataFormat::attribute_t a = x->attrByIndex(a2);
  int i = (int) a2;

  if (op == "protect" || op == "unprotect") {
    if (op == "protect") x->protect(a2); else x->unprotect(a2);
    done("ok");
    return;
  }
  // protocol level type checks
  if (op == "set") {
    static const int kindOf[] = {0, 1, 2, 3, 4, 5, -1, -1, -1, -1};
    if (kindOf[a.datatype] != v.kind) { out("err:type"); return; }
  }
  if (op == "push") {
    static const int elemOf[] = {-1, -1, -1, -1, -1, -1, 0, 1, 3, 4};
    if (elemOf[a.datatype] != v.kind) { out("err:type"); return; }
  }
  if (op == "rc" && !isContainer(a.datatype)) { out("err:type"); return; }
  if (op == "fromstr") {
    if (a.datatype != DataFormat::STRING)
      for (size_t k = 0; k < l.payload.size(); ++k)
        if (!numTextChar(l.payload[k])) { out("err:text"); return; }
    if (!g_fromStrSupported[a.datatype]) {
      try { x->fromStringByIndex(i, l.payload); out("err:internal"); } catch (gError &) { out("err:unsupported"); }
      return;
    }
  }
  if (op == "tostr" && !g_toStrSupported[a.datatype]) {
    try { x->toStringByIndex(i); out("err:internal"); } catch (gError &) { out("err:unsupported"); }
    return;
  }
  // the typed access
  if (x->isNull()) ub("ub:nullblock");
  else if (!inBlock(a1, a)) ub("ub:stale");
  else if (misaligned(a)) ub("ub:misaligned");
  else if (isContainer(a.datatype) && op != "rc" && spIsNull(a1, a)) ub("ub:nullsp");
  else if (a.datatype == DataFormat::STRING && !liveString(a1, a) &&
           ((op == "set" && v.s.empty()) || (op == "fromstr" && l.payload.empty())))
    ub("ub:strnull");

  if (op == "get") { done("val " + showValue(a1, a)); return; }
  if (op == "rc") {
    done("rc " + std::to_string(((vector_int_sp *) ptrOf(a1, a))->getRefCount()));
    return;
  }
  if (op == "tostr") { done("str [" + x->toStringByIndex(i) + "]"); return; }
  if (op == "fromstr") { x->fromStringByIndex(i, l.payload); done("ok"); return; }
  if (op == "set") {
    switch (a.datatype) {
    case DataFormat::INT: x->intByIndex(i) = v.i[0]; break;
    case DataFormat::DOUBLE: x->doubleByIndex(i) = v.d[0]; break;
    case DataFormat::INT_POINT: {
      int_point_t &p = x->intPointByIndex(i);
      p.x = v.i[0]; p.y = v.i[1]; p.z = v.i[2];
      break;
    }
    case DataFormat::POINT: {
      point_t &p = x->pointByIndex(i);
      p.x = v.d[0]; p.y = v.d[1]; p.z = v.d[2];
      break;
    }
    case DataFormat::TENSOR: {
      tensor_t &t = x->tensorByIndex(i);
      for (int r = 0; r < 3; ++r)
        for (int c = 0; c < 3; ++c) t(r, c) = v.d[3 * r + c];
      break;
    }
    case DataFormat::STRING: x->stringByIndex(i) = v.s; break;
    default: break;
    }
    done("ok");
    return;
  }
  if (op == "push") {
    switch (a.datatype) {
    case DataFormat::VECTOR_INT: x->vectorIntByIndex(i)->push_back(v.i[0]); break;
    case DataFormat::VECTOR_DOUBLE: x->vectorDoubleByIndex(i)->push_back(v.d[0]); break;
    case DataFormat::VECTOR_POINT: {
      point_t p;
      p.x = v.d[0]; p.y = v.d[1]; p.z = v.d[2];
      x->vectorPointByIndex(i)->push_back(p);
      break;
    }
    case DataFormat::VECTOR_TENSOR: {
      tensor_t t;
      for (int r = 0; r < 3; ++r)
        for (int c = 0; c < 3; ++c) t(r, c) = v.d[3 * r + c];
      x->vectorTensorByIndex(i)->push_back(t);
      break;
    }
    default: break;
    }
    done("ok");
    return;
  }
  PARSE_ERR;
}

static void execDump(const Line &l) {
  size_t d;
  if (l.hasPayload || !parseId(l.ws[1], d)) { out("err:parse"); return; }
  if (d >= datas.size() || !datas[d]) { out("err:nodata"); return; }
  Data *x = datas[d];
  if (!x->format()) { done("dump nofmt"); return; }
  if (x->isNull()) { done("dump null"); return; }
  std::string s = "dump ";
  for (size_t i = 0; i < x->rows(); ++i) {
    const DataFormat::attribute_t &a = x->attrByIndex(i);
    if (i) s += " ; ";
    if (!inBlock(d, a)) s += "stale";
    else if (misaligned(a)) s += "misaligned";
    else if (isContainer(a.datatype) && spIsNull(d, a)) s += "vnull";
    else s += showValue(d, a);
  }
  done(s);
}

static void runCase(const std::vector<std::string> &lines, bool align, size_t alignBits) {
  if (align && !g_noalign) DataFormat::alignDataFor(alignBits);
  probeSupport();
  try {
    for (size_t k = 0; k < lines.size(); ++k) {
      Line l = splitLine(lines[k]);
      if (!l.ok) { out("err:parse"); continue; }
      if (l.ws.empty() && !l.hasPayload) continue;
      if (!l.ws.empty() && l.ws[0] == "dump" && l.ws.size() == 2) execDump(l);
      else execOp(l);
    }
    // --leakcheck (replays only, not part of the protocol): destroy every record whose destruction is
    // defined, then ask LeakSanitizer whether anything allocated by the case is unreachable
    if (g_leakcheck) {
      for (size_t d = 0; d < datas.size(); ++d)
        if (datas[d] && !guardRelease(d)) { delete datas[d]; datas[d] = NULL; }
#if defined(__SANITIZE_ADDRESS__)
      out(std::string("lsan leaks=") + (__lsan_do_recoverable_leak_check() ? "1" : "0"));
#else
      out("lsan unavailable");
#endif
    }
  } catch (EndCase &) {
  }
  fflush(g_out);
  _exit(0); // no destructors, no leak report: leaks are part of the modelled behaviour
}

int main(int argc, char **argv) {
  for (int i = 1; i < argc; ++i) {
    if (!strcmp(argv[i], "--noguard")) g_noguard = true;
    else if (!strcmp(argv[i], "--noalign")) g_noalign = true;
    else if (!strcmp(argv[i], "--leakcheck")) g_leakcheck = true;
    else { fprintf(stderr, "usage: h_dataformat [--noalign] [--noguard] [--leakcheck] < cases\n"); return 2; }
  }
  g_out = fdopen(dup(1), "w");
  dup2(2, 1);
  std::vector<std::string> all;
  std::string line;
  while (std::getline(std::cin, line)) all.push_back(line);

  size_t k = 0;
  while (k < all.size()) {
    Line l = splitLine(all[k]);
    bool isCase = l.ok && !l.hasPayload && l.ws.size() == 4 && l.ws[0] == "case" && l.ws[2] == "align";
    if (!isCase) { ++k; continue; } // lines outside a case are ignored
    long long bits = 0;
    bool none = l.ws[3] == "none";
    if (!none && !parseNatLim(2, l.ws[3], bits)) {
      out("case " + l.ws[1] + " err:parse");
      ++k;
      // the lines up to the next case are ignored
      while (k < all.size()) {
        Line m = splitLine(all[k]);
        if (m.ok && !m.hasPayload && m.ws.size() == 4 && m.ws[0] == "case" && m.ws[2] == "align") break;
        ++k;
      }
      continue;
    }
    out("case " + l.ws[1]);
    std::vector<std::string> body;
    ++k;
    while (k < all.size()) {
      Line m = splitLine(all[k]);
      if (m.ok && !m.hasPayload && m.ws.size() == 4 && m.ws[0] == "case" && m.ws[2] == "align") break;
      body.push_back(all[k]);
      ++k;
    }
    fflush(g_out);
    fflush(stdout);
    pid_t pid = fork();
    if (pid == 0) runCase(body, !none, (size_t) bits);
    int status = 0;
    waitpid(pid, &status, 0);
    if (!(WIFEXITED(status) && WEXITSTATUS(status) == 0)) out("crash");
  }
  return 0;
}
