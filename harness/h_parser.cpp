// Correspondence harness for property C03 (expression parser / interpreter / C emitter / gcc).
//
// Links the REAL FunctionParser, FunctionCompiler and FunctionArbitrary helpers of /repo.
// Line protocol on stdin (the same requests the Lean model `symdrv` / model `expr` understands):
//
//   reset                          forget all declared variables
//   var s <name> <rat>             scalar  variable `name`
//   var v <name> <rat>x3           vector  variable `[name]`
//   var t <name> <rat>x9           tensor  variable `{name}`  (row major xx xy xz yx ...)
//   expr <text>                    everything after the first blank is the expression, verbatim
//
// Variables live in one `double` array ("the tag"); the k-th declared double slot has byte offset 8*k and
// is exported to C exactly as production does it (FunctionArbitrary::double2CExpression etc. with base
// name `particle_tag`).  As in production (FunctionArbitrary::addDouble/addPoint/addTensor) the parser
// used for toC()/compilation holds NULL value pointers; a second parser with real pointers is used for
// the interpreter `value()`.
//
// For every `expr` the harness prints
//   expr <text>
//   parse ok <prefix form>   |  parse err:<kind>          kind: empty-bracket unbalanced empty-operand unknown-symbol other
//   type <scalar|vector|tensor> | type err                (type of the Variant returned by toC())
//   toC <s0> | <s1> | ...                                 (only if toC() did not throw)
//   value <r0> <r1> ... | value err                       (interpreter, exact rationals p/q, or inf -inf nan)
//   compiled <r0> ... | compiled err:<kind>               (gcc-compiled function, called once)
//   crash <signal> | hang                                 (if the child died / exceeded the time limit)
//   end
// Each expression is processed in a forked child so that a crash or an endless loop of the real code is
// observed instead of killing the harness.
//
// The model prints the same lines with these differences (see /verif/sim/diff_expr.py):
//   value err:<kind>                       div0 | opaque | random | range: no rational value (model abstains)
//   compiled <c0> <c1> ...                 per component a rational or err:<kind> (div0 opaque random range);
//                                          err:int-trunc / err:int-div0 (the C text performs an int/int division)
//                                          are never printed for emitted text since /repo ad91e0f
// Since /repo 461b1b3 the real parser neither hangs nor dies: `hang` / `crash` lines are always disagreements.
//   selfcheck abs-mismatch                 (never printed) parseC(render e) differs from abs e
//
// build: /verif/harness/build_harness.sh /verif/harness/h_parser.cpp /verif/.work/bin/h_parser

#include <algorithm>
#include <cassert>
#include <cmath>
#include <cstddef>
#include <cstdio>
#include <cstdlib>
#include <cstring>
#include <fstream>
#include <functional>
#include <iostream>
#include <list>
#include <map>
#include <set>
#include <sstream>
#include <string>
#include <vector>
#include <fcntl.h>
#include <signal.h>
#include <sys/wait.h>
#include <unistd.h>
#include <cerrno>

// the tree of the real parser is walked through the (protected) child pointers of its nodes
#define protected public
#include "function_parser.h"
#include "function_compiler.h"
#include "function_arbitrary.h"
#include "fp_scalar.h"
#include "fp_vector.h"
#include "fp_tensor.h"
#include "unary_functions.h"
#include "unary_operators.h"
#include "binary_operators.h"
#undef protected

using namespace std;

struct VarDecl { char kind; string name; size_t slot; };

static vector<VarDecl> g_vars;
static vector<double> g_mem;
static int g_timeout = 20;

// decimal big naturals as strings (only doubling is needed)
static string decDouble(const string &s)
{
  string r; int carry = 0;
  for (int i = (int) s.size()-1; i >= 0; --i) {
    int d = (s[i]-'0')*2 + carry;
    r.insert(r.begin(), char('0' + d % 10));
    carry = d / 10;
  }
  if (carry) r.insert(r.begin(), char('0' + carry));
  return r;
}

// exact rational text of a double: p/q in lowest terms, q a power of two, q omitted when 1
static string ratOfDouble(double d)
{
  if (std::isnan(d)) return "nan";
  if (std::isinf(d)) return d > 0 ? "inf" : "-inf";
  if (d == 0) return "0";
  int e;
  double m = frexp(d, &e);            // d = m * 2^e, 0.5 <= |m| < 1
  long long mi = (long long) ldexp(m, 53);   // 53-bit integer mantissa, exact
  e -= 53;
  while ((mi % 2) == 0) { mi /= 2; ++e; }
  bool negative = mi < 0;
  if (negative) mi = -mi;
  string num = to_string(mi), den = "1";
  for (int i = 0; i < e; ++i) num = decDouble(num);
  for (int i = 0; i < -e; ++i) den = decDouble(den);
  string r = (negative ? "-" : "") + num;
  if (den != "1") r += "/" + den;
  return r;
}

// parse "p" or "p/q" (p, q 64-bit integers, q a power of two, |p| < 2^53) into the double p/q, exactly
static bool parseRat(const string &s, double &out)
{
  size_t slash = s.find('/');
  string ps = slash == string::npos ? s : s.substr(0, slash);
  string qs = slash == string::npos ? "1" : s.substr(slash+1);
  char *e1 = NULL, *e2 = NULL;
  errno = 0;
  long long p = strtoll(ps.c_str(), &e1, 10);
  long long q = strtoll(qs.c_str(), &e2, 10);
  if (errno || *e1 || *e2 || ps.empty() || qs.empty() || q <= 0) return false;
  int k = 0;
  while (q % 2 == 0) { q /= 2; ++k; }
  if (q != 1) return false;
  while (p != 0 && p % 2 == 0 && k > 0) { p /= 2; --k; }
  if (p >= (1LL << 53) || p <= -(1LL << 53)) return false;
  out = ldexp((double) p, -k);
  return true;
}

static string prefixForm(FunctionNode *n)
{
  if (!n) return "NULL";
  if (FNBinaryOperator *b = dynamic_cast<FNBinaryOperator*>(n))
    return "(" + b->name() + " " + prefixForm(b->m_a) + " " + prefixForm(b->m_b) + ")";
  if (FNUnaryFunction *f = dynamic_cast<FNUnaryFunction*>(n))
    return "(fn:" + f->name() + " " + prefixForm(f->m_a) + ")";
  if (FNUnaryOperator *u = dynamic_cast<FNUnaryOperator*>(n))
    return "(neg " + prefixForm(u->m_a) + ")";
  if (dynamic_cast<FPScalarConstant*>(n)) {
    // m_name is "(" + text + ")" or "(M_PI)"
    string t = n->name();
    if (t == "(M_PI)") return "pi";
    return "num:" + t.substr(1, t.size()-2);
  }
  if (dynamic_cast<TypedValue*>(n)) return "sym:" + n->name();
  return "?";
}

static string errKind(const string &msg)
{
  if (msg.find("Empty bracket!") != string::npos) return "empty-bracket";
  // (the unknown-symbol message also mentions unbalanced brackets as a possible reason)
  if (msg.find("Unbalanced brackets in expression") != string::npos) return "unbalanced";
  if (msg.find("empty expression") != string::npos) return "empty-operand";
  if (msg.find("is neither a defined symbol nor a number") != string::npos) return "unknown-symbol";
  return "other";
}

static void declare(FunctionParser &p, bool withPointers)
{
  for (size_t i = 0; i < g_vars.size(); ++i) {
    const VarDecl &v = g_vars[i];
    size_t off = 8*v.slot;
    double *ptr = withPointers ? &g_mem[v.slot] : NULL;
    if (v.kind == 's') {
      p.addSymbol(new FPScalarVariable(v.name, ptr, FunctionArbitrary::double2CExpression("particle_tag", off)));
    } else if (v.kind == 'v') {
      string sv[SPACE_DIMS];
      FunctionArbitrary::point2CExpression(sv, "particle_tag", off);
      p.addSymbol(new FPVectorVariable("[" + v.name + "]", (point_t*) ptr, sv));
    } else {
      string st[SPACE_DIMS][SPACE_DIMS];
      FunctionArbitrary::tensor2CExpression(st, "particle_tag", off);
      p.addSymbol(new FPTensorVariable("{" + v.name + "}", (tensor_t*) ptr, st));
    }
  }
}

static const char *typeName(Variant::variant_type_t t)
{
  switch (t) {
  case Variant::SCALAR: case Variant::SCALAR_STRING: return "scalar";
  case Variant::VECTOR: case Variant::VECTOR_STRING: return "vector";
  case Variant::TENSOR: case Variant::TENSOR_STRING: return "tensor";
  default: return "?";
  }
}

// the work done in the child; prints to stdout (a pipe)
static void doExpr(const string &text)
{
  setvbuf(stdout, NULL, _IONBF, 0);
  // ---- production-like parser: NULL value pointers ----
  FunctionParser pc;
  declare(pc, false);
  try {
    pc.parse(text);
  } catch (gError &err) {
    printf("parse err:%s\n", errKind(err.message()).c_str());
    return;
  }
  printf("parse ok %s\n", prefixForm(pc.m_main_node).c_str());

  bool haveC = false;
  Variant vc(Variant::SCALAR_STRING);
  try {
    vc = pc.toC();
    haveC = true;
  } catch (gError &err) {
    printf("type err\n");
  }
  if (haveC) {
    printf("type %s\n", typeName(vc.typeId()));
    string line = "toC ";
    for (size_t i = 0; i < vc.strings().size(); ++i) {
      if (i) line += " | ";
      line += vc.strings()[i];
    }
    printf("%s\n", line.c_str());
  }

  // ---- interpreter: second parser with real pointers ----
  {
    FunctionParser pv;
    declare(pv, true);
    try {
      pv.parse(text);
      Variant v = pv.value();
      string line = "value";
      for (size_t i = 0; i < v.doubles().size(); ++i) line += " " + ratOfDouble(v.doubles()[i]);
      printf("%s\n", line.c_str());
    } catch (gError &err) {
      printf("value err\n");
    }
  }

  // ---- compile with the real FunctionCompiler and call ----
  if (haveC) {
    size_t n = vc.strings().size();
    try {
      FunctionCompiler fc;
      vector<string> res;
      for (size_t i = 0; i < n; ++i) res.push_back(FunctionArbitrary::double2CExpression("result", 8*i));
      fc.setResultStrings(res);
      fc.setHeader("void *result, void *particle_tag");
      fc.setParserAndCompile(&pc);
      double out[9];
      for (int i = 0; i < 9; ++i) out[i] = -777;
      fc.fn()((void*) out, (void*) (g_mem.empty() ? NULL : &g_mem[0]));
      string line = "compiled";
      for (size_t i = 0; i < n; ++i) line += " " + ratOfDouble(out[i]);
      printf("%s\n", line.c_str());
    } catch (gError &err) {
      printf("compiled err:gcc\n");
    }
  }
}

// `group <stale> <n>` + n lines `gexpr <text>`: ONE child process compiles all n expressions (as a simulation does), keeping every
// compiled function alive, and only then calls each of them.  With stale >= 0 the child first plants a left-over
// $TMP/__function_compiler_tmp_<own pid>_<stale>.c (a killed earlier run whose process id was recycled).  Prints
//   g <i> compiled <r0> ... | g <i> compiled err:<kind> | g <i> parse err
static void doGroup(const vector<string> &texts, int stale)
{
  setvbuf(stdout, NULL, _IONBF, 0);
  if (stale >= 0) {
    const char *tmp = getenv("TMP");
    ostringstream nm;
    nm << (tmp ? tmp : "/tmp") << "/__function_compiler_tmp_" << getpid() << "_" << stale << ".c";
    ofstream f(nm.str().c_str());
    f << "left over\n";
  }
  vector<FunctionParser*> ps(texts.size(), (FunctionParser*) NULL);
  vector<FunctionCompiler*> fcs(texts.size(), (FunctionCompiler*) NULL);
  vector<size_t> ns(texts.size(), 0);
  vector<string> status(texts.size());
  for (size_t k = 0; k < texts.size(); ++k) {
    ps[k] = new FunctionParser();
    declare(*ps[k], false);
    try {
      ps[k]->parse(texts[k]);
      Variant vc = ps[k]->toC();
      ns[k] = vc.strings().size();
    } catch (gError &err) { status[k] = "parse err"; continue; }
    try {
      fcs[k] = new FunctionCompiler();
      vector<string> res;
      for (size_t i = 0; i < ns[k]; ++i) res.push_back(FunctionArbitrary::double2CExpression("result", 8*i));
      fcs[k]->setResultStrings(res);
      fcs[k]->setHeader("void *result, void *particle_tag");
      fcs[k]->setParserAndCompile(ps[k]);
    } catch (gError &err) { status[k] = "compiled err:gcc"; fcs[k] = NULL; }
  }
  for (size_t k = 0; k < texts.size(); ++k) {
    if (!fcs[k]) { printf("g %d %s\n", (int) k, status[k].c_str()); continue; }
    double out[9];
    for (int i = 0; i < 9; ++i) out[i] = -777;
    fcs[k]->fn()((void*) out, (void*) (g_mem.empty() ? NULL : &g_mem[0]));
    string line = "compiled";
    for (size_t i = 0; i < ns[k]; ++i) line += " " + ratOfDouble(out[i]);
    printf("g %d %s\n", (int) k, line.c_str());
  }
}

int main(int argc, char **argv)
{
  if (argc > 1) g_timeout = atoi(argv[1]);
  // gcc diagnostics of rejected C texts are not interesting
  string line;
  while (getline(cin, line)) {
    if (line.empty()) continue;
    if (line == "reset") { g_vars.clear(); g_mem.clear(); continue; }
    if (line.compare(0, 4, "var ") == 0) {
      istringstream is(line.substr(4));
      string kind, name; is >> kind >> name;
      size_t n = kind == "s" ? 1 : kind == "v" ? 3 : kind == "t" ? 9 : 0;
      if (!n) { printf("bad var line\n"); continue; }
      VarDecl d; d.kind = kind[0]; d.name = name; d.slot = g_mem.size();
      bool ok = true;
      vector<double> vals;
      for (size_t i = 0; i < n; ++i) {
        string r; double x = 0;
        if (!(is >> r) || !parseRat(r, x)) ok = false;
        vals.push_back(x);
      }
      if (!ok) { printf("bad var line (value not a double): %s\n", line.c_str()); continue; }
      for (size_t i = 0; i < n; ++i) g_mem.push_back(vals[i]);
      g_vars.push_back(d);
      continue;
    }
    if (line.compare(0, 6, "group ") == 0) {
      int stale = -1, n = 0;
      sscanf(line.c_str() + 6, "%d %d", &stale, &n);
      vector<string> texts;
      for (int k = 0; k < n && getline(cin, line); ++k) texts.push_back(line.size() > 6 ? line.substr(6) : "");
      printf("group %d\n", n);
      fflush(stdout);
      int fd[2];
      if (pipe(fd) != 0) { perror("pipe"); return 2; }
      pid_t pid = fork();
      if (pid == 0) {
        close(fd[0]); dup2(fd[1], 1); close(fd[1]);
        int devnull = open("/dev/null", O_WRONLY);
        if (devnull >= 0) dup2(devnull, 2);
        alarm(g_timeout * (n + 1));
        doGroup(texts, stale);
        fflush(stdout);
        _exit(0);
      }
      close(fd[1]);
      string out; char buf[4096]; ssize_t k;
      while ((k = read(fd[0], buf, sizeof buf)) > 0) out.append(buf, k);
      close(fd[0]);
      int st = 0;
      waitpid(pid, &st, 0);
      size_t lastnl = out.rfind('\n');
      if (lastnl == string::npos) out = ""; else out = out.substr(0, lastnl+1);
      fputs(out.c_str(), stdout);
      if (WIFSIGNALED(st)) printf(WTERMSIG(st) == SIGALRM ? "hang\n" : "crash\n");
      printf("gend\n");
      fflush(stdout);
      continue;
    }
    if (line.compare(0, 4, "expr") == 0) {
      string text = line.size() > 5 ? line.substr(5) : "";
      printf("expr %s\n", text.c_str());
      fflush(stdout);
      int fd[2];
      if (pipe(fd) != 0) { perror("pipe"); return 2; }
      pid_t pid = fork();
      if (pid == 0) {
        close(fd[0]);
        dup2(fd[1], 1);
        close(fd[1]);
        int devnull = open("/dev/null", O_WRONLY);
        if (devnull >= 0) dup2(devnull, 2);
        alarm(g_timeout);
        doExpr(text);
        fflush(stdout);
        _exit(0);
      }
      close(fd[1]);
      string out;
      char buf[4096];
      ssize_t k;
      while ((k = read(fd[0], buf, sizeof buf)) > 0) out.append(buf, k);
      close(fd[0]);
      int st = 0;
      waitpid(pid, &st, 0);
      // only complete lines of the child are forwarded
      size_t lastnl = out.rfind('\n');
      if (lastnl == string::npos) out = ""; else out = out.substr(0, lastnl+1);
      fputs(out.c_str(), stdout);
      if (WIFSIGNALED(st)) {
        if (WTERMSIG(st) == SIGALRM) printf("hang\n");
        else printf("crash %d\n", WTERMSIG(st));
      }
      printf("end\n");
      fflush(stdout);
      continue;
    }
    printf("bad line: %s\n", line.c_str());
  }
  return 0;
}
