// One "sympler-like" process of the C11 correspondence: compiles <nfun> expressions with the REAL
// FunctionFixed/FunctionParser/FunctionCompiler and reports which code each compiled function runs.
// usage: h_compiler_proc <tag> <nfun>      expression k is "x+<tag*1000+k>", so f(0) identifies its origin.
// The scheduling points are the guarded hook in function_compiler.cpp (env VERIF_SCHED_READY / VERIF_SCHED_GO).
#include <cstdio>
#include <cstdlib>
#include <iostream>
#include <sstream>
#include <vector>
#include <unistd.h>
#include <sys/syscall.h>
#include "function_fixed.h"
#include "general.h"

// With VERIF_FAKE_PID set, the process id the code under test sees is that number (the definition in the executable takes
// precedence over libc's for the statically linked FunctionCompiler): the check chooses pairs of process ids whose temporary
// names would coincide if process id and counter were not kept apart.
extern "C" pid_t getpid(void) {
  const char* f = std::getenv("VERIF_FAKE_PID");
  if (f && *f) return (pid_t)atol(f);
  return (pid_t)syscall(SYS_getpid);
}

int main(int argc, char** argv) {
  if (argc < 3) return 2;
  long tag = atol(argv[1]);
  int nfun = atoi(argv[2]);
  std::vector<FunctionFixed*> fs;
  for (int k = 0; k < nfun; ++k) {
    FunctionFixed* f = new FunctionFixed();
    fs.push_back(f);
    f->addVariable("x");
    std::ostringstream e;
    e << "x+" << (tag * 1000 + k);
    f->setExpression(e.str());
    try {
      f->compile();
    } catch (gError& err) {
      printf("error %d\n", k);
      fflush(stdout);
      return 3;
    }
    double v = (*f)(0.0);
    printf("bind %d %.0f\n", k, v);
    fflush(stdout);
  }
  printf("done\n");
  fflush(stdout);
  return 0;
}
