// Validation harness for the hit-time translator (C08, accelerated flight): calls the REAL
// IntegratorVelocityVerlet::solveHitTimeEquation and WallTriangle::hit on a large triangle in a given plane.
// Protocol (all numbers decimal doubles):
//   solve <d> <high> <L>  <rx ry rz> <vx vy vz> <fx fy fz> <mass>
//        wall = face of the box [0,L]^3 orthogonal to axis d (high=0: coordinate 0, inward normal +e_d; high=1: coordinate L,
//        inward normal -e_d)   ->  `times <k> <bits>... dots <nF> <nV> <nR> <nDotR>`   result vector and dot products as IEEE-754 bit patterns
//   hit   <d> <high> <L>  <r> <v> <f> <mass> <dt>   ->  `hit 0` | `hit 1 <t bits> <hx bits> <hy bits> <hz bits>`
#include <cstdio>
#include <cstring>
#include <iostream>
#include <sstream>
#include <string>
#include <vector>
#include <stdint.h>
#define protected public
#define private public
#include "integrator_velocity_verlet.h"
#include "wall_container.h"
#include "wall_triangle.h"
#include "particle.h"
#undef protected
#undef private

static std::string bits(double v) { uint64_t b; memcpy(&b, &v, 8); char buf[32]; snprintf(buf, sizeof buf, "%llu", (unsigned long long) b); return buf; }

int main() {
  std::string line;
  IntegratorVelocityVerlet ivv((Controller*) NULL);
  while (std::getline(std::cin, line)) {
    std::istringstream is(line);
    std::string cmd; int d, high; double L, mass, dt = 0;
    point_t r, v, f;
    is >> cmd >> d >> high >> L;
    for (int k = 0; k < 3; ++k) is >> r[k];
    for (int k = 0; k < 3; ++k) is >> v[k];
    for (int k = 0; k < 3; ++k) is >> f[k];
    is >> mass;
    if (cmd == "hit") is >> dt;
    if (!is || (cmd != "solve" && cmd != "hit") || d < 0 || d > 2) { printf("err:parse\n"); continue; }
    try {
      WallContainer wc;
      // a triangle that contains the whole face and a wide margin; orientation chosen so that the normal points inwards
      int e1 = (d + 1) % 3, e2 = (d + 2) % 3;
      point_t A = {{{0, 0, 0}}}, B = {{{0, 0, 0}}}, C = {{{0, 0, 0}}};
      double x = high ? L : 0;
      A[d] = x; B[d] = x; C[d] = x;
      A[e1] = -8 * L; A[e2] = -8 * L;
      B[e1] = 16 * L; B[e2] = -8 * L;
      C[e1] = -8 * L; C[e2] = 16 * L;
      int ia = wc.addVertex(A), ib, ic;
      if (!high) { ib = wc.addVertex(B); ic = wc.addVertex(C); } else { ib = wc.addVertex(C); ic = wc.addVertex(B); }
      WallTriangle wt(&wc, NULL, ia, ib, ic);
      ivv.m_mass = mass;
      Particle p;
      p.r = r; p.v = v; p.dt = dt;
      if (cmd == "solve") {
        std::vector<double> res;
        ivv.solveHitTimeEquation(&wt, &p, f, &res);
        std::string o = "times " + std::to_string(res.size());
        for (size_t i = 0; i < res.size(); ++i) o += " " + bits(res[i]);
        // the dot products exactly as the member function evaluates them (parameters of the generated definition)
        o += " dots " + bits(wt.normal() * f) + " " + bits(wt.normal() * p.v) + " " + bits(wt.normal() * p.r) + " " + bits(wt.nDotR());
        printf("%s\n", o.c_str());
      } else {
        double t = -1; point_t hp = {{{0, 0, 0}}};
        bool h = wt.hit(&p, f, t, hp, &ivv);
        if (!h) printf("hit 0\n");
        else printf("hit 1 %s %s %s %s\n", bits(t).c_str(), bits(hp[0]).c_str(), bits(hp[1]).c_str(), bits(hp[2]).c_str());
      }
    } catch (gError& e) { printf("throws\n"); }
    fflush(stdout);
  }
  return 0;
}
