// Correspondence harness for C15: drives the real SmartList<T> (header-only) with the line protocol
// of lean/Sympler/SmartList.lean.  Compile with -DKAUZLARI_SYMPLER_VERIF -DVERIF_CHUNK_SH=<n> [-DVERIF_CHUNK_LEN=<m>].
// Extra (not in the model): address stability — the address of every live entry recorded at creation must
// still be the address reached through operator[] and through the list walk ("references stay valid").
#include <cstdio>
#include <cstdlib>
#include <iostream>
#include <map>
#include <sstream>
#include <string>
#include "smart_list.h"
typedef PrimitiveSLEntry<long> E;

int main() {
  SmartList<E>* sl = new SmartList<E>();
  std::map<size_t, E*> addr;          // live slot -> address at creation
  std::map<size_t, long> payload;     // live slot -> payload written at creation
  long counter = 0;
  std::string line;
  while (std::getline(std::cin, line)) {
    std::istringstream is(line);
    std::string w;
    is >> w;
    if (w == "") continue;
    if (w.substr(0, 3) == "###") { delete sl; sl = new SmartList<E>(); addr.clear(); payload.clear(); printf("%s\n", line.c_str()); continue; }
    if (w == "params") {
      size_t sh, len; is >> sh >> len;
      if (sh != (size_t) CHUNK_SH || len != (size_t) CHUNK_LEN) { printf("err:params compiled=%d,%d\n", (int) CHUNK_SH, (int) CHUNK_LEN); }
      continue;
    }
    if (w == "new") {
      E& e = sl->newEntry();
      e.m_val = ++counter;
      addr[e.mySlot] = &e; payload[e.mySlot] = counter;
      printf("slot=%zu size=%zu cap=%zu\n", e.mySlot, sl->size(), sl->capacity());
    } else if (w == "del") {
      size_t k; is >> k;
      if (sl->size() == 0) { printf("skip\n"); continue; }
      k %= sl->size();
      E* p = sl->first();
      for (size_t i = 0; i < k; i++) p = p->next;
      size_t s = p->mySlot;
      sl->deleteEntry((int) s);
      addr.erase(s); payload.erase(s);
      printf("del slot=%zu size=%zu\n", s, sl->size());
    } else if (w == "clear") {
      sl->clear(); addr.clear(); payload.clear();
      printf("clear\n");
    } else if (w == "dump") {
      bool stable = true;
      printf("fwd="); bool f = true; size_t n = 0;
      for (E* p = sl->first(); p && n <= sl->capacity(); p = p->next, ++n) {
        printf(f ? "%zu" : ",%zu", p->mySlot); f = false;
        if (!addr.count(p->mySlot) || addr[p->mySlot] != p || &((*sl)[p->mySlot]) != p || p->m_val != payload[p->mySlot]) stable = false;
      }
      if (n != addr.size()) stable = false;
      printf(" bwd="); f = true; n = 0;
      for (E* p = sl->last(); p && n <= sl->capacity(); p = p->prev, ++n) { printf(f ? "%zu" : ",%zu", p->mySlot); f = false; }
      printf(" free="); f = true;
      std::list<size_t> fs = sl->freeSlots();
      for (std::list<size_t>::iterator x = fs.begin(); x != fs.end(); ++x) { printf(f ? "%zu" : ",%zu", *x); f = false; }
      // m_emptyIndex is protected; size + |free| equals it (theorem C15_size)
      printf(" empty=%zu cap=%zu size=%zu", sl->size() + fs.size(), sl->capacity(), sl->size());
      printf(stable ? "\n" : " err:address\n");
    } else printf("err:parse\n");
  }
  delete sl;
  return 0;
}
