#!/bin/bash
# usage: build_harness.sh <source.cpp> <output> [extra g++ flags...]
# Compiles a correspondence harness against the hooked static libraries of /repo's working tree
# (built by `/verif/check` into /verif/.work/build-hooks; override with VERIF_BUILD_DIR).
set -e
SRC="$1"; OUT="$2"; shift 2
HERE="$(cd "$(dirname "${BASH_SOURCE[0]}")" && pwd)"
B="${VERIF_BUILD_DIR:-$HERE/../.work/build-hooks}"
R="${VERIF_REPO:-/repo}"
INC=""
for d in $(find "$R/source/include" -type d); do INC="$INC -I$d"; done
L="$B/source/src"
LIBS="-Wl,--start-group $L/libbasic.a $L/libboundary.a $L/libcalculator.a $L/libforce.a $L/libfunction_parser.a $L/libgeometry.a $L/libintegrator.a $L/libmeter.a $L/libparticle_creator.a $L/libpostprocessor.a $L/libreflector.a $L/libcallable.a $L/libsymbol.a $L/libweighting_function.a -Wl,--end-group"
exec g++ -std=gnu++17 -O1 -g -Wno-deprecated -DKAUZLARI_SYMPLER_VERIF -D_VERSIONNUMBER='"verif"' $INC -I/usr/include/libxml2 "$@" "$SRC" -o "$OUT" $LIBS -lgsl -lgslcblas -ldl -lxml2 -lm -pthread
