"""C03 — a runtime-compiled expression computes what the expression language defines.

proof:  Props/C03.lean about Sympler/Expr.lean: C03_emit_sound(_parsed) (for every well-formed tree and environment the C reader's value
        of every emitted component = the interpreter's value), C03_emit_no_int_division / C03_emit_never_int_error (no emitted text
        contains an int/int division, so the compiled code cannot truncate), C03_total (the character-level parser is total: a tree
        or an error, never a hang), C03_parse_render(_sym/_value) (usual precedence, left-associativity of - and /, unary minus,
        redundant parentheses), C03_denote_meaning_* (the interpreter's value IS the documented meaning of every operator and
        function), witnesses (name clashes, scalar contraction, power chain), pre-fix history witnesses on the Old definitions
tie:    T (translate/t_exprtable.py: operator/function table in registration order with priorities) and
        C: harness/h_parser.cpp links the real parser: parse tree, result type, EVERY emitted C string (textual equality with the
        model), interpreter value, value of the gcc-compiled function; model evalC o parseC = gcc on the emitted text
search: generator's own reference evaluator (documented meaning) vs real interpreter vs real compiled code; crashes / hangs
PARTIAL: variable names that contain an operator or function name are outside C03_parse_render (characterised by a decidable
        predicate; examined by the malformed stream only); gcc and libm are trusted (validated by the correspondence).
"""
import json
import os
import subprocess
import sys
import common
import t_exprtable

E = "Sympler.Expr."
NAMES = ["C03_emit_sound", "C03_emit_sound_parsed", "C03_emit_no_int_division", "C03_emit_no_int_division_parsed", "C03_emit_never_int_error", "C03_total",
         "C03_parse_render_sym", "C03_parse_render", "C03_parse_render_value",
         "C03_denote_meaning_contract_vv", "C03_denote_meaning_contract_tt", "C03_denote_meaning_contract_tv", "C03_denote_meaning_dot",
         "C03_denote_meaning_outer", "C03_denote_meaning_T", "C03_denote_meaning_det", "C03_denote_meaning_trace", "C03_denote_meaning_Q",
         "C03_denote_meaning_matrices", "C03_denote_meaning_vectors", "C03_denote_meaning_componentwise", "C03_denote_meaning_pow",
         "C03_step_division_witness", "C03_zero_division_witness", "C03_unbalanced_witness", "C03_nested_empty_bracket_witness",
         "C03_pow_vector_exponent_witness", "C03_name_clash_witness", "C03_name_clash_reject_witness", "C03_scalar_contraction_witness",
         "C03_power_left_assoc_witness", "C03_reject_witness", "C03_usual_reading_rejected_witness",
         "C03_old_int_division_witness", "C03_old_int_div0_witness", "C03_old_bracket_witness", "C03_old_null_witness"]
THEOREMS = [E + n for n in NAMES]
MODULES = ["Sympler.Expr", "Sympler.ExprCLemmas", "Sympler.ExprEmitLemmas", "Sympler.ExprDblLemmas", "Sympler.ExprParseLemmas", "Sympler.ExprSurface",
           "Sympler.ExprSurfaceLemmas", "Sympler.ExprUsualLemmas", "Sympler.ExprHistory", "Sympler.Gen.ExprTableGen", "Props.C03"]
TR = "translator t_exprtable (C_MAX_PRIORITY, binary operators and unary functions with priorities in registration order)"
IMPL_KINDS = ("meaning", "meaning-accepts-illtyped", "compiled-vs-interpreter", "unpredicted-crash", "unpredicted-hang", "compiled-missing")


def run(ctx):
    ok, out = common.ensure_build("hooks", targets=("sympler",))
    ctx.oblige("hooked build of /repo", ok, out[-300:])
    hok, hout, hbin = common.build_harness("h_parser")
    ctx.oblige("harness h_parser built against the real function_parser library", hok, hout[-300:])
    try:
        common.write_if_changed(os.path.join(common.LEAN, "Sympler/Gen/ExprTableGen.lean"), t_exprtable.generate(common.REPO))
        ctx.oblige(TR, True)
    except Exception as ex:
        ctx.oblige(TR, False, repr(ex))
    common.lean_obligations(ctx, ["Props.C03", "Sympler.Expr", "symdrv"], ["Props.C03"], THEOREMS, MODULES)
    n, depth, exk, exs, mal = (150, 4, 2, 80, 40) if not ctx.thorough else (2500, 5, 3, 12000, 250)
    work = os.path.join(common.WORK, "c03-%d" % os.getpid())
    os.makedirs(work, exist_ok=True)
    prefix = os.path.join(work, "t")
    rep = None
    if hok and os.path.exists(common.symdrv()):
        g = subprocess.run([sys.executable, os.path.join(common.VERIF, "sim", "gen_expr.py"), str(ctx.seed), str(n), str(depth), "--out", prefix,
                            "--exhaustive", str(exk), "--exsample", str(exs), "--malformed", str(mal)], stdout=subprocess.PIPE, stderr=subprocess.STDOUT, text=True, timeout=3600)
        d = subprocess.run([sys.executable, os.path.join(common.VERIF, "sim", "diff_expr.py"), prefix, "--symdrv", common.symdrv(), "--harness", hbin,
                            "--report", prefix + ".report.json"], stdout=subprocess.PIPE, stderr=subprocess.STDOUT, text=True, timeout=14400, cwd=work)
        try:
            rep = json.load(open(prefix + ".report.json"))
        except Exception:
            ctx.oblige("correspondence expr ran", False, (g.stdout[-200:] + d.stdout[-400:]))
    # several expressions compiled in ONE process (as a simulation does), all kept alive, with and without a left-over temporary
    # file of a dead process with the same process id: every compiled function must still compute what it computes when it is
    # the only one compiled (oracle on the real code; the per-expression comparison above forks one process per expression)
    gbad, ngroups, nstale, gexprs = [], 0, 0, 0
    if hok and os.path.exists(prefix + ".req"):
        import random
        gr = random.Random(ctx.seed * 7919 + 3)
        blocks, cur = [], None
        for l in open(prefix + ".req").read().splitlines():
            if l == "reset":
                cur = dict(vars=[], exprs=[])
                blocks.append(cur)
            elif cur is not None and l.startswith("var "):
                cur["vars"].append(l)
            elif cur is not None and l.startswith("expr ") and "uran" not in l and len(l) < 200:
                cur["exprs"].append(l[5:])
        blocks = [b for b in blocks if len(b["exprs"]) >= 3]
        gr.shuffle(blocks)
        want = 24 if not ctx.thorough else 300
        lines, plan = [], []
        for b in blocks[:want]:
            ex = gr.sample(b["exprs"], min(len(b["exprs"]), gr.randrange(3, 6)))
            stale = gr.choice([-1, 0, 0, 1, 2])
            plan.append((b["vars"], ex, stale))
            lines += ["reset"] + b["vars"] + ["expr " + e for e in ex] + ["group %d %d" % (stale, len(ex))] + ["gexpr " + e for e in ex]
        gtmp = os.path.join(work, "gtmp")
        os.makedirs(gtmp, exist_ok=True)
        gp = subprocess.run([hbin, "20"], input="\n".join(lines) + "\n", stdout=subprocess.PIPE, stderr=subprocess.DEVNULL, text=True, timeout=7200,
                            cwd=work, env=dict(os.environ, TMP=gtmp))
        out = gp.stdout.splitlines()
        pos = 0
        for (vs, ex, stale) in plan:
            single = []
            for e in ex:
                comp = None
                while pos < len(out) and out[pos] != "end":
                    if out[pos].startswith("compiled"):
                        comp = out[pos]
                    pos += 1
                pos += 1
                single.append(comp)
            g = {}
            while pos < len(out) and out[pos] != "gend":
                w = out[pos].split(" ", 2)
                if w[0] == "g" and len(w) == 3:
                    g[int(w[1])] = w[2]
                elif out[pos] in ("crash", "hang"):
                    g["died"] = out[pos]
                pos += 1
            pos += 1
            ngroups += 1
            nstale += stale >= 0
            gexprs += len(ex)
            for i, e in enumerate(ex):
                a, b2 = single[i], g.get(i)
                if "died" in g or (a is not None and not a.startswith("compiled err") and a != b2):
                    gbad.append(dict(what="compiled-in-group-differs", text=e, variables=vs, group=ex, index=i, stale_counter=stale,
                                     compiled_alone=a, compiled_in_group=b2 if "died" not in g else g["died"]))
                    break
    ctx.oblige("oracle: %d groups of 3-5 expressions compiled in one process and kept alive (%d with a left-over temporary file of the same process id): every compiled function computes what it computes alone (%d expressions)"
               % (ngroups, nstale, gexprs), ngroups > 0 and not gbad, str(gbad[:1])[:500])
    bad = rep["bad"] if rep else []
    stat = rep["summary"]["stat"] if rep else {}
    impl = [b for b in bad if b["what"] in IMPL_KINDS]
    corr = [b for b in bad if b["what"] not in IMPL_KINDS]
    ncases = rep["summary"]["cases"] if rep else 0
    ctx.oblige("correspondence expr: parse tree / error kind, result type, every emitted C string (textual), interpreter value, evalC o parseC = gcc: Lean model = real code on %d expressions (%d emitted texts identical, %d values exact)"
               % (ncases, stat.get("toC:same", 0), stat.get("value:exact", 0)), rep is not None and not corr,
               str([dict(what=b["what"], text=b["text"]) for b in corr[:3]])[:500])
    ctx.oblige("oracle: documented meaning (generator's reference evaluator) = real interpreter = real compiled code; ill-typed input rejected; no crash, no hang",
               rep is not None and not impl, str([dict(what=b["what"], text=b["text"]) for b in impl[:3]])[:500])
    hist = {}
    try:
        hist = json.load(open(prefix + ".hist.json"))
    except Exception:
        pass
    nontriv = stat.get("parse:ok", 0)
    ctx.coverage.update(dict(evaluations=ncases, distinct_nontrivial=nontriv, traces_validated_against_impl=ncases,
                             rule="streams of sim/gen_expr.py: type-directed random trees over ALL documented operators and functions (depth <= %d) rendered with usual precedence and random redundant parentheses, "
                                  "precedence-table renderings, ill-typed trees, every tree with <= %d binary operators in every parenthesisation (sample), and a malformed stream (unbalanced brackets, empty operands, "
                                  "exponent notation, signs after operators, blanks, clashing names, repeated powers); values dyadic incl. negative / zero / tiny / large; non-trivial = the real parser produced a tree "
                                  "(the others exercise rejection); distinct texts by construction" % (depth, exk),
                             histogram=dict(stat=stat, generator=hist if isinstance(hist, dict) else None, finding_classes=sorted((rep or {}).get("summary", {}).get("findings", {}).keys())),
                             samples=[b["text"] for b in bad[:3]] or [dict(cases=ncases, parsed=nontriv)]))
    ctx.assumptions += ["gcc and libm are trusted; parseC/evalC is the specification of what gcc makes of the emitted text and is validated against gcc on every emitted text",
                        "exact-arithmetic regime for + - *; where a double operation had to round the case is counted as `rounded`, never as disagreement",
                        "PARTIAL: names containing operator/function names (e.g. `Temp` read as `T(emp)`) are outside C03_parse_render; uran is random (compared by range only)"]
    if not all(o[1] for o in ctx.obligations):
        failing = [o[0] for o in ctx.obligations if not o[1]]
        if impl or gbad:
            b = (impl + gbad)[0]
            ctx.violation("C03 violated on the real code (%s): %s" % (b["what"], json.dumps(b["text"], ensure_ascii=False)[:200]),
                          dict(kind="input", failing_obligations=failing, what=b["what"], expression=b["text"], model=b.get("model"), real=b.get("real"),
                               group=b.get("group"), variables=b.get("variables"), stale_counter=b.get("stale_counter"), compiled_alone=b.get("compiled_alone"), compiled_in_group=b.get("compiled_in_group"),
                               how_to_replay="printf 'reset\\nvar ...\\nexpr <text>\\n' | .work/bin/h_parser  (request format: sim/gen_expr.py); compare `value` and `compiled` lines; for a group: reset, var lines, `group <stale_counter> <n>` followed by n lines `gexpr <text>` (TMP set to an empty directory)"), True)
        else:
            ctx.violation("C03 is no longer shown to hold: " + "; ".join(failing[:3]),
                          dict(kind="proof-or-correspondence", failing_obligations=failing, lake_errors=getattr(ctx, "lake_errors", []),
                               first_differences=[dict(what=b["what"], text=b["text"], model=b.get("model"), real=b.get("real")) for b in corr[:3]]), False)
    import shutil
    shutil.rmtree(work, ignore_errors=True)
