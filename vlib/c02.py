"""C02 — the Verlet neighbour list never lacks a pair inside the interaction cutoff.

proof:  Props/C02.lean (scan_sound / scan_iff / every_mode / refresh_minimage / refresh_no_false_close ...) and
        PropsR/C02.lean (verlet_geometric..., scan_keeps_close_pairs over a normed space) about the definitions in
        Sympler/Gen/VerletGen.lean, which translate/t_verlet.py regenerates from verlet_creator.cpp on every run
tie:    T (scan loop body, counter decision, counter updates, refresh wrap, list cutoff) and
        C: force-free Verlet scenarios on the real binary: rebuild decision per step = `scan` on the observed displacement
           magnitudes in storage order (or `every`), refreshed pair distance = `wrapvec`; family B: VerletCreator vs
           LinkedListCreator give identical forces
search: oracle on the dumps: every pair inside the interaction cutoff listed once with its current separation; no listed pair
        reports a separation below the cutoff unless true
"""
import os
import shutil
from concurrent.futures import ThreadPoolExecutor
import common
import symlib
from fractions import Fraction
import corr_verlet as cv
import t_verlet

P = "Sympler.Verlet."
THEOREMS = [P + t for t in ["C02_scan_sound", "C02_scan_iff", "C02_scan_complete", "C02_scan_old_unsound_witness", "C02_scan_old_order_dependent",
                            "C02_scan_old_partial", "C02_first_step_rebuilds", "C02_first_step_magnitude", "C02_scan_empty_never_rebuilds",
                            "C02_every_mode", "C02_refresh_minimage", "C02_refresh_no_false_close", "C02_refresh_box_condition_sharp",
                            "C02_refreshVec_components", "C02_scan_scope"]]
THEOREMS_R = [P + t for t in ["C02_verlet_geometric_shift", "C02_verlet_geometric", "C02_verlet_geometric_minimage", "C02_listCutoff_cast", "C02_scan_keeps_close_pairs"]]
MODULES = ["Sympler.Verlet", "Sympler.VerletLemmas", "Sympler.Gen.VerletGen", "Props.C02", "PropsR.C02"]


def one_case(args):
    idx, seed, family, base = args[:4]
    force_mode = args[4] if len(args) > 4 else None
    import random
    r = random.Random("%s/%d" % (seed, idx))
    sc, meta = cv.gen_case(r, family, force_mode)
    d = os.path.join(base, "c%d" % idx)
    shutil.rmtree(d, ignore_errors=True)
    symlib.write_case(d, sc)
    rc, out = symlib.run_sympler(d, common.sympler(), timeout=120)
    res = dict(idx=idx, family=family, meta={k: str(v) for k, v in meta.items()}, scenario=sc, rc=rc, diffs=[], errors=[], nreq=0, nscan=0, nwrap=0, rebuilds=0, refreshes=0)
    if rc != 0:
        res["diffs"].append("sympler failed: " + out[-300:])
        return res
    steps = symlib.parse_obs(os.path.join(d, "obs.txt"))
    for st in steps:
        for e in cv.oracle_step(st, meta):
            res["errors"].append("step %d: %s" % (st["step"], e))
    if family == "A":
        reqs = cv.model_requests(steps, meta)
        out = common.run_model("verlet", [q[0] for q in reqs] + ["end"])
        res["nreq"] = len(reqs)
        for q, o in zip(reqs, out):
            if q[0].startswith("scan"):
                res["nscan"] += 1
                res["rebuilds" if q[1].endswith("1") else "refreshes"] += 1
            if q[0].startswith("wrapvec"):
                res["nwrap"] += 1
            if q[1] is not None and q[1] != o:
                res["diffs"].append("%s: real %s model %s  (request %s)" % (q[2], q[1], o, q[0]))
            if q[1] is None and any(b is not None and a != b for a, b in zip([x == "1" for x in o.split()[2:]], q[2])):
                res["diffs"].append("counter mode decisions: real %s model %s" % (q[2], o))
    else:
        # family B: same input with the linked-cell creator must give identical forces and positions
        sc2 = dict(sc)
        sc2["pair_creator"] = ["LinkedListCreator", {}]
        d2 = d + "_ll"
        shutil.rmtree(d2, ignore_errors=True)
        symlib.write_case(d2, sc2)
        rc2, out2 = symlib.run_sympler(d2, common.sympler(), timeout=120)
        if rc2 != 0:
            res["diffs"].append("LinkedListCreator run failed: " + out2[-200:])
        else:
            st2 = symlib.parse_obs(os.path.join(d2, "obs.txt"))
            for a, b in zip(steps, st2):
                if not cv.premise_holds(a, meta):
                    break
                # the two creators list the pairs in different orders: once a sum has to round (after a few steps with forces) the
                # results may differ in the last bits; a missing or stale pair changes a force by O(0.1)
                def close(x, y):
                    return abs(x - y) <= Fraction(1, 2 ** 36) * max(1, abs(x))
                fa = [(p["slot"], list(p["r"]) + list(p["v"]) + list(p["f0"]) + list(p["f1"])) for p in a["particles"]]
                fb = [(p["slot"], list(p["r"]) + list(p["v"]) + list(p["f0"]) + list(p["f1"])) for p in b["particles"]]
                if len(fa) != len(fb) or any(sa != sb or len(va) != len(vb) or not all(close(x, y) for x, y in zip(va, vb)) for (sa, va), (sb, vb) in zip(fa, fb)):
                    res["errors"].append("step %d: forces/positions differ between VerletCreator and LinkedListCreator" % a["step"])
                    break
    return res


def run(ctx):
    ok, out = common.ensure_build("hooks", targets=("sympler",))
    ctx.oblige("hooked build of /repo", ok, out[-300:])
    try:
        gen = t_verlet.generate(common.REPO)
        common.write_if_changed(os.path.join(common.LEAN, "Sympler/Gen/VerletGen.lean"), gen)
        ctx.oblige("translator t_verlet (scan body, counter mode, refresh wrap, list cutoff)", True)
    except Exception as ex:
        ctx.oblige("translator t_verlet (scan body, counter mode, refresh wrap, list cutoff)", False, repr(ex))
    import dyngen
    try:
        import t_pairlists
        common.write_if_changed(os.path.join(common.LEAN, "Sympler/Gen/PairListsGen.lean"), t_pairlists.generate(common.REPO))
        ctx.oblige(dyngen.NAME3, True)
    except Exception as ex:
        ctx.oblige(dyngen.NAME3, False, repr(ex))
    TRD = "translator t_disp (IntegratorVelocityVerletDisp::integratePosition: the displacement attribute the rebuild test reads)"
    try:
        import t_disp
        common.write_if_changed(os.path.join(common.LEAN, "Sympler/Gen/DispGen.lean"), t_disp.generate(common.REPO))
        ctx.oblige(TRD, True)
    except Exception as ex:
        ctx.oblige(TRD, False, repr(ex))
    DT = ["Sympler.Disp.C02_disp_tracks_position", "Sympler.Disp.C02_disp_position_is_vv", "Sympler.Disp.C02_disp_accumulates", "Sympler.Disp.C02_scan_reads_displacement_since_rebuild"]
    lean_ok = common.lean_obligations(ctx, ["Sympler.Verlet", "Props.C02", "PropsR.C02", "Props.PairLists", "Props.C02Disp", "symdrv"], ["Props.C02", "PropsR.C02", "Props.PairLists", "Props.C02Disp"],
                                      THEOREMS + THEOREMS_R + dyngen.PL + DT, MODULES + ["Sympler.Gen.PairListsGen", "Props.PairLists", "Sympler.Gen.DispGen", "Props.C02Disp"])
    nA, nB = (50, 12) if not ctx.thorough else (800, 200)
    base = os.path.join(common.WORK, "c02-%d" % os.getpid())
    results = []
    if ok and os.path.exists(common.symdrv()):
        jobs = [(i, ctx.seed, "A", base) for i in range(nA)] + [(nA + i, ctx.seed, "B", base) for i in range(nB)]
        with ThreadPoolExecutor(max_workers=8) as ex:
            results = list(ex.map(one_case, jobs))
        shutil.rmtree(base, ignore_errors=True)
    diffs = [r for r in results if r["diffs"]]
    errs = [r for r in results if r["errors"]]
    hist = dict(cases_A=nA, cases_B=nB, scan_requests=sum(r["nscan"] for r in results), wrap_requests=sum(r["nwrap"] for r in results),
                rebuild_decisions=sum(r["rebuilds"] for r in results), refresh_decisions=sum(r["refreshes"] for r in results), modes={}, every={})
    for r in results:
        hist["modes"][r["meta"]["mode"]] = hist["modes"].get(r["meta"]["mode"], 0) + 1
        hist["every"][r["meta"]["every"]] = hist["every"].get(r["meta"]["every"], 0) + 1
    ctx.oblige("correspondence verlet: rebuild decisions and refreshed distances of the real binary = Lean model (%d scan, %d wrap requests, %d scenarios)" % (hist["scan_requests"], hist["wrap_requests"], nA),
               len(results) > 0 and not diffs, str([d["diffs"][:2] for d in diffs[:1]])[:600])
    ctx.oblige("oracle on the real runs: no close pair missing/duplicated/stale; Verlet = LinkedList forces (%d scenarios)" % len(results),
               not errs, str([e["errors"][:2] for e in errs[:1]])[:600])
    nontriv = sum(1 for r in results if r["nscan"] > 0 or r["family"] == "B")
    ctx.coverage.update(dict(evaluations=len(results), distinct_nontrivial=nontriv,
                             rule="Verlet scenarios (2-8 particles, 3-8 steps, skins 1/8..1, boxes of 2-4 cells per direction with dyadic cell width, mixed periodicity, displacement-triggered and fixed-interval mode, head-on / slow+fast / ascending / descending / random speed patterns, axis and 3-4-5 directions); non-trivial = at least one rebuild decision compared (family A) or a with-forces equivalence run (family B); distinct by construction (one PRNG stream per case)",
                             samples=[dict(meta=r["meta"], particles=r["scenario"]["particles"][:3], pair_creator=r["scenario"]["pair_creator"]) for r in results[:2]],
                             histogram=hist, traces_validated_against_impl=len(results)))
    ctx.assumptions += ["'fixed-interval rebuild within the safe interval' is the user's premise: in counter mode the oracle only applies while no two particles have together moved the skin",
                        "colours without a position integrator do not move; an empty particle list never triggers a rebuild (C02_scan_empty_never_rebuilds)",
                        "exact-arithmetic regime: dyadic positions/velocities/cell widths, rational speeds"]
    if not all(o[1] for o in ctx.obligations):
        failing = [o[0] for o in ctx.obligations if not o[1]]
        if not errs and ok:
            # violation search: head-on approaches from outside the list cutoff, both storage orders (the quantifier text of C02)
            jobs = [(10000 + i, ctx.seed, "A", base, "headon") for i in range(300)] + [(20000 + i, ctx.seed, "A", base, "headon-every1") for i in range(150)]
            with ThreadPoolExecutor(max_workers=8) as ex:
                extra = list(ex.map(one_case, jobs))
            shutil.rmtree(base, ignore_errors=True)
            errs = [r for r in extra if r["errors"]]
        if errs:
            e = errs[0]
            ctx.violation("C02 violated on the real binary: " + e["errors"][0][:200],
                          dict(kind="input", failing_obligations=failing, scenario=e["scenario"], meta=e["meta"], errors=e["errors"][:4],
                               how_to_replay="symlib.write_case(dir, scenario); sympler in.xml; the observer dump obs.txt shows the pair lists per step"), True)
        else:
            ctx.violation("C02 is no longer shown to hold: " + "; ".join(failing[:3]),
                          dict(kind="proof-or-correspondence", failing_obligations=failing, lake_errors=getattr(ctx, "lake_errors", []),
                               first_differences=[dict(meta=d["meta"], diffs=d["diffs"][:3], scenario=d["scenario"]) for d in diffs[:2]]), False)
