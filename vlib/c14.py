"""C14 — run-time extensible per-particle records keep every attribute intact.

proof:  Props/C14.lean — layout invariant, add preserves/idempotent/conflict, deep copy (heap with refcounts), clear exact,
        text round trip, for ALL op sequences, about the model Sympler/DataFormat*.lean
tie:    T  translate/t_dataformat.py regenerates enum, sizes (compiled probe), alignment rule, container/case tables
        C  sim/gen_dataformat.py + sim/diff_dataformat.py: random op sequences over all attribute types on the real classes
           (harness/h_dataformat.cpp, ASan/UBSan) vs the Lean driver
search: an independent property-level oracle (reference dictionary semantics) on structured families of op sequences run on the
        real classes; known findings are recognised by their signature
"""
import json
import os
import re
from fractions import Fraction
import common
import t_dataformat

P = "Sympler.DataFormat."
THEOREMS = [P + t for t in ["C14_gen_tables", "C14_layout_inv", "C14_layout_misaligned_without_alignDataFor", "C14_no_uaf_no_misaligned",
                            "C14_add_preserves_format", "C14_add_preserves", "C14_add_idempotent", "C14_add_idempotent_reachable", "C14_add_twice",
                            "C14_add_conflict", "C14_copy_deep", "C14_assign_leaks_witness", "C14_no_leak_without_assign", "C14_copy_string_witness",
                            "C14_clear_exact", "C14_clear_container_witness", "C14_text_roundtrip", "C14_text_roundtrip_state",
                            "C14_string_empty_witness", "C14_model_codec_good", "C14_text_roundtrip_int_model"]]
MODULES = ["Sympler.DataFormat", "Sympler.DataFormatDriver", "Sympler.DataFormatLemmas", "Sympler.DataFormatHeap", "Sympler.DataFormatInv",
           "Sympler.DataFormatSteps", "Sympler.DataFormatStep", "Sympler.DataFormatFrame", "Sympler.DataFormatCases", "Sympler.DataFormatFrameStep",
           "Sympler.DataFormatReads", "Sympler.DataFormatErrors", "Sympler.DataFormatText", "Sympler.DataFormatAux", "Sympler.DataFormatCodec",
           "Sympler.Gen.DataFormatGen", "Props.C14"]

SIZES = {"INT": 4, "DOUBLE": 8, "INT_POINT": 12, "POINT": 24, "TENSOR": 72, "STRING": 32, "VECTOR_INT": 16, "VECTOR_DOUBLE": 16, "VECTOR_POINT": 16, "VECTOR_TENSOR": 16}
ALIGN = {"INT": 4, "INT_POINT": 4}


def norm_val(tok):
    """canonical form of a value token of the harness (reduce fractions)"""
    def f(m):
        p, q = m.group(0).split("/")
        fr = Fraction(int(p), int(q))
        return str(fr.numerator) if fr.denominator == 1 else "%d/%d" % (fr.numerator, fr.denominator)
    return re.sub(r"-?\d+/\d+", f, tok.strip())


def run_harness(binp, lines):
    rc, out = common.sh([binp, "--noguard"], input="\n".join(lines) + "\n", timeout=120)
    outl = [l for l in out.splitlines() if not (l.startswith("{") or l.startswith("name =") or l.startswith("symbol ="))]
    cases = {}
    cur = None
    for l in outl:
        if l.startswith("case "):
            cur = l.split()[1]
            cases[cur] = []
        elif cur is not None:
            if l.startswith("ub:") or l == "survived":
                continue
            cases[cur].append(l)
    return cases


def val_tok(t, r):
    if t == "INT":
        return "int:%d" % r.randrange(-1000, 1000)
    if t == "DOUBLE":
        return "dbl:" + rat(r)
    if t == "POINT":
        return "pt:" + ",".join(rat(r) for _ in range(3))
    if t == "TENSOR":
        return "tens:" + ",".join(rat(r) for _ in range(9))
    if t == "STRING":
        return "str:[" + "".join(r.choice("abcxyz_-0123 ") for _ in range(r.randrange(1, 24))) + "]"
    raise ValueError(t)


def rat(r):
    k = r.choice([1, 2, 4, 8, 1, 1])
    return norm_val("%d/%d" % (r.randrange(-4000, 4000), k))


def zero_of(t):
    return {"INT": "int:0", "DOUBLE": "dbl:0", "POINT": "pt:0,0,0", "TENSOR": "tens:0,0,0,0,0,0,0,0,0", "STRING": "str:[]", "VECTOR_DOUBLE": "vec:{}",
            "VECTOR_INT": "vec:{}", "VECTOR_POINT": "vec:{}", "VECTOR_TENSOR": "vec:{}"}[t]


def oracle_families(r, binp, n):
    """structured op sequences with the result the PROPERTY demands, run on the real classes.
    returns (number of cases, list of findings dict(signature, what, ops, observed, expected))"""
    scalar_types = ["INT", "DOUBLE", "POINT", "TENSOR"]
    cases = []       # (id, lines, checks) ; checks: list of (output index, expected text, signature, what)
    for k in range(n):
        fam = ["copy", "copy_string", "copy_container", "clear", "clear_container", "add", "conflict", "text", "string_empty", "layout", "text_string"][k % 11]
        cid = "o%d.%s" % (k, fam)
        L = ["case %s align 3" % cid, "fmt"]
        checks = []
        out_i = [0]          # index of the next output line (after the 'case' line)

        def emit(line, nout=1):
            L.append(line)
            i = out_i[0]
            out_i[0] += nout
            return i
        emit("fmt_placeholder", 0)
        L.pop()
        out_i[0] = 1         # 'fmt 0'
        if fam in ("copy", "clear", "add", "text", "layout", "conflict"):
            types = [r.choice(scalar_types) for _ in range(r.randrange(2, 6))]
        elif fam in ("copy_string", "string_empty", "text_string"):
            types = ["STRING"] + [r.choice(scalar_types) for _ in range(r.randrange(0, 3))]
        else:
            # every container type in turn (the copy/assign/clear code treats them through one type switch)
            types = [["VECTOR_DOUBLE", "VECTOR_INT", "VECTOR_POINT", "VECTOR_TENSOR"][(k // 11) % 4]] + [r.choice(scalar_types) for _ in range(r.randrange(0, 3))]
        pers = [r.random() < 0.4 for _ in types]
        if fam == "layout":
            types = [r.choice(list(SIZES)) for _ in range(r.randrange(3, 9))]
            pers = [False] * len(types)
        for i, t in enumerate(types):
            emit("fadd 0 a%d %s %d -" % (i, t, 1 if pers[i] else 0))
        if fam == "layout":
            i = emit("layout 0")
            checks.append((i, ("layout", types), "layout", "attributes overlap or are misaligned"))
            cases.append((cid, L, checks))
            continue
        if fam == "conflict":
            j = r.randrange(len(types))
            other = r.choice([t for t in scalar_types + ["STRING"] if t != types[j]])
            # through the format (fadd) or through a record of that format (dadd: Data::addAttribute, the path modules use)
            via = "fadd" if (k // 11) % 2 == 0 else "dadd"
            if via == "dadd":
                emit("new 0")
            i = emit("%s 0 a%d %s 0 -" % (via, j, other))
            checks.append((i, "err:typemismatch", "type-conflict-accepted", "asking for an existing name with another type is not an error (%s)" % ("DataFormat::addAttribute" if via == "fadd" else "Data::addAttribute")))
            i = emit("%s 0 a%d %s %d -" % (via, j, types[j], 1 if pers[j] else 0))
            checks.append((i, ("prefix", "attr a%d %d " % (j, j)), "add-not-idempotent", "asking again for an existing name does not return the same attribute"))
            cases.append((cid, L, checks))
            continue
        emit("new 0")
        vals = []
        for i, t in enumerate(types):
            if t.startswith("VECTOR"):
                et = {"VECTOR_DOUBLE": "DOUBLE", "VECTOR_INT": "INT", "VECTOR_POINT": "POINT", "VECTOR_TENSOR": "TENSOR"}[t]
                elems = [val_tok(et, r) for _ in range(r.randrange(1, 4))]
                for e in elems:
                    emit("push 0 %d %s" % (i, e))
                vals.append("vec:{" + ";".join(elems) + "}")
            elif fam == "string_empty" and t == "STRING":
                vals.append("str:[]")
            else:
                v = val_tok(t, r)
                emit("set 0 %d %s" % (i, v))
                vals.append(v)
        if fam == "text_string":
            # a set STRING attribute is overwritten from text and must then hold exactly that text; the others keep their values
            txt = "".join(r.choice("abcxyz_0123") for _ in range(r.randrange(1, 20)))
            emit("fromstr 0 0 [%s]" % txt)
            i = emit("dump 0")
            checks.append((i, "dump " + " ; ".join(["str:[%s]" % txt] + vals[1:]), "string-from-text", "reading a STRING attribute from text does not store the text / damages the record"))
        elif fam == "string_empty":
            # text round trip of a never-set (empty) string
            i = emit("tostr 0 0")
            checks.append((i, "str []", "string-empty-tostr", "unset string does not print as empty"))
            emit("fromstr 0 0 []")
            i = emit("get 0 0")
            checks.append((i, "val str:[]", "unset-string-assign", "reading back the text of an empty STRING attribute crashes / does not restore it"))
        elif fam.startswith("copy"):
            mode = r.choice(["copy", "assign"])
            if mode == "copy":
                emit("copy 0")
            else:
                emit("new 0")
                emit("assign 1 0")
            i = emit("dump 1")
            checks.append((i, "dump " + " ; ".join(vals), "copy-not-equal", "the copy does not hold the values of the source"))
            # now change the ORIGINAL; the copy must keep its values
            j = 0
            t = types[0]
            if t.startswith("VECTOR"):
                emit("push 0 0 %s" % {"VECTOR_DOUBLE": "dbl:99", "VECTOR_INT": "int:99", "VECTOR_POINT": "pt:99,0,1", "VECTOR_TENSOR": "tens:99,0,0,0,1,0,0,0,1"}[t])
            else:
                nv = val_tok(t, r) if t != "STRING" else "str:[a_much_longer_string_than_before_to_force_reallocation_0123456789]"
                emit("set 0 0 %s" % nv)
            i = emit("dump 1")
            sig = {"copy": "copy-aliases", "copy_string": "string-copy-alias", "copy_container": "container-copy-alias"}[fam]
            checks.append((i, "dump " + " ; ".join(vals), sig, "changing the source after a %s changes the copy (no independent deep copy)" % mode))
        elif fam.startswith("clear"):
            emit("clear 0")
            i = emit("dump 0")
            exp = [vals[k] if pers[k] else zero_of(types[k]) for k in range(len(types))]
            sig = "clear-frees-container" if fam == "clear_container" else "clear-wrong"
            checks.append((i, "dump " + " ; ".join(exp), sig, "clear does not zero exactly the non-persistent attributes (a non-persistent container must become empty)"))
        elif fam == "add":
            t = r.choice(scalar_types)
            emit("dadd 0 fresh %s 0 -" % t)
            i = emit("dump 0")
            checks.append((i, "dump " + " ; ".join(vals + [zero_of(t)]), "add-changes-values", "adding an attribute changes existing values or the new one is not zero"))
        elif fam == "text":
            for k2, t in enumerate(types):
                # values the file format can carry exactly: at most 6 significant digits
                if t == "INT":
                    v = "int:%d" % r.randrange(-99999, 99999)
                elif t == "DOUBLE":
                    v = "dbl:" + r.choice(["2000000", "-1/8", "123456", "5/4", "-2500000000", "1/16", "0", "-123456/1000"])
                elif t == "POINT":
                    v = "pt:" + ",".join(r.choice(["2000000", "-1/8", "3", "5/4"]) for _ in range(3))
                else:
                    v = "tens:" + ",".join(r.choice(["2000000", "-1/8", "3", "5/4", "0"]) for _ in range(9))
                emit("set 0 %d %s" % (k2, v))
                emit("tostr 0 %d" % k2)
                vals[k2] = v
            cases.append((cid, L, checks, ("text", types, vals)))
            continue
        cases.append((cid, L, checks))
    # run
    lines = []
    for c in cases:
        lines += c[1]
    outs = run_harness(binp, lines)
    findings = []
    for c in cases:
        cid, L, checks = c[0], c[1], c[2]
        o = outs.get(cid, [])
        if len(c) > 3 and c[3][0] == "text":
            # second pass: feed the printed text back
            _, types, vals = c[3]
            strs = [l for l in o if l.startswith("str ")]
            if len(strs) != len(types):
                findings.append(dict(signature="text-print-failed", what="toString failed for a supported type", ops=L, observed=o[-3:], expected="one text per attribute"))
                continue
            L2 = ["case %s.b align 3" % cid, "fmt"] + [l for l in L[2:] if l.startswith("fadd")] + ["new 0"]
            for k2, s in enumerate(strs):
                L2.append("fromstr 0 %d %s" % (k2, s[4:]))
            L2.append("dump 0")
            o2 = run_harness(binp, L2).get(cid + ".b", [])
            exp = "dump " + " ; ".join(vals)
            got = o2[-1] if o2 else None
            if got is None or " ; ".join(norm_val(x) for x in got[5:].split(" ; ")) != " ; ".join(norm_val(x) for x in exp[5:].split(" ; ")):
                findings.append(dict(signature="text-roundtrip", what="writing attributes to text and reading them back does not restore them", ops=L + ["--- second record ---"] + L2, observed=got, expected=exp))
            continue
        for (i, exp, sig, what) in checks:
            got = o[i] if i < len(o) else (o[-1] if o and o[-1] == "crash" else None)
            ok = False
            if isinstance(exp, tuple) and exp[0] == "layout":
                ok = got is not None and layout_ok(got, exp[1])
            elif isinstance(exp, tuple) and exp[0] == "prefix":
                ok = got is not None and got.startswith(exp[1])
            elif got is not None and got.startswith("dump ") and exp.startswith("dump "):
                ok = [norm_val(x) for x in got[5:].split(" ; ")] == [norm_val(x) for x in exp[5:].split(" ; ")]
            else:
                ok = got == exp
            if not ok:
                findings.append(dict(signature=sig, what=what, ops=L, observed=got, expected=exp if not isinstance(exp, tuple) else str(exp)))
                break
    return len(cases), findings


def layout_ok(line, types):
    # layout size=228 rows=9 | name idx off TYPE pers npers sym | ...
    try:
        head, *items = line.split(" | ")
        size = int(re.search(r"size=(\d+)", head).group(1))
        spans = []
        for it in items:
            w = it.split()
            off, t = int(w[2]), w[3]
            need = ALIGN.get(t, 8)
            if off % need != 0:
                return False
            spans.append((off, off + SIZES[t]))
        spans.sort()
        for a, b in zip(spans, spans[1:]):
            if a[1] > b[0]:
                return False
        return not spans or spans[-1][1] <= size
    except Exception:
        return False


def run(ctx):
    r = common.rng(ctx.seed, "c14")
    ok, out = common.ensure_build("hooks", targets=("sympler",))
    ctx.oblige("hooked build of /repo", ok, out[-300:])
    try:
        gen = t_dataformat.generate(common.REPO, common.WORK)
        common.write_if_changed(os.path.join(common.LEAN, "Sympler/Gen/DataFormatGen.lean"), gen)
        ctx.oblige("translator t_dataformat (enum, sizes/alignments by compiled probe, alignment rule, container and case tables)", True)
    except Exception as ex:
        ctx.oblige("translator t_dataformat (enum, sizes/alignments by compiled probe, alignment rule, container and case tables)", False, repr(ex))
    lean_ok = common.lean_obligations(ctx, ["Sympler.DataFormatDriver", "Props.C14", "symdrv"], ["Props.C14"], THEOREMS, MODULES)
    okh, o, binp = common.build_harness("h_dataformat", ["-fsanitize=address,undefined", "-fno-sanitize-recover=all"])
    ctx.oblige("harness h_dataformat builds (ASan/UBSan)", okh, o[-300:])
    ncases, maxlen = (400, 40) if not ctx.thorough else (6000, 60)
    rep = None
    disagreements = []
    if okh and os.path.exists(common.symdrv()):
        cases = os.path.join(common.WORK, "c14_cases_%d.txt" % os.getpid())
        rc, gout = common.sh("python3 %s %d %d %d > %s 2> %s.hist" % (os.path.join(common.VERIF, "sim/gen_dataformat.py"), ctx.seed, ncases, maxlen, cases, cases), timeout=600)
        jpath = cases + ".json"
        rc, dout = common.sh(["python3", os.path.join(common.VERIF, "sim/diff_dataformat.py"), cases, "--symdrv", common.symdrv(), "--harness", binp, "--json", jpath, "--show", "3"],
                             cwd=common.WORK, timeout=1800)
        try:
            rep = json.load(open(jpath))
        except Exception:
            rep = None
        if rc != 0 or rep is None:
            disagreements = [l for l in dout.splitlines() if l.startswith("DISAGREE") or l.startswith("  line") or l.startswith("         harness") or l.startswith("  after")][:9] or [dout[-400:]]
        try:
            hist = json.load(open(cases + ".hist"))
        except Exception:
            hist = {}
        for f in (cases, jpath, cases + ".hist"):
            try:
                os.remove(f)
            except OSError:
                pass
    ctx.oblige("correspondence dataformat: Lean driver = real DataFormat/Data on %s op sequences" % (rep["cases"] if rep else "?"),
               rep is not None and rep.get("disagreements", 1) == 0, "\n".join(disagreements)[:600])
    # property-level oracle on the real classes (always run: it also reports the known findings)
    nor, findings = (0, [])
    if okh:
        nor, findings = oracle_families(r, binp, 60 if not ctx.thorough else 600)
    ctx.coverage.update(dict(evaluations=(rep["cases"] if rep else 0) + nor, distinct_nontrivial=(rep["cases"] if rep else 0),
                             rule="random structured op sequences (layout / records / text / growth families of sim/gen_dataformat.py: add, set, copy, assign, clear, realloc, protect, text round trips over all 10 attribute types, plus a malformed stream) compared line by line; plus %d property-oracle sequences; non-trivial = every generated case (each has at least one add and one read); distinct = distinct case ids of one PRNG stream" % nor,
                             samples=[dict(model_outcomes=rep["model_outcomes"] if rep else None, lines_compared=rep["lines_compared"] if rep else 0)],
                             oracle_sequences=nor, oracle_findings=[f["signature"] for f in findings], traces_validated_against_impl=rep["cases"] if rep else 0))
    ctx.assumptions += ["libc %g / atof / atoi on the <= 6 significant digit domain (hypothesis NumCodec.Good of C14_text_roundtrip; validated against libc by the correspondence)",
                        "DataFormat::alignDataFor(DATA_ALIGNMENT) has been called (main does); without it INT followed by DOUBLE is misaligned (witness theorem)"]
    # every finding of the oracle is a violation of the property on the real code; known ones are matched by signature in Ctx.finish
    seen = set()
    for f in findings:
        if f["signature"] in seen:
            continue
        seen.add(f["signature"])
        ctx.violation("C14 violated on the real classes: " + f["what"], dict(kind="op-sequence", how_to_replay=".work/bin/h_dataformat --noguard < ops", **f), True,
                      signature=f["signature"])
    if not all(o[1] for o in ctx.obligations) and not findings:
        failing = [o[0] for o in ctx.obligations if not o[1]]
        ctx.violation("C14 is no longer shown to hold: " + "; ".join(failing[:3]),
                      dict(kind="proof-or-correspondence", failing_obligations=failing, lake_errors=getattr(ctx, "lake_errors", []), first_differences=disagreements[:9]), False)
    elif not all(o[1] for o in ctx.obligations) and all(f["signature"] in KNOWN for f in findings):
        failing = [o[0] for o in ctx.obligations if not o[1]]
        ctx.violation("C14 is no longer shown to hold: " + "; ".join(failing[:3]),
                      dict(kind="proof-or-correspondence", failing_obligations=failing, lake_errors=getattr(ctx, "lake_errors", []), first_differences=disagreements[:9]), False)


KNOWN = {f.get("signature") for f in common.known_findings().get("open", []) if f.get("property") == "C14"}
