"""C16 — built-in kernels are normalised and consistent with their gradient weight.

proof:  PropsR/C16.lean — for all rc > 0: non-negativity, zero at the cutoff, ∫ 4π r² W = 1, self value, weight = -W'/r
        about the definitions in PropsR/Gen/KernelsReal.lean
tie:    T  translate/t_kernels.py regenerates those definitions from wf_{lucy,square,linear}.{h,cpp} on every run
        (symbolic execution of setup/interpolate/weight); validated by sampled differential evaluation of the generated
        terms (Float carrier, symdrv) against the real functions (harness/h_kernels.cpp)
search: numerical oracle on the REAL functions: quadrature of 4π r² W, sign, value at rc, central differences
"""
import math
import os
import struct
import common
import t_kernels

KERNELS = ["Lucy", "Square", "Linear"]
THEOREMS = []
for K in KERNELS:
    THEOREMS += ["Sympler.PropsR.C16.C16_%s_%s" % (K, t) for t in ("nonneg", "zero_at_cutoff", "normalised", "self")]
THEOREMS += ["Sympler.PropsR.C16.C16_Lucy_weight", "Sympler.PropsR.C16.C16_Lucy_weight_self", "Sympler.PropsR.C16.C16_Square_weight"]
MODULES = ["PropsR.C16", "PropsR.Gen.KernelsReal"]
EXPECTED_DEFS = {"Lucy_factor_i", "Lucy_factor_w", "Lucy_interpolate_self", "Lucy_interpolate", "Lucy_weight_self", "Lucy_weight",
                 "Square_factor", "Square_interpolate_self", "Square_interpolate", "Square_weight",
                 "Linear_factor", "Linear_interpolate_self", "Linear_interpolate"}


def bits2f(s):
    return struct.unpack("<d", struct.pack("<Q", int(s)))[0]


def dec(x):
    return ("%.6f" % x).rstrip("0").rstrip(".") if "." in ("%.6f" % x) else "%.6f" % x


def impl_eval(binp, reqs):
    rc, out = common.sh([binp], input="".join("eval %s %s %s\n" % r for r in reqs), timeout=300)
    vals = []
    for l in out.splitlines():
        l = l.strip()
        if l in ("throws", "err:name", "err:parse"):
            vals.append(l)
        elif l.isdigit():
            vals.append(bits2f(l))
    return vals


def oracle(binp, r, n_rc=6):
    """numerical check of the property on the real functions; returns a failing case dict or None.
    ALL kernel objects of all cutoffs live in ONE process, in a shuffled order (as several weighting functions of one input
    file do), so state shared between kernel objects shows."""
    rcs = [0.5, 1.0, 1.5, 2.0, 3.25] + [round(r.uniform(0.3, 5.0), 3) for _ in range(n_rc)]
    N = 2000
    combos = [(K, rc) for K in KERNELS for rc in rcs]
    r.shuffle(combos)
    reqs, index = [], {}
    for K, rc in combos:
        xs = [rc * i / N for i in range(N + 1)]
        pts = [rc * t for t in (0.1, 0.3, 0.5, 0.7, 0.9)]
        e = 1e-5 * rc
        block = [("%s_interpolate" % K, repr(rc), repr(x)) for x in xs] + [("%s_interpolate_self" % K, repr(rc), "0")]
        block += [("%s_weight" % K, repr(rc), repr(x)) for x in pts]
        for x in pts:
            block += [("%s_interpolate" % K, repr(rc), repr(x + e)), ("%s_interpolate" % K, repr(rc), repr(x - e))]
        index[(K, rc)] = (len(reqs), xs, pts, e)
        reqs += block
    allv = impl_eval(binp, reqs)
    order = ["%s rc=%s" % c for c in combos]
    if len(allv) != len(reqs):
        return dict(kernel="?", cutoff=0, problem="the kernel harness did not answer every request (%d of %d)" % (len(allv), len(reqs)))
    for K, rc in combos:
        o, xs, pts, e = index[(K, rc)]
        vals = allv[o:o + N + 1]
        ctxd = dict(kernel=K, cutoff=rc, first_object_of_this_kernel_in_this_process=next(c for c in order if c.startswith(K + " ")),
                    kernel_objects_created_before_in_this_process=order[:order.index("%s rc=%s" % (K, rc))][-6:])
        if any(isinstance(v, str) for v in vals):
            return dict(ctxd, problem="interpolate could not be evaluated on the support", values=vals[:3])
        if min(vals) < -1e-12 * max(1.0, max(vals)):
            i = vals.index(min(vals))
            return dict(ctxd, r=xs[i], problem="negative kernel value", value=vals[i])
        if abs(vals[-1]) > 1e-9 * max(vals):
            return dict(ctxd, r=rc, problem="kernel does not vanish at the cutoff", value=vals[-1])
        # composite Simpson of 4 pi r^2 W
        f = [4 * math.pi * x * x * v for x, v in zip(xs, vals)]
        h = rc / N
        integral = h / 3 * (f[0] + f[-1] + 4 * sum(f[1:-1:2]) + 2 * sum(f[2:-1:2]))
        if abs(integral - 1) > 1e-6:
            return dict(ctxd, problem="kernel is not normalised: integral of 4 pi r^2 W over [0,rc]", value=integral)
        selfv = allv[o + N + 1]
        if isinstance(selfv, str) or abs(selfv - vals[0]) > 1e-12 * abs(vals[0]):
            return dict(ctxd, problem="self contribution differs from W(0)", value=selfv, w0=vals[0])
        # gradient weight where provided
        w = allv[o + N + 2:o + N + 2 + len(pts)]
        if any(isinstance(v, str) for v in w):
            continue          # no gradient weight provided (throws)
        fd = allv[o + N + 2 + len(pts):o + N + 2 + 3 * len(pts)]
        for k, (x, wv) in enumerate(zip(pts, w)):
            a, b = fd[2 * k], fd[2 * k + 1]
            d = (a - b) / (2 * e)
            if abs(-d / x - wv) > 1e-5 * max(abs(wv), 1e-9):
                return dict(ctxd, r=x, problem="weight differs from -W'(r)/r", weight=wv, minus_dW_over_r=-d / x)
    return None


def run(ctx):
    r = common.rng(ctx.seed, "c16")
    ok, out = common.ensure_build("hooks", targets=("sympler",))
    ctx.oblige("hooked build of /repo", ok, out[-300:])
    gen_ok = True
    try:
        real = t_kernels.generate_real(common.REPO)
        flt = t_kernels.generate_float(common.REPO)
        common.write_if_changed(os.path.join(common.LEAN, "PropsR/Gen/KernelsReal.lean"), real)
        common.write_if_changed(os.path.join(common.LEAN, "Sympler/Gen/KernelsFloat.lean"), flt)
        import re
        defs = set(re.findall(r"^def (\w+)", real, flags=re.M))
        ctx.oblige("translator t_kernels (symbolic execution of setup/interpolate/weight)", True)
        ctx.oblige("generated definitions are exactly the expected set (a kernel function that now throws / no longer throws changes it)",
                   defs == EXPECTED_DEFS, "missing %s extra %s" % (sorted(EXPECTED_DEFS - defs), sorted(defs - EXPECTED_DEFS)))
    except Exception as ex:
        gen_ok = False
        ctx.oblige("translator t_kernels (symbolic execution of setup/interpolate/weight)", False, repr(ex))
    lean_ok = common.lean_obligations(ctx, ["PropsR.C16", "symdrv"], ["PropsR.C16"], THEOREMS, MODULES)
    okh, o, binp = common.build_harness("h_kernels")
    ctx.oblige("harness h_kernels builds", okh, o[-300:])
    # translator validation (sampled differential evaluation)
    n = 60 if not ctx.thorough else 600
    reqs = []
    names = sorted(EXPECTED_DEFS)
    for _ in range(n):
        rc = round(r.choice([r.uniform(0.2, 1), r.uniform(1, 4), r.uniform(4, 30)]), 4)
        x = round(rc * r.choice([0.0, 1.0, r.random(), r.random(), 1e-3, 0.999]), 6)
        if x == 0:
            x = 0.0
        for nm in names:
            reqs.append((nm, dec(rc), dec(x)))
    mism = []
    samples = []
    if okh and gen_ok and os.path.exists(common.symdrv()):
        impl = impl_eval(binp, reqs)
        # the model gets the bit patterns of the doubles the real functions get (strtod of the same decimal text)
        def fb(t):
            return struct.unpack("<Q", struct.pack("<d", float(t)))[0]
        model = common.run_model("kernels", ["evalb %s %d %d" % (q[0], fb(q[1]), fb(q[2])) for q in reqs])
        for q, a, b in zip(reqs, model, impl):
            mv = bits2f(a) if a.isdigit() else a
            if isinstance(b, str) or isinstance(mv, str):
                if q[0] == "Square_weight" and float(q[2]) == 0 and b == "throws":
                    continue       # documented guard d == 0
                mism.append((q, mv, b))
                continue
            if mv != mv and b != b:
                continue
            if abs(mv - b) > 1e-13 * max(abs(b), 1e-300):
                mism.append((q, mv, b))
            elif len(samples) < 4:
                samples.append({"request": "eval %s rc=%s r=%s" % q, "generated_term": mv, "real_function": b})
        # functions for which no definition is generated must throw in the real code
        for nm in ("Square_weight_self", "Linear_weight", "Linear_weight_self"):
            v = impl_eval(binp, [(nm, "1.5", "0.5")])
            if v != ["throws"]:
                mism.append(((nm, "1.5", "0.5"), "no definition generated", v))
    ctx.oblige("translation validation: generated kernel terms = real functions on %d sampled evaluations (rel 1e-13)" % len(reqs),
               okh and gen_ok and not mism, str(mism[:3]))
    # numerical oracle on the REAL functions, all kernel objects in one process (always run: independent of the translator)
    found = oracle(binp, r, 6 if not ctx.thorough else 40) if okh else dict(kernel="?", problem="harness missing")
    ctx.oblige("numerical oracle on the real functions (all kernels, %d cutoffs, objects created in one process in shuffled order): sign, W(rc)=0, quadrature of 4 pi r^2 W = 1, self value, weight = -W'/r by central differences"
               % (11 if not ctx.thorough else 45), found is None, str(found)[:400])
    ctx.coverage.update(dict(evaluations=len(reqs), distinct_nontrivial=len(set(reqs)),
                             rule="(definition, cutoff, r) triples with cutoffs in [0.2,30] and r in {0, rc, 0.001 rc, 0.999 rc, uniform}; all are non-trivial (each evaluates one generated definition against the real member function)",
                             samples=samples, programs=len(EXPECTED_DEFS), disagreements_checked=len(mism)))
    ctx.assumptions += ["r->abs() is the Euclidean norm of the pair distance (Pairdist), M_PI = π", "double arithmetic approximates the real-number model; the theorems are about the real-number functions"]
    if not all(o[1] for o in ctx.obligations):
        failing = [o[0] for o in ctx.obligations if not o[1]]
        if found and found.get("kernel") != "?":
            ctx.violation("kernel %s violates C16: %s" % (found["kernel"], found["problem"]),
                          dict(kind="kernel-evaluation", failing_obligations=failing, **found,
                               how_to_replay="printf 'eval <K>_interpolate <rc> <r>\\n' | .work/bin/h_kernels (bit patterns of doubles)"), True)
        else:
            ctx.violation("C16 is no longer shown to hold: " + "; ".join(failing[:3]),
                          dict(kind="proof-or-translation", failing_obligations=failing, lake_errors=getattr(ctx, "lake_errors", []), mismatches=[str(m) for m in mism[:5]]), False)
