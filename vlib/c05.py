"""C05 — time integration advances every degree of freedom by exactly one correct step.

proof:  Props/C05.lean: C05_force_fresh(_init/_run) (after every step force[idx] = sum of all registered forces on the updated state,
        nothing survives), C05_vv_textbook, C05_lambda_independent, C05_vv_reversible, C05_vv_const_accel, C05_const_forces,
        C05_euler_const_rate about Sympler/Dyn.lean; integrator kernels and the order of Controller::integrate regenerated
        from the source and proved equal to the model's (bridge theorems)
tie:    T (translate/t_dyn.py) and C: sim/corr_dyn.py: r, v, force buffers, force index, integrated quantities after every step
search: analytic constant-force solution, lambda-independence and time reversal on the real runs
PARTIAL: 'second order in dt' is the classical theorem about the textbook map; C05_vv_textbook reduces the code to that map.
"""
import dyncheck

THEOREMS = [dyncheck.P + t for t in ["C05_force_fresh", "C05_force_fresh_init", "C05_force_fresh_run", "C05_vv_textbook", "C05_lambda_independent",
                                     "C05_vv_reversible", "C05_vv_const_accel", "C05_const_forces", "C05_euler_const_rate"]]


def run(ctx):
    import dyngen
    dyncheck.check(ctx, "C05", THEOREMS + dyngen.THEOREMS_C05, "Props.C05", pre=dyngen.translate, extra_modules=dyngen.EXTRA)
    ctx.assumptions += ["exact-arithmetic regime; beyond the exact horizon states are compared to 1e-9 and never counted as disagreement",
                        "walls/reflectors are not part of this model (C08); scenarios with reflector hits are skipped",
                        "PARTIAL: the order of convergence is not proved in Lean (reduction to the textbook velocity-Verlet map is)"]
