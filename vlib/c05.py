"""C05 — time integration advances every degree of freedom by exactly one correct step.

proof:  Props/C05.lean: C05_force_fresh(_init/_run) (after every step force[idx] = sum of all registered forces on the updated state,
        nothing survives), C05_vv_textbook, C05_lambda_independent, C05_vv_reversible, C05_vv_const_accel, C05_const_forces,
        C05_euler_const_rate about Sympler/Dyn.lean; integrator kernels and the order of Controller::integrate regenerated
        from the source and proved equal to the model's (bridge theorems)
tie:    T (translate/t_dyn.py) and C: sim/corr_dyn.py: r, v, force buffers, force index, integrated quantities after every step
search: analytic constant-force solution, lambda-independence and time reversal on the real runs
PARTIAL: 'second order in dt' is the classical theorem about the textbook map; C05_vv_textbook reduces the code to that map.
"""
import dyncheck

THEOREMS = [dyncheck.P + t for t in ["C05_force_fresh", "C05_force_fresh_init", "C05_force_fresh_run", "C05_vv_textbook", "C05_lambda_independent",
                                     "C05_vv_reversible", "C05_vv_const_accel", "C05_const_forces", "C05_euler_const_rate"]]


def lambda_scalar_oracle(ctx):
    """implementation-side oracle for the predictor-corrector integrator of user scalars (IntegratorScalarLambda; not part of the Lean
    model): a constant rate c must give q(t_n) = q0 + n dt c exactly, for every lambda and step count (dyadic data => exact)."""
    import os, shutil
    from fractions import Fraction as F
    import common, symlib
    r = common.rng(ctx.seed, "c05-lambda")
    bad, n = [], 0
    base = os.path.join(common.WORK, "c05l-%d" % os.getpid())
    for case in range(10 if not ctx.thorough else 120):
        lam = r.choice(["1/4", "1/2", "3/4", "1", "1/8", "5/8"])
        c = F(r.choice([3, 1, -2, 5]), r.choice([1, 2, 4]))
        dt = F(1, r.choice([4, 8, 16]))
        steps = r.randrange(1, 8)
        parts = []
        for k in range(r.randrange(1, 6)):
            parts.append({"species": "A", "frozen": False, "r": [symlib.rat(F(r.randrange(1, 31), 8)) for _ in range(3)], "v": ["0", "0", "0"],
                          "tags": {"q": symlib.rat(F(r.randrange(-8, 8), 4))}})
        sc = {"box": ["4", "4", "4"], "periodic": [True, True, True], "controller": {"dt": symlib.rat(dt), "timesteps": steps},
              "integrators": [["IntegratorVelocityVerlet", {"species": "A", "lambda": "1/2", "mass": "1"}],
                              ["IntegratorScalarLambda", {"species": "A", "scalar": "q", "symbol": "q", "lambda": lam}]],
              "modules": [["FParticleScalar", {"species": "A", "scalar": "q", "expression": symlib.rat(c) if c.denominator == 1 else "(%d/%d)" % (c.numerator, c.denominator)}],
                          ["FPairVels", {"species1": "A", "species2": "A", "cutoff": "1", "pairFactor": "0*[rij]"}]],
              "particles": parts, "species_order": ["A"], "tag_columns": {"A": ["q"]}}
        d = os.path.join(base, "c%d" % case)
        shutil.rmtree(d, ignore_errors=True)
        symlib.write_case(d, sc)
        rc, out = symlib.run_sympler(d, common.sympler(), timeout=120)
        if rc != 0:
            bad.append(dict(scenario=sc, detail="sympler failed: " + out[-200:]))
            continue
        st = symlib.parse_obs(os.path.join(d, "obs.txt"))
        n += 1
        q0 = {p["slot"]: F(p0["tags"]["q"]) for p, p0 in zip(st[0]["particles"], parts)}
        for s_ in st:
            k = s_["step"] + 1
            for p in s_["particles"]:
                got = p["tag"]["q"][2]
                want = q0[p["slot"]] + k * dt * c
                if got != want:
                    bad.append(dict(scenario=sc, detail="lambda=%s: scalar q of particle %d after %d steps is %s, the constant rate %s gives %s" % (lam, p["slot"], k, got, c, want)))
                    break
            if bad and bad[-1]["scenario"] is sc:
                break
    shutil.rmtree(base, ignore_errors=True)
    return n, bad


def run(ctx):
    import dyngen
    dyncheck.check(ctx, "C05", THEOREMS + dyngen.THEOREMS_C05, "Props.C05", pre=dyngen.translate, extra_modules=dyngen.EXTRA)
    n, bad = lambda_scalar_oracle(ctx)
    ok = ctx.oblige("oracle: IntegratorScalarLambda reproduces a constant rate exactly for every lambda and step count (%d scenarios; not part of the Lean model)" % n, n > 0 and not bad,
                    str([b["detail"] for b in bad[:2]])[:400])
    if not ok and bad:
        b = bad[0]
        ctx.violations = [v for v in ctx.violations if v["found_input"]]     # a concrete failing input replaces "no-failing-input-found"
        ctx.violation("C05 violated on the real binary: " + b["detail"][:300],
                      dict(kind="input", scenario=b["scenario"], detail=b["detail"], how_to_replay="symlib.write_case(dir, scenario); sympler in.xml; attribute q in obs.txt"), True)
    ctx.assumptions += ["exact-arithmetic regime; beyond the exact horizon states are compared to 1e-9 and never counted as disagreement",
                        "walls/reflectors are not part of this model (C08); scenarios with reflector hits are skipped",
                        "PARTIAL: the order of convergence is not proved in Lean (reduction to the textbook velocity-Verlet map is)"]
