"""C04 — pair forces are reciprocal: momentum conserved, only free particles are pushed, only inside the own cutoff.

proof:  Props/C04.lean: C04_reciprocal(_op) (contribution to the second partner = symmetry * ..., = minus the first under the symmetry
        premise), C04_free_only (acts-on flags = free flags: nothing accumulated on a frozen particle), C04_own_cutoff(_exact),
        C04_momentum (sum of forces zero, total momentum invariant under `step` for every step count) about Sympler/Dyn.lean;
        pair-module table regenerated from the source: every write guarded by actsOnFirst/actsOnSecond and the own cutoff
tie:    T (translate/t_dyn.py) and C: sim/corr_dyn.py: both force buffers of every particle after every step = Lean model `dyn`
search: momentum oracle (fully periodic, all free, reciprocal forces: sum m v identical after every step), frozen-force oracle
"""
import dyncheck

THEOREMS = [dyncheck.P + t for t in ["C04_reciprocal", "C04_reciprocal_op", "C04_free_only", "C04_own_cutoff", "C04_own_cutoff_exact", "C04_momentum"]]


def run(ctx):
    import dyngen
    dyncheck.check(ctx, "C04", THEOREMS + dyngen.THEOREMS_C04, "Props.C04", pre=dyngen.translate, extra_modules=dyngen.EXTRA)
    ctx.assumptions += ["exact-arithmetic regime (dyadic inputs, polynomial pair factors): 'up to rounding' sharpens to equality",
                        "user-chosen asymmetric particle factors are outside C04; wall-corrected kernels not covered",
                        "DPD/LJ and thermostat kernels are covered by the regenerated guard table only, not by scenarios"]
