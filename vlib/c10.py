"""C10 — frozen particles never change.

proof:  Props/C10.lean: C10_frozen_fixed (position, velocity, colour, flag and every tag attribute of every frozen particle unchanged by
        `step`, for every module list of the modelled kinds), C10_frozen_count, C10_felt (frozen partners do contribute to free
        particles) about Sympler/Dyn.lean; the premise about modules is the regenerated guard table (every write to a partner is
        under its acts-on flag) and the particle-loop table (free-particle loops only)
tie:    T (translate/t_dyn.py) and C: sim/corr_dyn.py: every field of every frozen particle after every step
search: snapshot of every frozen particle at the start compared bit for bit after every step; count
"""
import dyncheck

THEOREMS = [dyncheck.P + t for t in ["C10_frozen_fixed", "C10_frozen_count", "C10_felt"]]


def run(ctx):
    import dyngen
    dyncheck.check(ctx, "C10", THEOREMS + dyngen.THEOREMS_C10, "Props.C10", pre=dyngen.translate, extra_modules=dyngen.EXTRA)
    ctx.assumptions += ["force accumulators are scratch storage, not part of the property's state; ConnectBasic adds to the accumulator of both bond partners unguarded (recorded in DESIGN.md)",
                        "module kinds not instantiated by scenarios are covered by the regenerated tables only"]
