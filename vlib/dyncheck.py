"""Shared by C04, C05, C07, C10: Lean obligations over Sympler/Dyn.lean, the `dyn` correspondence (sim/corr_dyn.py) in parallel
worker processes, attribution of disagreements / oracle violations to properties."""
import json
import os
import shutil
import subprocess
import sys
from concurrent.futures import ThreadPoolExecutor
import common

MODULES = ["Sympler.Dyn", "Sympler.DynDriver", "Sympler.DynLemmas"]
P = "Sympler.Dyn."

# which oracle of corr_dyn.py speaks for which property
ORACLES = {"C04": ["momentum"], "C05": ["constforce", "lambda", "reverse"], "C07": ["pairsum"], "C10": ["frozen"]}
# which kind of first differing field (corr_dyn.classify_field) un-ties which property's theorems from the code
FIELDS = {"C04": ["force"], "C05": ["position", "velocity", "integrated", "force", "structure"], "C07": ["pairsum", "structure"], "C10": []}


def run_corr(ctx, ncases, tag, workers=8):
    base = os.path.join(common.WORK, "%s-%d" % (tag, os.getpid()))
    shutil.rmtree(base, ignore_errors=True)
    os.makedirs(base, exist_ok=True)
    per = max(1, (ncases + workers - 1) // workers)
    env = dict(os.environ, SYMDRV=common.symdrv())

    def one(k):
        keep = os.path.join(base, "w%d" % k)
        p = subprocess.run([sys.executable, os.path.join(common.VERIF, "sim", "corr_dyn.py"), str(ctx.seed * 1000 + k), str(per), "--keep", keep,
                            "--sympler", common.sympler()], stdout=subprocess.PIPE, stderr=subprocess.PIPE, text=True, env=env, timeout=14400)
        try:
            return json.loads(p.stdout)
        except Exception:
            return {"error": (p.stdout[-300:] + p.stderr[-300:])}
    with ThreadPoolExecutor(max_workers=workers) as ex:
        parts = list(ex.map(one, range(workers)))
    summ = dict(cases=0, compared_steps=0, exact_steps=0, approx_steps=0, disagreements=[], violations=[], oracles={}, errors=[])
    hist = {}
    for k, s in enumerate(parts):
        if "error" in s:
            summ["errors"].append(s["error"])
            continue
        for key in ("cases", "compared_steps", "exact_steps", "approx_steps"):
            summ[key] += s.get(key, 0)
        for d in s["disagreements"]:
            d["worker_seed"] = ctx.seed * 1000 + k
            summ["disagreements"].append(d)
        for v in s["violations"]:
            v["worker_seed"] = ctx.seed * 1000 + k
            summ["violations"].append(v)
        summ.setdefault("transient_not_reproduced", [])
        summ["transient_not_reproduced"] += s.get("transient_not_reproduced", [])
        if len(summ.setdefault("samples", [])) < 2:
            summ["samples"] += s.get("samples", [])[:1]
        for name, o in s.get("oracles", {}).items():
            t = summ["oracles"].setdefault(name, dict(applied=0, violated=0))
            t["applied"] += o["applied"]
            t["violated"] += o["violated"]
        for key in ("modules", "lambdas", "frozen_counts", "flavours", "species_counts", "skipped"):
            h = hist.setdefault(key, {})
            for a, b in s.get(key, {}).items():
                h[str(a)] = h.get(str(a), 0) + b
        for key in ("swapped_force_species", "list_gt_force_cutoff"):
            hist[key] = hist.get(key, 0) + s.get(key, 0)
    summ["histogram"] = hist
    return summ, base


def check(ctx, pid, theorems, props_module, nquick=144, nthorough=2400, extra_modules=(), pre=None):
    ok, out = common.ensure_build("hooks", targets=("sympler",))
    ctx.oblige("hooked build of /repo", ok, out[-300:])
    if pre:
        pre(ctx)
    common.lean_obligations(ctx, [props_module, "Sympler.DynDriver", "symdrv"] + list(extra_modules), [props_module] + list(extra_modules),
                            theorems, MODULES + [props_module] + list(extra_modules))
    n = nquick if not ctx.thorough else nthorough
    summ, base = ({"cases": 0, "disagreements": [], "violations": [], "oracles": {}, "errors": ["not run"], "histogram": {}}, None)
    if ok and os.path.exists(common.symdrv()):
        summ, base = run_corr(ctx, n, pid.lower(), workers=12)
    mine = [d for d in summ["disagreements"] if (d.get("field") or {}).get("kind", "structure") in FIELDS[pid]
            or (pid == "C10" and (d.get("field") or {}).get("frozen")) or d.get("kind") != "state"]
    others = [d for d in summ["disagreements"] if d not in mine]
    viol = [v for v in summ["violations"] if v["oracle"] in ORACLES[pid]]
    applied = sum(summ["oracles"].get(o, {}).get("applied", 0) for o in ORACLES[pid])
    ctx.oblige("correspondence dyn ran (%d scenarios, %d states compared exactly, %d approximately beyond the exact horizon)"
               % (summ["cases"], summ.get("exact_steps", 0), summ.get("approx_steps", 0)), summ["cases"] > 0 and not summ["errors"], str(summ["errors"])[:300])
    ctx.oblige("correspondence dyn: %s of the real binary = Lean model `dyn` after every step" %
               {"C04": "force buffers (both) of every particle", "C05": "positions, velocities, integrated quantities, force buffers, force index",
                "C07": "every pair-summed symbol (value, persistence flag)", "C10": "every field of every frozen particle"}[pid],
               not mine, str([dict(detail=d.get("detail"), kind=d.get("kind"), step=d.get("step")) for d in mine[:2]])[:500])
    if pid in ("C04", "C10") and ok and os.path.exists(common.symdrv()):
        # composition with the pair search: acts-on flags of every listed pair = free flags of its partners (hypothesis of C04_free_only / C10_frozen_fixed)
        import gridcheck
        gs, gkeep = gridcheck.run_corr(ctx, 40 if not ctx.thorough else 600, pid.lower() + "g")
        gv = [v for v in (gs or {}).get("oracle_violations", []) if v["what"].startswith("acts-on")] if gs else []
        ctx.oblige("oracle on real linked-cell runs: acts-on flags of every listed pair = (first free, second free) in %d states" % (gs or {}).get("states_compared", 0),
                   gs is not None and not gv, str(gv[:2])[:400])
        for v in gv[:1]:
            viol.append(dict(oracle="acts-on flags", detail="step %s: %s" % (v["step"], v["what"]), scenario=gridcheck.scenario_of(gkeep, v["case"]), case=v["case"]))
        shutil.rmtree(gkeep, ignore_errors=True)
    if pid in ("C04", "C10", "C07") and ok:
        # pair modules outside the exact model (FDPD, LJ, ThermostatPetersIso): implementation-side oracle only
        pm = None
        try:
            p2 = subprocess.run([sys.executable, os.path.join(common.VERIF, "sim", "oracle_pairmods.py"), str(ctx.seed), str(96 if not ctx.thorough else 800), "--sympler", common.sympler()],
                                stdout=subprocess.PIPE, stderr=subprocess.PIPE, text=True, timeout=7200)
            pm = json.loads(p2.stdout)
        except Exception as ex:
            pm = {"cases": 0, "violations": [], "error": repr(ex)}
        pmv = [v for v in pm.get("violations", []) if (v["oracle"] == "frozen" and pid != "C07") or pid == "C04" or (pid == "C07" and v["oracle"] == "own-cutoff")]
        ctx.oblige("oracle on real runs with FDPD / LJ / ThermostatPetersIso / ThermostatLA / kernel density (frozen particles untouched%s; partners beyond a module's own cutoff but inside the list cutoff contribute nothing; %d scenarios, %d with frozen particles, kinds %s)"
                   % (", total momentum constant when all are free" if pid == "C04" else "", pm.get("cases", 0), pm.get("with_frozen", 0), pm.get("kinds")),
                   pm.get("cases", 0) > 0 and not pmv, str([dict(oracle=v["oracle"], detail=v["detail"], kinds=v["kinds"]) for v in pmv[:2]])[:400])
        for v in pmv[:1]:
            viol.append(dict(oracle="pairmods-" + v["oracle"], detail=v["detail"] + " (modules: %s)" % v["kinds"], scenario=v["scenario"], case=v["case"]))
    ctx.oblige("oracle on the real runs (%s; applied %d times)" % (", ".join(ORACLES[pid]), applied), not [v for v in viol if v["oracle"] != "acts-on flags" and not v["oracle"].startswith("pairmods-")],
               str([dict(oracle=v["oracle"], detail=v["detail"]) for v in viol[:2]])[:500])
    ctx.coverage.update(dict(
        evaluations=summ["cases"], distinct_nontrivial=summ["cases"], traces_validated_against_impl=summ["cases"],
        states_compared=summ.get("compared_steps", 0),
        rule="scenarios of sim/corr_dyn.py: 1-3 species, free/frozen mixes, several FPairVels/FParticleVels/FParticleScalar/FPairScalar/FPairVector forces and "
             "PairParticleScalar/Vector sums + particle caches with polynomial expressions, different cutoffs sharing one list, lambda in {0,1/4,1/2,3/4,1}, "
             "IntegratorVelocityVerlet + IntegratorScalar/Vector, dyadic data; every field of every particle after every step compared EXACTLY with the Lean "
             "model while inside the exact horizon; a scenario counts when it ran without reflector hits; distinct by construction (one PRNG stream per worker)",
        histogram=dict(summ.get("histogram", {}), oracles=summ["oracles"], disagreements_attributed_to_other_properties=len(others),
                       transient_differences_not_reproduced=summ.get("transient_not_reproduced", [])[:5]),
        samples=(summ.get("samples") or [dict(modules=summ.get("histogram", {}).get("modules"))])))
    if not all(o[1] for o in ctx.obligations):
        failing = [o[0] for o in ctx.obligations if not o[1]]
        if not viol and ok and os.path.exists(common.symdrv()):
            # violation search: fresh scenarios, only the implementation-side oracles of this property count
            ctx.seed += 7919
            s2, b2 = run_corr(ctx, 240 if not ctx.thorough else 2000, pid.lower() + "s", workers=12)
            ctx.seed -= 7919
            viol = [v for v in s2["violations"] if v["oracle"] in ORACLES[pid]]
            ctx.coverage["violation_search_scenarios"] = s2["cases"]
            shutil.rmtree(b2, ignore_errors=True)
        if viol:
            v = viol[0]
            ctx.violation("%s violated on the real binary: oracle %s: %s" % (pid, v["oracle"], str(v["detail"])[:300]),
                          dict(kind="input", failing_obligations=failing, oracle=v["oracle"], detail=v["detail"], scenario=v.get("scenario"),
                               model_input=v.get("model_input"), worker_seed=v.get("worker_seed"), case=v.get("case"),
                               how_to_replay="symlib.write_case(dir, scenario); sympler in.xml; oracle_%s of sim/corr_dyn.py on obs.txt" % v["oracle"]), True)
        else:
            ctx.violation("%s is no longer shown to hold: %s" % (pid, "; ".join(failing[:3])),
                          dict(kind="proof-or-correspondence", failing_obligations=failing, lake_errors=getattr(ctx, "lake_errors", []),
                               first_differences=[dict(detail=d.get("detail"), step=d.get("step"), kind=d.get("kind"), field=d.get("field"),
                                                       scenario=d.get("scenario"), model_input=d.get("model_input")) for d in mine[:2]]), False)
    if base:
        shutil.rmtree(base, ignore_errors=True)
    return summ
