"""C18 — a restart file restores the particle system it was written from.   (PARTIAL: decimal rounding is libc's)

proof:  Props/C18.lean: C18_tokens (every token the writer emits is returned unsplit by readNext), C18_tokens_alphabet (writer alphabet
        within the reader's character class, which is REGENERATED from pc_file.cpp), C18_exact_domain(_number) (text round trip is the
        identity on <= 6 digit decimals / ints), C18_columns(_identity/_count/_attr) (header/column mapping restores every persistent
        attribute of every species to the right particle: no loss, no duplicate, species and free/frozen kept), C18_partial,
        witnesses for the old class without '+'
tie:    T (translate/t_restart.py) and C: sim/corr_restart.py: file text of the real writer = model text, token by token; system the model
        reader reconstructs = what the real reader (run B) holds
search: independent oracle A vs B: count, species/status multiset, r, v and every persistent attribute (exact on the exact domain, else 5e-6)
"""
import json
import os
import shutil
import subprocess
import sys
from concurrent.futures import ThreadPoolExecutor
import common
import t_restart

R = "Sympler.Restart."
THEOREMS = [R + t for t in ["C18_tokens", "C18_tokens_alphabet", "C18_tokens_plus_occurs", "C18_tokens_without_plus_witness", "C18_tokens_with_plus_witness",
                            "C18_exact_domain", "C18_exact_domain_number", "C18_columns", "C18_columns_identity", "C18_columns_count", "C18_columns_attr",
                            "C18_partial", "C18_writer_formats", "C18_column_layout"]]
MODULES = ["Sympler.Restart", "Sympler.RestartLemmas", "Sympler.Gen.RestartGen", "Props.C18"]
TR = "translator t_restart (character class of ParticleCreatorFile::readNext, parenthesis counter; stream precision of writeRestartFile, sprintf formats of toStringByIndex)"


def run(ctx):
    ok, out = common.ensure_build("hooks", targets=("sympler",))
    ctx.oblige("hooked build of /repo", ok, out[-300:])
    try:
        common.write_if_changed(os.path.join(common.LEAN, "Sympler/Gen/RestartGen.lean"), t_restart.generate(common.REPO))
        ctx.oblige(TR, True)
    except Exception as ex:
        ctx.oblige(TR, False, repr(ex))
    common.lean_obligations(ctx, ["Props.C18", "Sympler.Restart", "symdrv"], ["Props.C18"], THEOREMS, MODULES)
    n = 24 if not ctx.thorough else 2400
    workers = 12
    per = (n + workers - 1) // workers
    base = os.path.join(common.WORK, "c18-%d" % os.getpid())
    shutil.rmtree(base, ignore_errors=True)
    env = dict(os.environ, SYMDRV=common.symdrv())

    def one(k):
        p = subprocess.run([sys.executable, os.path.join(common.VERIF, "sim", "corr_restart.py"), str(ctx.seed * 1000 + k), str(per), "--keep", os.path.join(base, "w%d" % k),
                            "--sympler", common.sympler()], stdout=subprocess.PIPE, stderr=subprocess.PIPE, text=True, env=env, timeout=14400)
        try:
            return json.loads(p.stdout)
        except Exception:
            return {"error": p.stdout[-300:] + p.stderr[-300:]}
    parts = []
    if ok and os.path.exists(common.symdrv()):
        with ThreadPoolExecutor(max_workers=workers) as ex:
            parts = list(ex.map(one, range(workers)))
    errs = [p["error"] for p in parts if "error" in p]
    parts = [p for p in parts if "error" not in p]
    tot = {k: sum(p.get(k, 0) for p in parts) for k in ("cases", "files", "particles", "values_exact", "values_inexact", "model_values", "boundary_lost")}
    dis = [d for p in parts for d in p.get("first", [])]
    ndis = sum(p.get("disagreements", 0) for p in parts)
    for d in dis:
        try:
            d["scenario_json"] = json.load(open(d["scenario"]))
        except Exception:
            d["scenario_json"] = None
    oracle = [d for d in dis if d["kind"] in ("oracle", "boundary-loss", "runfail")]
    corr = [d for d in dis if d["kind"] not in ("oracle", "boundary-loss")]
    ctx.oblige("correspondence restart ran (%d systems, %d restart files)" % (tot["cases"], tot["files"]), tot["files"] > 0 and not errs, str(errs)[:300])
    ctx.oblige("correspondence restart: text of the real writer = model text; system rebuilt by the model reader = system held by the real reader (%d values)" % tot["model_values"],
               not corr, str([dict(kind=d["kind"], msg=d["msg"]) for d in corr[:2]])[:500])
    ctx.oblige("oracle: run B (restarted) holds the particle system run A wrote: count, species, free/frozen, r, v, persistent attributes (%d values exact, %d to 5e-6)"
               % (tot["values_exact"], tot["values_inexact"]), not oracle, str([dict(kind=d["kind"], msg=d["msg"]) for d in oracle[:2]])[:500])
    ctx.coverage.update(dict(evaluations=tot["files"], distinct_nontrivial=tot["files"], traces_validated_against_impl=tot["files"],
                             rule="particle systems of sim/corr_restart.py: 1-3 species in random order (possibly one without particles), free and frozen particles, persistent DOUBLE / POINT / "
                                  "TENSOR / INT quantities in random order, values 0, negative, tiny (1e-12), large (2000000, 1e+12), <= 6 digit decimals and inexact ones; restart files written "
                                  "mid-run and at the end; one evaluation = one restart file written by run A and read by a run B; all are distinct systems/steps",
                             histogram=tot, samples=[dict(first_disagreement=(dict(kind=dis[0]["kind"], msg=dis[0]["msg"]) if dis else None), totals=tot)]))
    ctx.assumptions += ["PARTIAL: 'at least six significant digits' for arbitrary doubles is the rounding of libc printf/strtod/operator>> (trusted); the model takes the correctly rounded decimal",
                        "force_<q>_<k> accumulator columns are written but zeroed by every run: their values are not compared",
                        "interplay with modules that flip persistence during a step is covered by the correspondence only"]
    if not all(o[1] for o in ctx.obligations):
        failing = [o[0] for o in ctx.obligations if not o[1]]
        if oracle:
            for sig in sorted({d["kind"] for d in oracle}):
                d = [x for x in oracle if x["kind"] == sig][0]
                ctx.violation("C18 violated on the real binary (%s): %s" % (sig, str(d["msg"])[:300]),
                              dict(kind="input", failing_obligations=failing, signature=sig, msg=d["msg"], scenario=d["scenario_json"],
                                   how_to_replay="python3 sim/corr_restart.py --replay <file holding `scenario`>"), True, signature=sig)
        else:
            ctx.violation("C18 is no longer shown to hold: " + "; ".join(failing[:3]),
                          dict(kind="proof-or-correspondence", failing_obligations=failing, lake_errors=getattr(ctx, "lake_errors", []),
                               first_differences=[dict(kind=d["kind"], msg=d["msg"], scenario=d["scenario_json"]) for d in corr[:2]]), False)
    shutil.rmtree(base, ignore_errors=True)
