"""translator hook of the Dyn properties (C04, C05, C07, C10): translate/t_dyn.py regenerates lean/Sympler/Gen/DynGen.lean (pair kernels
with guards and own-cutoff test, integrator kernels, order of Controller::integrate); Props/DynBridge.lean proves that the generated
functions ARE the functions of the hand-written model Sympler/Dyn.lean."""
import os
import common

B = "Sympler.Dyn."
THEOREMS_C04 = [B + t for t in ["Bridge_pair_first", "Bridge_pair_second", "Bridge_pair_guards", "Bridge_pair_cutoff"]]
THEOREMS_C05 = [B + t for t in ["Bridge_vv_step1", "Bridge_vv_step2", "Bridge_euler_step1", "Bridge_step_order"]]
THEOREMS_C07 = [B + t for t in ["Bridge_pair_first", "Bridge_pair_second", "Bridge_pair_guards", "Bridge_pair_cutoff"]]
THEOREMS_C10 = [B + t for t in ["Bridge_pair_guards"]]
EXTRA = ["Props.DynBridge"]
NAME = "translator t_dyn (pair kernels of FPairVels/FPairScalar/FPairVector/PairParticleScalar/PairParticleVector with guards and cutoff test, velocity-Verlet and Euler integrator kernels, call order of Controller::integrate)"


def translate(ctx):
    try:
        import t_dyn
        common.write_if_changed(os.path.join(common.LEAN, "Sympler/Gen/DynGen.lean"), t_dyn.generate(common.REPO))
        return ctx.oblige(NAME, True)
    except Exception as ex:
        return ctx.oblige(NAME, False, repr(ex))
