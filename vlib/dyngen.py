"""translator hook of the Dyn properties (C04, C05, C07, C10): translate/t_dyn.py regenerates lean/Sympler/Gen/DynGen.lean (pair kernels
with guards and own-cutoff test, integrator kernels, order of Controller::integrate); Props/DynBridge.lean proves that the generated
functions ARE the functions of the hand-written model Sympler/Dyn.lean."""
import os
import common

B = "Sympler.Dyn."
G = ["Sympler.PairGuards.C04_guards_table", "Sympler.PairGuards.C04_guards_table_covers", "Sympler.PairGuards.C07_no_write_guarded_by_list_cutoff"]
THEOREMS_C04 = [B + t for t in ["Bridge_pair_first", "Bridge_pair_second", "Bridge_pair_guards", "Bridge_pair_cutoff"]] + G
THEOREMS_C05 = [B + t for t in ["Bridge_vv_step1", "Bridge_vv_step2", "Bridge_euler_step1", "Bridge_step_order"]]
PL = ["Sympler.PairLists." + t for t in ["C07_lists_cleared_together", "C07_lists_cleared_for_all", "C07_clear_unconditional_on_size", "C07_clear_sites_cover"]]
THEOREMS_C07 = [B + t for t in ["Bridge_pair_first", "Bridge_pair_second", "Bridge_pair_guards", "Bridge_pair_cutoff"]] + PL + ["Sympler.PairGuards.C07_no_write_guarded_by_list_cutoff"]
IL = ["Sympler.IntLoops.C10_integrators_free_only", "Sympler.IntLoops.C10_integrator_loops_cover", "Sympler.IntLoops.C10_controller_loops_free_only"]
THEOREMS_C10 = [B + t for t in ["Bridge_pair_guards"]] + G + IL
EXTRA = ["Props.DynBridge", "Props.PairGuards", "Props.PairLists", "Props.IntLoops"]
NAME4 = "translator t_intloops (every particle loop of every integrator and of Controller with its loop macro)"
NAME3 = "translator t_pairlists (every statement that clears a pair list in the two pair creators, with its conditions and loops)"
NAME2 = "translator t_pairguards (EVERY write to a pair partner in force/, callable/, symbol/, integrator/, basic/, meter/, reflector/ with the conditions of its enclosing ifs)"
NAME = "translator t_dyn (pair kernels of FPairVels/FPairScalar/FPairVector/PairParticleScalar/PairParticleVector with guards and cutoff test, velocity-Verlet and Euler integrator kernels, call order of Controller::integrate)"


def translate(ctx):
    try:
        import t_dyn
        common.write_if_changed(os.path.join(common.LEAN, "Sympler/Gen/DynGen.lean"), t_dyn.generate(common.REPO))
        ctx.oblige(NAME, True)
    except Exception as ex:
        ctx.oblige(NAME, False, repr(ex))
    try:
        import t_intloops
        common.write_if_changed(os.path.join(common.LEAN, "Sympler/Gen/IntLoopsGen.lean"), t_intloops.generate(common.REPO))
        ctx.oblige(NAME4, True)
    except Exception as ex:
        ctx.oblige(NAME4, False, repr(ex))
    try:
        import t_pairlists
        common.write_if_changed(os.path.join(common.LEAN, "Sympler/Gen/PairListsGen.lean"), t_pairlists.generate(common.REPO))
        ctx.oblige(NAME3, True)
    except Exception as ex:
        ctx.oblige(NAME3, False, repr(ex))
    try:
        import t_pairguards
        common.write_if_changed(os.path.join(common.LEAN, "Sympler/Gen/PairGuardsGen.lean"), t_pairguards.generate(common.REPO))
        return ctx.oblige(NAME2, True)
    except Exception as ex:
        return ctx.oblige(NAME2, False, repr(ex))
