"""translator hook for the Dyn properties (filled in by translate/t_dyn.py)"""
THEOREMS_C04 = []
THEOREMS_C05 = []
THEOREMS_C07 = []
THEOREMS_C10 = []
EXTRA = []


def translate(ctx):
    return True
