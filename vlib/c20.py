"""C20 — the OpenMP build gives the same physics for every thread count.   (PARTIAL: freedom from data races is a run-time fact)

proof:  Props/C20.lean about Sympler/Threads.lean: C20_round_robin / C20_assignment (link -> thread), C20_partition_links / _pairs (the
        per-thread pair lists partition the serial list for every T and every activation history), C20_interleaving(_order),
        C20_run_independent (accumulation steps of different threads commute: every interleaving gives the same copies),
        C20_merge(_pointwise) (merged value = serial sum, copies zero afterwards), C20_steps(_every) (nothing leaks into the next
        stage or step although slots are reused), C20_equal, C20_thread_count_independent, C20_layout_disjoint,
        C20_unmerged_leak_witness
tie:    C: sim/corr_omp.py: a second hooked build flavour (-fopenmp) of the same tree; link->thread assignment of the real OpenMP binary
        = model `threads`; union of per-thread pair lists = serial list; all particle data bit-identical to the serial flavour
search: serial vs OpenMP observer dumps for T in {1,2,4,8,16}, repeated runs; copy vectors all zero after every step
"""
import json
import os
import shutil
import subprocess
import sys
from concurrent.futures import ThreadPoolExecutor
import common

P = "Sympler.Threads."
NAMES = ["C20_partition", "C20_round_robin", "C20_assignment", "C20_partition_links", "C20_partition_pairs", "C20_interleaving", "C20_interleaving_order",
         "C20_run_independent", "C20_sequential_isInterleaving", "C20_merge", "C20_merge_pointwise", "C20_steps", "C20_steps_every", "C20_equal",
         "C20_thread_count_independent", "C20_layout_disjoint", "Example.C20_unmerged_leak_witness"]
MODULES = ["Sympler.Threads", "Sympler.ThreadsLemmas", "Sympler.Gen.ThreadsGen", "Props.C20", "Props.ThreadsBridge"]
BR = ["Sympler.Threads.Bridge_counter", "Sympler.Threads.Bridge_merge_sites"]
TR = "translator t_threads (OpenMP branch: round-robin counter of activateCellLink, mergeCopies statements of PairParticleScalar/Vector and IntegratorVelocityVerlet)"


def theorem_names():
    """the namespace used in Props/C20.lean"""
    txt = open(os.path.join(common.LEAN, "Props/C20.lean")).read()
    import re
    m = re.search(r"^namespace\s+(\S+)", txt, re.M)
    ns = (m.group(1) + ".") if m else ""
    return [ns + n for n in NAMES]


def run(ctx):
    ok, out = common.ensure_build("hooks", targets=("sympler",))
    ctx.oblige("hooked build of /repo (serial flavour)", ok, out[-300:])
    ok2, out2 = common.ensure_build("omp", targets=("sympler",))
    ctx.oblige("hooked build of /repo (OpenMP flavour, -fopenmp)", ok2, out2[-300:])
    try:
        import t_threads
        common.write_if_changed(os.path.join(common.LEAN, "Sympler/Gen/ThreadsGen.lean"), t_threads.generate(common.REPO))
        ctx.oblige(TR, True)
    except Exception as ex:
        ctx.oblige(TR, False, repr(ex))
    TRS = "translator t_forceslots (OpenMP-only code: every block of every X::setForceSlots and every write into a per-thread copy vector of all force modules; slot set-up and mergeCopies aliases of the symbol calculators)"
    try:
        import t_forceslots
        common.write_if_changed(os.path.join(common.LEAN, "Sympler/Gen/ForceSlotsGen.lean"), t_forceslots.generate(common.REPO))
        ctx.oblige(TRS, True)
    except Exception as ex:
        ctx.oblige(TRS, False, repr(ex))
    TRC = "translator t_createdist (call sites of the serial and of the OpenMP version of CellLink::createDistances)"
    try:
        import t_createdist
        common.write_if_changed(os.path.join(common.LEAN, "Sympler/Gen/CreateDistGen.lean"), t_createdist.generate(common.REPO))
        ctx.oblige(TRC, True)
    except Exception as ex:
        ctx.oblige(TRC, False, repr(ex))
    FS = ["Sympler.CreateDist.C20_create_distances_same_sites"] + ["Sympler.ForceSlots." + t for t in ["C20_set_sites_consistent", "C20_write_sites_consistent", "C20_layouts_agree", "C20_calc_sites_consistent", "C20_omp_branch_same_increments", "C20_slot_tables_cover"]]
    common.lean_obligations(ctx, ["Props.C20", "Props.ThreadsBridge", "Props.ForceSlots", "Props.CreateDist", "Sympler.Threads", "Sympler.DynDriver", "symdrv"], ["Props.C20", "Props.ThreadsBridge", "Props.ForceSlots", "Props.CreateDist"],
                            theorem_names() + BR + FS, MODULES + ["Sympler.Gen.ForceSlotsGen", "Props.ForceSlots", "Sympler.Gen.CreateDistGen", "Props.CreateDist"])
    n, threads, repeat = (12, "1,2,4,8,16", 1) if not ctx.thorough else (200, "1,2,3,4,8,16", 3)
    workers = 6
    per = (n + workers - 1) // workers
    base = os.path.join(common.WORK, "c20-%d" % os.getpid())
    env = dict(os.environ, SYMDRV=common.symdrv())

    def one(k):
        p = subprocess.run([sys.executable, os.path.join(common.VERIF, "sim", "corr_omp.py"), str(ctx.seed * 1000 + k), str(per), "--keep", os.path.join(base, "w%d" % k),
                            "--serial", common.sympler("hooks"), "--omp", common.sympler("omp"), "--threads", threads, "--repeat", str(repeat)],
                           stdout=subprocess.PIPE, stderr=subprocess.PIPE, text=True, env=env, timeout=14400)
        try:
            return json.loads(p.stdout)
        except Exception:
            return {"error": p.stdout[-300:] + p.stderr[-300:]}
    parts = []
    if ok and ok2 and os.path.exists(common.symdrv()):
        with ThreadPoolExecutor(max_workers=workers) as ex:
            parts = list(ex.map(one, range(workers)))
    shutil.rmtree(base, ignore_errors=True)
    errs = [p["error"] for p in parts if "error" in p]
    parts = [p for p in parts if "error" not in p]
    tot = {k: sum(p.get(k, 0) for p in parts) for k in ("cases", "omp_runs", "states_compared", "exact_states", "assignment_links", "partition_states", "lj_cases", "lj_omp_runs", "slot_stress")}
    dis = [d for p in parts for d in p.get("disagreements", [])]
    viol = [v for p in parts for v in p.get("violations", [])]
    hist = {}
    for key in ("modules", "species_counts", "skipped"):
        h = hist.setdefault(key, {})
        for p in parts:
            for a, b in p.get(key, {}).items():
                h[str(a)] = h.get(str(a), 0) + b
    ctx.oblige("correspondence omp ran (%d scenarios, %d OpenMP runs, thread counts %s)" % (tot["cases"], tot["omp_runs"], threads), tot["omp_runs"] > 0 and not errs, str(errs)[:300])
    ctx.oblige("correspondence threads: link -> thread assignment of the real OpenMP binary = Lean model `threads` (%d links); union of the per-thread pair lists = serial pair list (%d states)"
               % (tot["assignment_links"], tot["partition_states"]), not dis, str([dict(kind=d["kind"], T=d["T"], detail=d["detail"]) for d in dis[:2]])[:500])
    ctx.oblige("oracle: every particle's r, v, forces and tag attributes bit-identical between the serial and the OpenMP flavour for every thread count (%d states inside the exact horizon); copy vectors zero after every step; %d LJ scenarios (species in both orders, unequal records; %d OpenMP runs) agree with the serial run to 1e-9"
               % (tot["exact_states"], tot["lj_cases"], tot["lj_omp_runs"]), not viol, str([dict(oracle=v["oracle"], T=v.get("T"), detail=v["detail"]) for v in viol[:2]])[:500])
    ctx.coverage.update(dict(evaluations=tot["omp_runs"], distinct_nontrivial=tot["omp_runs"], traces_validated_against_impl=tot["omp_runs"],
                             rule="scenarios of the sim/corr_dyn.py generator (1-3 species, several pair forces / pair sums incl. allPairs / caches / Euler integrators per species, frozen particles, dyadic data) run "
                                  "by the serial flavour and by the OpenMP flavour with nThreads in {%s}, %d time(s) each; every second scenario rewritten into the less common copy-slot layout (another integrator before the velocity-Verlet one, cross-species forces in reverse colour order); plus LJ scenarios outside the exact model; one evaluation = one OpenMP run compared state by state; distinct (scenario, T, repetition)" % (threads, repeat),
                             histogram=dict(hist, totals=tot), samples=[dict(threads=threads, totals=tot, first_violation=(dict(oracle=viol[0]["oracle"], detail=viol[0]["detail"]) if viol else None))]))
    ctx.assumptions += ["PARTIAL: that the real threads touch only their own copies and lists (no data race on shared scratch) is a run-time fact the model assumes; evidence for it is only the repeated bit-identical runs",
                        "exact-arithmetic regime: sums are order independent, so 'up to summation order' sharpens to bit-identical",
                        "module kinds not instantiated by the generator (thermostats, DPD, Rho with kernels, tensor symbols) are not covered; DESIGN.md records a crash of the `tensor` regression input with 2 threads"]
    if not all(o[1] for o in ctx.obligations):
        failing = [o[0] for o in ctx.obligations if not o[1]]
        if viol:
            v = viol[0]
            ctx.violation("C20 violated on the real binaries: %s (T=%s): %s" % (v["oracle"], v.get("T"), str(v["detail"])[:300]),
                          dict(kind="input", failing_obligations=failing, oracle=v["oracle"], threads=v.get("T"), detail=v["detail"], scenario=v.get("scenario"),
                               how_to_replay="symlib.write_case(dir, scenario) once as is (serial flavour .work/build-hooks/sympler) and once with scenario['sim']={'nThreads': T} (.work/build-omp/sympler); compare obs.txt"), True)
        else:
            ctx.violation("C20 is no longer shown to hold: " + "; ".join(failing[:3]),
                          dict(kind="proof-or-correspondence", failing_obligations=failing, lake_errors=getattr(ctx, "lake_errors", []), first_differences=dis[:2]), False)
