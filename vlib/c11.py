"""C11 — concurrently running simulations do not exchange compiled expressions.

proof:  Props/C11.lean — C11_isolation for EVERY schedule, any number of processes, arbitrary stale files, about the naming
        flag and the step order regenerated from function_compiler.cpp (translate/t_funccompile.py)
tie:    T (flag + step order) and C: real processes (harness/h_compiler_proc.cpp linking the real FunctionCompiler) are driven
        through the guarded scheduling points by an external scheduler; the same schedule runs in the Lean model
        (`atomicprobe 1`); process states, bindings and the directory content are diffed
search: the race witness schedules (from the Lean witnesses) + random schedules are run on the REAL processes; the oracle is
        "every function returns its own constant, no process fails, no temporary file is left"
"""
import ctypes
import itertools
import os
import shutil
import subprocess
import tempfile
import time
from concurrent.futures import ThreadPoolExecutor
import common
import t_funccompile

THEOREMS = ["Sympler.FuncCompile.C11_name_format", "Sympler.FuncCompile.C11_counter_order", "Sympler.FuncCompile.C11_gen_order", "Sympler.FuncCompile.C11_isolation", "Sympler.FuncCompile.C11_progress",
            "Sympler.FuncCompile.C11_progress_all", "Sympler.FuncCompile.C11_progress_exists", "Sympler.FuncCompile.C11_coarse_refines",
            "Sympler.FuncCompile.C11_race_witness", "Sympler.FuncCompile.C11_race_witness_error", "Sympler.FuncCompile.C11_race_witness_coarse"]
MODULES = ["Sympler.FuncCompile", "Sympler.FuncCompileLemmas", "Sympler.Gen.FuncCompileGen", "Props.C11"]
PREFIX = "__function_compiler_tmp_"


class Proc:
    def __init__(self, idx, tag, nfun, tmp, binp, fakepid=None):
        self.idx, self.tag, self.nfun = idx, tag, nfun
        self.fakepid = fakepid
        self.ready = os.path.join(tmp, ".ready%d" % idx)
        self.go = os.path.join(tmp, ".go%d" % idx)
        os.mkfifo(self.ready)
        os.mkfifo(self.go)
        env = dict(os.environ, TMP=tmp, VERIF_SCHED_READY=self.ready, VERIF_SCHED_GO=self.go)
        env.pop("VERIF_FAKE_PID", None)
        if fakepid is not None:
            env["VERIF_FAKE_PID"] = str(fakepid)
        self.p = subprocess.Popen([binp, str(tag), str(nfun)], env=env, stdout=subprocess.PIPE, stderr=subprocess.DEVNULL, text=True)
        self.rf = open(self.ready, "r")
        self.gf = open(self.go, "w")
        self.point = None
        self.finished = False
        self.advance(first=True)

    def advance(self, first=False):
        """let the process run to its next scheduling point (skipping the bookkeeping point 'end')"""
        while True:
            if not first:
                try:
                    self.gf.write("g")
                    self.gf.flush()
                except (BrokenPipeError, OSError):
                    self.finished = True
                    self.point = None
                    return
            first = False
            line = self.rf.readline()
            if line == "":
                self.finished = True
                self.point = None
                self.p.wait()
                return
            self.point = line.strip()
            if self.point != "end":
                return

    def close(self):
        if self.p.poll() is None:
            self.p.kill()
        out = self.p.stdout.read() if self.p.stdout else ""
        self.p.wait()
        for f in (self.rf, self.gf):
            try:
                f.close()
            except OSError:
                pass
        return out


def so_tag(path):
    """which expression is a .so compiled from?  value of fn(0) or None"""
    try:
        lib = ctypes.CDLL(path)
        fn = lib.fn
    except (OSError, AttributeError):
        return None
    res = ctypes.c_double(-1)
    fn.argtypes = [ctypes.POINTER(ctypes.c_double), ctypes.c_double]
    fn(ctypes.byref(res), ctypes.c_double(0.0))
    return int(res.value)


def c_tag(path):
    import re
    try:
        m = re.search(r"\+\s*\(?(\d+)(?:\.0)?\)?", open(path).read().split("*result")[-1])
    except OSError:
        return None
    return int(m.group(1)) if m else None


def run_real(binp, cfg, sched, stale=(), fakepids=None):
    """cfg: [(modelpid, nfun)], sched: list of process indices.  Returns the canonical lines of the model protocol."""
    tmp = tempfile.mkdtemp(prefix="c11_", dir=os.path.join(common.WORK))
    procs = []
    try:
        for i, (mp, nfun) in enumerate(cfg):
            procs.append(Proc(i, mp, nfun, tmp, binp, fakepids[i] if fakepids else None))
        realpid = {(p.fakepid if p.fakepid is not None else p.p.pid): cfg[p.idx][0] for p in procs}
        # stale files of "dead processes with a recycled pid": planted while every process is still blocked at its first probe
        stale_names = set()
        for (idx, k, ext) in stale:
            stale_names.add("%s%d_%d.%s" % (PREFIX, procs[idx].p.pid, k, ext))
            open(os.path.join(tmp, "%s%d_%d.%s" % (PREFIX, procs[idx].p.pid, k, ext)), "w").write(
                "#include <math.h>\nvoid fn(double *result, double x)\n{\n   *result = x+(99000.0);\n}\n")
        for i in sched:
            if i < len(procs) and not procs[i].finished:
                procs[i].advance()
        # directory content now
        files = []
        for fn in sorted(os.listdir(tmp)):
            if not fn.startswith(PREFIX):
                continue
            base, ext = fn[len(PREFIX):].rsplit(".", 1)
            if "_" in base and fakepids is None:
                pp, k = base.split("_")
                part = str(realpid.get(int(pp), "stale" + pp))
            elif fakepids is not None:
                part, k = "-", "".join(ch for ch in base if ch.isdigit()) or "0"
            else:
                part, k = "-", base
            tag = so_tag(os.path.join(tmp, fn)) if ext == "so" else c_tag(os.path.join(tmp, fn))
            if fn in stale_names:
                tag = 99000          # untouched stale file (content is not inspected)
            files.append((part, int(k), ext, tag))
        lines = []
        for p in procs:
            pending = p.point
            finished = p.finished
            out = p.close()
            binds = []
            status = "running"
            for l in out.splitlines():
                w = l.split()
                if w[0] == "bind":
                    v = int(w[2])
                    binds.append("%s:%d.%d" % (w[1], v // 1000, v % 1000))
                elif w[0] == "error":
                    status = "error"
                elif w[0] == "done":
                    status = "done"
            if status == "running" and finished:
                status = "error"      # died without a message
            pc = "end" if status == "done" else (pending or "?")
            lines.append((cfg[p.idx][0], status, pc, ",".join(binds)))
        return lines, files
    finally:
        for p in procs:
            try:
                p.close()
            except Exception:
                pass
        shutil.rmtree(tmp, ignore_errors=True)


def run_model(usespid, cfg, sched, stale=()):
    lines = ["usespid %d" % (1 if usespid else 0), "atomicprobe 1"]
    for (idx, k, ext) in stale:
        lines.append("file %d %d %s 99 0" % (cfg[idx][0], k, ext))
    for mp, nfun in cfg:
        lines.append("proc %d %d" % (mp, nfun))
    lines.append("sched " + " ".join(str(i) for i in sched))
    lines.append("end")
    out = common.run_model("funccompile", lines)
    procs = []
    fs = []
    for l in out:
        if l.startswith("proc "):
            w = l.split()
            d = dict(x.split("=", 1) for x in w[2:])
            procs.append((int(w[1]), d["status"], d["pc"], d.get("binds", "")))
        elif l.startswith("fs="):
            for item in l[3:].split(","):
                if not item:
                    continue
                name, content = item.split(":")
                part, k, ext = name.split(".")
                tag = None
                if content != "empty":
                    o, f = content.split(".")
                    tag = int(o) * 1000 + int(f)
                fs.append((part, int(k), ext, tag))
    return procs, sorted(fs)


def canon_real(lines, files):
    procs = []
    for (mp, status, pc, binds) in lines:
        # for an errored process the model's pc is the failing step; the real process has exited: compare status only
        procs.append((mp, status, pc if status == "running" else ("end" if status == "done" else "*"), binds))
    return procs, sorted(files)


def canon_model(procs, fs):
    out = []
    for (mp, st, pc, b) in procs:
        if st == "running" and pc == "rmSo" and b:
            # the model records a binding at dlopen; the real process reports it only after rmSo (when compile() returns)
            b = ",".join(b.split(",")[:-1])
        out.append((mp, st, pc if st == "running" else ("end" if st == "done" else "*"), b))
    return out, fs


def oracle(cfg, real_lines, files, complete):
    """the property on the real run"""
    errs = []
    for (mp, status, pc, binds) in real_lines:
        for b in [x for x in binds.split(",") if x]:
            fn, origin = b.split(":")
            o, f = origin.split(".")
            if int(o) != mp or int(f) != int(fn):
                errs.append("process %d runs code generated from process %s's expression %s for its function %s" % (mp, o, f, fn))
        if status == "error":
            errs.append("process %d failed although nothing is wrong with its input" % mp)
    if complete and all(st == "done" for (_, st, _, _) in real_lines) and files:
        errs.append("temporary files left behind: %s" % files)
    return errs


def schedules(r, cfg, n, witness=True):
    steps = {i: 9 * nf for i, (_, nf) in enumerate(cfg)}
    out = []
    if witness and len(cfg) >= 2:
        out += [[0, 1, 0, 0, 1, 1, 0, 0, 0, 0, 1, 1, 1, 1, 1, 1, 0, 0], [0, 1, 1, 1, 0, 0, 0, 0, 1, 1, 1, 1, 0, 0, 0],
                [0, 1] * 20, [1, 0] * 20, [0] * 12 + [1] * 12, [0, 0, 1, 1] * 10, [0, 1, 1, 0] * 10]
    while len(out) < n:
        pool = []
        for i, k in steps.items():
            pool += [i] * k
        r.shuffle(pool)
        # bias towards lock-step prefixes (parameter sweeps start all instances at once)
        if r.random() < 0.5:
            pre = list(range(len(cfg))) * r.randrange(1, 6)
            pool = pre + pool
        if r.random() < 0.3:
            pool = pool[:r.randrange(3, len(pool))]     # incomplete run: states compared mid-way
        out.append(pool)
    return out


def run(ctx):
    r = common.rng(ctx.seed, "c11")
    ok, out = common.ensure_build("hooks", targets=("sympler",))
    ctx.oblige("hooked build of /repo", ok, out[-300:])
    uses_pid = None
    try:
        gen = t_funccompile.generate(common.REPO)
        common.write_if_changed(os.path.join(common.LEAN, "Sympler/Gen/FuncCompileGen.lean"), gen)
        uses_pid = "nameUsesPid : Bool := true" in gen
        ctx.oblige("translator t_funccompile (naming flag, separator, name-before-increment, step order)", True, gen.split("def stepOrder")[1][:120])
    except Exception as ex:
        ctx.oblige("translator t_funccompile (naming flag, separator, name-before-increment, step order)", False, repr(ex))
    lean_ok = common.lean_obligations(ctx, ["Sympler.FuncCompile", "Props.C11", "symdrv"], ["Props.C11"], THEOREMS, MODULES)
    okh, o, binp = common.build_harness("h_compiler_proc")
    ctx.oblige("harness h_compiler_proc builds", okh, o[-300:])
    configs = [[(10, 1), (20, 1)], [(10, 2), (20, 1)], [(10, 1), (20, 1), (30, 1)]]
    nsched = (120, 40, 40) if not ctx.thorough else (1500, 500, 500)
    cases = []
    for cfg, n in zip(configs, nsched):
        for s in schedules(r, cfg, n):
            stale = ()
            if r.random() < 0.35:
                # every process finds its first-choice name taken (stale .c or .so of a dead process with the same pid)
                stale = tuple((i, 0, r.choice(["c", "so"])) for i in range(len(cfg)) if r.random() < 0.8)
            cases.append((cfg, s, stale))
    diffs = []
    viol = None
    samples = []
    hist = {"complete": 0, "incomplete": 0, "procs2": 0, "procs3": 0, "model_error_states": 0}
    if okh and os.path.exists(common.symdrv()):
        # if the translator could not decide the naming, run the model under both and see which one matches
        flag = True if uses_pid is None else uses_pid

        def one(case):
            cfg, s, stale = case
            real_lines, files = run_real(binp, cfg, s, stale)
            return case, real_lines, files
        with ThreadPoolExecutor(max_workers=8) as ex:
            results = list(ex.map(one, cases))
        for (cfg, s, stale), real_lines, files in results:
            mprocs, mfs = run_model(flag, cfg, s, stale)
            a = canon_real(real_lines, files)
            b = canon_model(mprocs, mfs)
            complete = all(st != "running" for (_, st, _, _) in real_lines)
            hist["complete" if complete else "incomplete"] += 1
            hist["procs%d" % len(cfg)] += 1
            if any(st == "error" for (_, st, _, _) in mprocs):
                hist["model_error_states"] += 1
            if stale:
                hist["with_stale_files"] = hist.get("with_stale_files", 0) + 1
            if a != b:
                diffs.append(dict(config=cfg, schedule=s, stale_files=stale, real=a, model=b))
            errs = oracle(cfg, real_lines, [f for f in files if f[3] != 99000], complete)
            if errs and viol is None:
                viol = dict(config=cfg, schedule=s, stale_files=[dict(process=i, counter=k, ext=e) for (i, k, e) in stale], errors=errs, real_processes=real_lines, files=files)
            if len(samples) < 3:
                samples.append(dict(config=cfg, schedule=s[:30], stale_files=stale, real=str(a)[:300]))
    # name-collision candidates: the harness makes getpid() return chosen numbers, so that the names of (pid 2, counter 10) and
    # (pid 21, counter 0), or (pid 1, counter 11) and (pid 11, counter 1), coincide unless process id and counter are kept apart in
    # the name; the first process is brought to its colliding expression, then the two run in the race-witness patterns
    coll = []
    if okh:
        tails = [[0, 1] * 12, [1, 0] * 12, [0, 0, 1, 1] * 6, [0, 1, 1, 0] * 6]
        for (cfg, fp, pre) in [([(10, 11), (20, 1)], [2, 21], [0] * 70), ([(10, 12), (20, 2)], [1, 11], [0] * 77 + [1] * 7),
                               ([(10, 2), (20, 12)], [11, 1], [1] * 77 + [0] * 7)]:
            for t in (tails if ctx.thorough else tails[:2]):
                coll.append((cfg, fp, pre + t + [0] * 30 + [1] * 30))

        def cone(c):
            cfg, fp, sch = c
            rl, fl = run_real(binp, cfg, sch, (), fakepids=fp)
            return c, rl, fl
        with ThreadPoolExecutor(max_workers=6) as ex:
            cres = list(ex.map(cone, coll))
        for (cfg, fp, sch), rl, fl in cres:
            complete = all(st != "running" for (_, st, _, _) in rl)
            errs = oracle(cfg, rl, fl, complete)
            hist["fake_pid_runs"] = hist.get("fake_pid_runs", 0) + 1
            hist["fake_pid_complete"] = hist.get("fake_pid_complete", 0) + (1 if complete else 0)
            if errs and viol is None:
                viol = dict(config=cfg, process_ids_seen_by_the_code=fp, schedule=sch, stale_files=[], errors=errs, real_processes=rl, files=fl,
                            note="the harness overrides getpid() (env VERIF_FAKE_PID) so that two live processes have ids whose digits, followed by the counter, coincide")
    ctx.oblige("correspondence funccompile: Lean model = real processes on %d forced interleavings" % len(cases), okh and not diffs,
               "" if not diffs else "first difference: %s" % str(diffs[0])[:600])
    ctx.oblige("oracle on the real runs: own code, no failure, no file left (%d runs + %d runs with chosen process ids whose names would collide without a separator)" % (len(cases), len(coll)), viol is None, str(viol)[:300])
    ctx.coverage.update(dict(evaluations=len(cases), distinct_nontrivial=len({(str(c), tuple(s), st) for c, s, st in cases if len(set(s)) > 1}),
                             rule="forced interleavings of 2-3 real processes (1-2 expressions each) at the scheduling points probe/openC/writeC/gcc/rmC/dlopen/rmSo: the Lean race-witness schedules, lock-step patterns and random interleavings (half with a lock-step prefix, 30% truncated); non-trivial = at least two processes are scheduled",
                             samples=samples, histogram=hist, traces_validated_against_impl=len(cases)))
    ctx.assumptions += ["atomicity of stat, open(O_TRUNC), unlink and of gcc writing its output (OS contract)",
                        "live processes on one machine have distinct pids"]
    if not all(o[1] for o in ctx.obligations):
        failing = [o[0] for o in ctx.obligations if not o[1]]
        if viol:
            ctx.violation("C11 violated on real processes: " + viol["errors"][0],
                          dict(kind="schedule", failing_obligations=failing, how_to_replay="processes = harness/h_compiler_proc <tag> <nfun> in one $TMP; schedule = indices of the process allowed to run to its next scheduling point (vlib/c11.py run_real)", **viol), True)
        else:
            ctx.violation("C11 is no longer shown to hold: " + "; ".join(failing[:3]),
                          dict(kind="proof-or-correspondence", failing_obligations=failing, lake_errors=getattr(ctx, "lake_errors", []), first_differences=diffs[:2]), False)
