"""C13 — results do not depend on particle numbering or on the periodic box origin.

proof:  Props/C13.lean about Sympler/Geom.lean (the model of C01): C13_mi_periodic / C13_sep_shift / C13_sepV_shift (the minimum-image
        separation is unchanged by a common displacement followed by ANY wrap back into the box), C13_shift_brute (the reference pair
        list of the shifted configuration is the same list), C13_shift (the linked-cell pair list of the shifted, re-registered
        configuration = the original one up to order and orientation), C13_perm_brute / C13_perm (the same for every reordering of
        the particle list).  Exact arithmetic: 'up to summation noise' sharpens to equality of the pair SET, and every force / pair
        sum is a sum over that set.
tie:    T (translate/t_cells.py + bridge theorems C01_bridge_*: the generated addPair / cellDist / cutoff test are the functions of the
        model) and C: sim/corr_relabel.py: the real binary's pair lists (canonical orientation, matched by physical identity) and all
        particle data of the permuted / shifted runs = those of the base run, bit for bit inside the exact horizon
search: the same comparison is the implementation-side oracle (no model involved)
"""
import json
import os
import shutil
import subprocess
import sys
from concurrent.futures import ThreadPoolExecutor
import common
import gridcheck

THEOREMS = ["Sympler.C13." + t for t in ["C13_mi_periodic", "C13_sep_shift", "C13_sep_shift_wall", "C13_sepV_shift", "C13_shift_brute", "C13_shift",
                                         "C13_perm_brute", "C13_perm"]] + \
           ["C01_exact"] + ["Sympler.C01." + t for t in ["C01_bridge_addPair", "C01_bridge_cellDist", "C01_bridge_keep", "C01_gen_tables_ok"]]
MODULES = ["Sympler.Geom", "Sympler.GeomLemmas", "Sympler.Gen.CellTablesGen", "Props.C13", "Props.C01", "Props.C01Tables"]


def run(ctx):
    ok, out = common.ensure_build("hooks", targets=("sympler",))
    ctx.oblige("hooked build of /repo", ok, out[-300:])
    gridcheck.translate(ctx)
    common.lean_obligations(ctx, ["Props.C13", "Props.C01", "Props.C01Tables", "Props.CreateDist", "Props.PairSearchSites", "Sympler.DynDriver", "symdrv"], ["Props.C13", "Props.C01", "Props.C01Tables", "Props.CreateDist", "Props.PairSearchSites"],
                            THEOREMS + gridcheck.SITE_THEOREMS, MODULES + gridcheck.SITE_MODULES)
    n = 96 if not ctx.thorough else 2400
    workers = 12
    per = (n + workers - 1) // workers
    base = os.path.join(common.WORK, "c13-%d" % os.getpid())
    env = dict(os.environ, SYMDRV=common.symdrv())

    def one(k):
        p = subprocess.run([sys.executable, os.path.join(common.VERIF, "sim", "corr_relabel.py"), str(ctx.seed * 1000 + k), str(per), "--keep", os.path.join(base, "w%d" % k),
                            "--sympler", common.sympler()], stdout=subprocess.PIPE, stderr=subprocess.PIPE, text=True, env=env, timeout=14400)
        try:
            return json.loads(p.stdout)
        except Exception:
            return {"error": p.stdout[-300:] + p.stderr[-300:]}
    parts = []
    if ok and os.path.exists(common.symdrv()):
        with ThreadPoolExecutor(max_workers=workers) as ex:
            parts = list(ex.map(one, range(workers)))
    shutil.rmtree(base, ignore_errors=True)
    errs = [p["error"] for p in parts if "error" in p]
    parts = [p for p in parts if "error" not in p]
    tot = {k: sum(p.get(k, 0) for p in parts) for k in ("cases", "perm_runs", "shift_runs", "states_compared", "pair_lists_compared", "pairs_total", "crossings")}
    viol = [v for p in parts for v in p.get("violations", [])]
    ctx.oblige("correspondence relabel ran (%d scenarios: %d permuted runs, %d shifted runs with %d box-face crossings)"
               % (tot["cases"], tot["perm_runs"], tot["shift_runs"], tot["crossings"]), tot["perm_runs"] > 0 and tot["shift_runs"] > 0 and not errs, str(errs)[:300])
    ctx.oblige("C13_perm / C13_shift on the real binary: pair lists in canonical orientation matched by physical identity (%d lists, %d pairs) and v, forces, every derived quantity of every particle (%d states) of the permuted / shifted run = base run, bit for bit"
               % (tot["pair_lists_compared"], tot["pairs_total"], tot["states_compared"]), not viol,
               str([dict(kind=v["kind"], step=v.get("step"), detail=v["detail"]) for v in viol[:2]])[:600])
    hist = {}
    for key in ("species_counts", "skipped"):
        h = hist.setdefault(key, {})
        for p in parts:
            for a, b in p.get(key, {}).items():
                h[str(a)] = h.get(str(a), 0) + b
    ctx.coverage.update(dict(evaluations=tot["perm_runs"] + tot["shift_runs"], distinct_nontrivial=tot["perm_runs"] + tot["shift_runs"],
                             traces_validated_against_impl=tot["perm_runs"] + tot["shift_runs"],
                             rule="scenarios of the sim/corr_dyn.py generator; each is run as generated, with a randomly reordered particle file, and (fully periodic, no expression reading absolute positions) with a common "
                                  "dyadic displacement of up to 3 box lengths wrapped back into the box; one evaluation = one variant run compared state by state with its base run; distinct (scenario, variant)",
                             histogram=dict(hist, totals=tot), samples=[dict(totals=tot, first_violation=(dict(kind=viol[0]["kind"], detail=viol[0]["detail"]) if viol else None))]))
    ctx.assumptions += ["exact-arithmetic regime: sums are order independent, so 'summation noise' vanishes and the comparison is bit for bit; outside it nothing is claimed",
                        "the theorems are about the pair list (up to order and orientation); that forces and pair sums are sums over that list of terms depending only on the pair is C04/C07 (Sympler/Dyn.lean)",
                        "shift invariance is claimed (and tested) only for expressions that do not read absolute positions, fully periodic boxes"]
    if not all(o[1] for o in ctx.obligations):
        failing = [o[0] for o in ctx.obligations if not o[1]]
        if viol:
            v = viol[0]
            ctx.violation("C13 violated on the real binary (%s variant): %s" % (v["kind"], str(v["detail"])[:300]),
                          dict(kind="input", failing_obligations=failing, variant_kind=v["kind"], step=v.get("step"), detail=v["detail"], shift=v.get("shift"), order=v.get("order"),
                               scenario=v.get("scenario"), variant=v.get("variant"),
                               how_to_replay="symlib.write_case(dirA, scenario); symlib.write_case(dirB, variant); run sympler in both; compare obs.txt by physical identity (sim/corr_relabel.py compare / canon_pairs)"), True)
        else:
            ctx.violation("C13 is no longer shown to hold: " + "; ".join(failing[:3]),
                          dict(kind="proof-or-correspondence", failing_obligations=failing, lake_errors=getattr(ctx, "lake_errors", [])), False)
