"""C08 — walls confine particles; reflection laws hold.   (PARTIAL: accelerated flight, rounding-decided geometry, STL walls)

proof:  PropsR/C08.lean (over R, about the reflector definitions REGENERATED from reflector_{mirror,bounce_back,stochastic}.h): mirror
        reverses exactly the normal component, keeps tangential ones and the speed; bounce-back reverses v; stochastic keeps the speed
        and re-emits inward for every pair of random numbers; r' = hit + eps n is inside; C08_*_rat_instance ties the generated
        definitions to the reflectors of the Rat model.  Props/C08.lean (collision loop model Sympler/Collide.lean, force-free):
        time strictly decreases per hit, earliest hit chosen, loop ends or reports the error, C08_confined_cuboid / C08_count_run
        (particle stays strictly inside, number constant over any number of steps) under NoEdge; C08_edge_witness: an EXACT edge hit
        with ReflectorMirror loses the particle (genuine defect, known finding)
tie:    T (translate/t_reflectors.py) and C: sim/corr_walls.py: outcome, velocity (exact), position, cell per step real binary = model
search: oracles on the real runs for all reflectors and also with forces: count, inside, speed, mirror law, bounce-back law
"""
import json
import os
import shutil
import subprocess
import sys
from concurrent.futures import ThreadPoolExecutor
import common
import t_reflectors

A = "Sympler.Props.C08."
B = "Sympler.PropsR.C08."
THEOREMS = [A + t for t in ["C08_time_decreases", "C08_loop_terminates", "C08_earliest", "C08_earliest_none", "C08_hit_in_closed_box",
                            "C08_confined_cuboid", "C08_count", "C08_count_run", "C08_edge_witness", "edgeP_hyps", "C08_edge_bounce_back_ok",
                            "C08_corner_chord_witness"]]
THEOREMS_R = [B + t for t in ["C08_mirror_normal", "C08_mirror_tangential", "C08_mirror_explicit", "C08_mirror_speed", "C08_mirror_speed_norm",
                              "C08_mirror_position", "C08_bounce_back", "C08_bounce_back_speed", "C08_stochastic_speed", "C08_stochastic_inward",
                              "C08_stochastic_position", "C08_reemitted_inside", "C08_mirror_rat_instance", "C08_bounce_back_rat_instance"]]
BR = ["Sympler.Collide." + t for t in ["Bridge_hitTime", "Bridge_wallHit", "Bridge_better", "Bridge_remaining", "Bridge_loop_constants"]]
MODULES = ["Sympler.Collide", "Sympler.CollideLemmas", "Sympler.CollideStepLemmas", "PropsR.Gen.ReflectorsReal", "Sympler.Gen.CollideGen", "Props.C08", "Props.CollideBridge", "PropsR.C08"]
TR2 = "translator t_collide (loop bound and per-pass reset of Cell::doCollision, earliest-hit comparison, WallTriangle::hit time tests, linear hit time, hitPos, epsilons)"
TR = "translator t_reflectors (ReflectorMirror / BounceBack / Stochastic ::reflect by symbolic execution)"


def run(ctx):
    ok, out = common.ensure_build("hooks", targets=("sympler",))
    ctx.oblige("hooked build of /repo", ok, out[-300:])
    try:
        common.write_if_changed(os.path.join(common.LEAN, "PropsR/Gen/ReflectorsReal.lean"), t_reflectors.generate(common.REPO))
        ctx.oblige(TR, True)
    except Exception as ex:
        ctx.oblige(TR, False, repr(ex))
    try:
        import t_collide
        common.write_if_changed(os.path.join(common.LEAN, "Sympler/Gen/CollideGen.lean"), t_collide.generate(common.REPO))
        ctx.oblige(TR2, True)
    except Exception as ex:
        ctx.oblige(TR2, False, repr(ex))
    common.lean_obligations(ctx, ["Props.C08", "Props.CollideBridge", "PropsR.C08", "Sympler.Collide", "symdrv"], ["Props.C08", "Props.CollideBridge", "PropsR.C08"], THEOREMS + BR + THEOREMS_R, MODULES)
    n = 120 if not ctx.thorough else 4000
    workers = 12
    per = (n + workers - 1) // workers
    env = dict(os.environ, SYMDRV=common.symdrv())
    base = os.path.join(common.WORK, "c08-%d" % os.getpid())

    def one(k):
        p = subprocess.run([sys.executable, os.path.join(common.VERIF, "sim", "corr_walls.py"), str(ctx.seed * 1000 + k), str(per), "--keep", os.path.join(base, "w%d" % k),
                            "--sympler", common.sympler()], stdout=subprocess.PIPE, stderr=subprocess.PIPE, text=True, env=env, timeout=14400)
        try:
            return json.loads(p.stdout)
        except Exception:
            return {"error": p.stdout[-300:] + p.stderr[-300:]}
    parts = []
    if ok and os.path.exists(common.symdrv()):
        with ThreadPoolExecutor(max_workers=workers) as ex:
            parts = list(ex.map(one, range(workers)))
    shutil.rmtree(base, ignore_errors=True)
    errs = [p["error"] for p in parts if "error" in p]
    parts = [p for p in parts if "error" not in p]
    tot = {k: sum(p.get(k, 0) for p in parts) for k in ("ncases", "compared_cases", "compared_steps", "oracle_cases", "oracle_steps", "hits_total", "steps_with_ge2_hits", "model_lost", "agree")}
    hist = {}
    for key in ("kinds", "periodic_combos", "reflectors", "model_err"):
        h = hist.setdefault(key, {})
        for p in parts:
            for a, b in p.get(key, {}).items():
                h[a] = h.get(a, 0) + b
    dis = [d for p in parts for d in p.get("disagreements", [])]
    fails = [f for p in parts for f in p.get("oracle_failures", [])]
    ctx.oblige("correspondence walls ran (%d scenarios, %d compared with the model in %d steps, %d wall hits, %d steps with >= 2 hits)"
               % (tot["ncases"], tot["compared_cases"], tot["compared_steps"], tot["hits_total"], tot["steps_with_ge2_hits"]),
               tot["compared_cases"] > 0 and not errs, str(errs)[:300])
    ctx.oblige("correspondence walls: outcome (kept / erased / error kind), velocity (exact), position (1e-12), cell of the real binary = Lean model `collide`",
               not dis, str([dict(what=d.get("what"), kind=d.get("kind"), r=d.get("r"), v=d.get("v")) for d in dis[:2]])[:500])
    known = [f["signature"] for f in common.known_findings().get("open", []) if f.get("property") == "C08"]
    unknown = [f for f in fails if not any(k in f["signature"] for k in known)]
    ctx.oblige("oracle on the real runs: particle number constant, inside the domain, speed, mirror law, bounce-back law (%d scenarios, %d steps; all reflectors, with and without forces); %d failures, all of them the recorded known finding(s) %s"
               % (tot["oracle_cases"], tot["oracle_steps"], len(fails), known), not unknown, str([dict(sig=f["signature"], what=f["what"]) for f in unknown[:2]])[:500])
    ctx.coverage.update(dict(evaluations=tot["ncases"], distinct_nontrivial=tot["oracle_cases"], traces_validated_against_impl=tot["compared_cases"],
                             rule="one free particle in a BoundaryCuboid (all 8 wall/periodic combinations), kinds headon / oblique / edge / corner / multi / endhit / graze / percross / chord / "
                                  "fast / stoch / force of sim/corr_walls.py, all three reflectors; non-trivial = the real run produced a dump the oracles were applied to; distinct by construction",
                             histogram=dict(hist, totals=tot), samples=[dict(kinds=hist.get("kinds"), first_oracle_failure=(fails[0] if fails else None))]))
    ctx.assumptions += ["PARTIAL: accelerated flight (quadratic hit times, GSL), grazing/edge decisions by c_wt_dist_eps in double arithmetic, triangulated STL walls and ReflectorStochastic in the loop are reached only by the oracles",
                        "eps = c_rm_disp_eps = 1e-10, delta = -c_wt_dist_eps = 1e-5, geps = g_geom_eps are passed to the model as the exact rationals of these doubles",
                        "NoEdge hypothesis of C08_confined_cuboid: exact edge/corner hits with ReflectorMirror lose the particle (C08_edge_witness; known finding)"]
    failing = [o[0] for o in ctx.obligations if not o[1]]
    if fails or failing:
        if fails:
            # every oracle failure is a violation on the real code; the ones listed in known_findings.json are printed as KNOWN-FINDING by Ctx.finish
            for sig in sorted({f["signature"] for f in fails}):
                f = [x for x in fails if x["signature"] == sig][0]
                ctx.violation("C08 violated on the real binary (%s): %s" % (sig, f["what"][:300]),
                              dict(kind="input", failing_obligations=failing, signature=sig, scenario=f,
                                   how_to_replay="one particle with the given r, v, dt, steps, box, periodicity, reflector (sim/corr_walls.py to_symlib); sympler in.xml; obs.txt"), True, signature=sig)
        if [o for o in failing if "oracle" not in o]:
            ctx.violation("C08 is no longer shown to hold: " + "; ".join([o for o in failing if "oracle" not in o][:3]),
                          dict(kind="proof-or-correspondence", failing_obligations=failing, lake_errors=getattr(ctx, "lake_errors", []),
                               first_differences=dis[:2]), bool(fails) and False)
