"""C08 — walls confine particles; reflection laws hold.   (PARTIAL: accelerated flight, rounding-decided geometry, STL walls)

proof:  PropsR/C08.lean (over R, about the reflector definitions REGENERATED from reflector_{mirror,bounce_back,stochastic}.h): mirror
        reverses exactly the normal component, keeps tangential ones and the speed; bounce-back reverses v; stochastic keeps the speed
        and re-emits inward for every pair of random numbers; r' = hit + eps n is inside; C08_*_rat_instance ties the generated
        definitions to the reflectors of the Rat model.  Props/C08.lean (collision loop model Sympler/Collide.lean, force-free):
        time strictly decreases per hit, earliest hit chosen, loop ends or reports the error, C08_confined_cuboid / C08_count_run
        (particle stays strictly inside, number constant over any number of steps) under NoEdge; C08_edge_witness: an EXACT edge hit
        with ReflectorMirror loses the particle (genuine defect, known finding)
tie:    T (translate/t_reflectors.py) and C: sim/corr_walls.py: outcome, velocity (exact), position, cell per step real binary = model
search: oracles on the real runs for all reflectors and also with forces: count, inside, speed, mirror law, bounce-back law
"""
import json
import os
import shutil
import subprocess
import sys
from concurrent.futures import ThreadPoolExecutor
import common
import t_reflectors

A = "Sympler.Props.C08."
B = "Sympler.PropsR.C08."
THEOREMS = [A + t for t in ["C08_time_decreases", "C08_loop_terminates", "C08_earliest", "C08_earliest_none", "C08_hit_in_closed_box",
                            "C08_confined_cuboid", "C08_count", "C08_count_run", "C08_edge_witness", "edgeP_hyps", "C08_edge_bounce_back_ok",
                            "C08_corner_chord_witness"]]
THEOREMS_R = [B + t for t in ["C08_mirror_normal", "C08_mirror_tangential", "C08_mirror_explicit", "C08_mirror_speed", "C08_mirror_speed_norm",
                              "C08_mirror_position", "C08_bounce_back", "C08_bounce_back_speed", "C08_stochastic_speed", "C08_stochastic_inward",
                              "C08_stochastic_position", "C08_reemitted_inside", "C08_mirror_rat_instance", "C08_bounce_back_rat_instance"]]
F = "Sympler.PropsR.C08F."
THEOREMS_F = [F + t for t in ["gslReal_spec", "insertionSort_spec", "C08F_sound", "C08F_sound_ge", "C08F_complete", "C08F_first_crossing", "C08F_sorted",
                              "firstHit_of_min", "C08F_hit_reports_first_crossing", "C08F_traj_is_hitPos", "C08F_timeEps"]]
TR3 = "translator t_hittime (IntegratorVelocityVerlet::solveHitTimeEquation statement by statement: both branches, every push_back, the sort, early returns)"
BR = ["Sympler.Collide." + t for t in ["Bridge_hitTime", "Bridge_wallHit", "Bridge_better", "Bridge_remaining", "Bridge_loop_constants"]]
MODULES = ["Sympler.Collide", "Sympler.CollideLemmas", "Sympler.CollideStepLemmas", "PropsR.Gen.ReflectorsReal", "Sympler.Gen.CollideGen", "Props.C08", "Props.CollideBridge", "PropsR.C08",
           "PropsR.Gen.HitTimeReal", "Sympler.Gen.HitTimeFloat", "Sympler.HitTimeDrv", "PropsR.C08Force"]
TR2 = "translator t_collide (loop bound and per-pass reset of Cell::doCollision, earliest-hit comparison, WallTriangle::hit time tests, linear hit time, hitPos, epsilons)"
TR = "translator t_reflectors (ReflectorMirror / BounceBack / Stochastic ::reflect by symbolic execution)"


def f2b(x):
    import struct
    return struct.unpack("<Q", struct.pack("<d", float(x)))[0]


def b2f(b):
    import struct
    return struct.unpack("<d", struct.pack("<Q", int(b)))[0]


def hittime_validation(ctx, ht_ok):
    """sampled differential evaluation: generated Float definition of solveHitTimeEquation (symdrv, GSL's formula transcribed)
    = the REAL member function (harness/h_hittime.cpp, real GSL), bit for bit; and WallTriangle::hit on an unbounded face returns the
    first result in (0, dt]"""
    import random
    from fractions import Fraction as Fr
    okh, o, binp = common.build_harness("h_hittime")
    ctx.oblige("harness h_hittime builds (real IntegratorVelocityVerlet, WallContainer, WallTriangle)", okh, o[-300:])
    r = random.Random(ctx.seed * 31 + 8)
    n = 400 if not ctx.thorough else 6000
    reqs = []
    for k in range(n):
        d, high, L = r.randrange(3), r.randrange(2), float(r.choice([2, 3, 4, 4.5]))
        sgn = -1.0 if high else 1.0
        mass = r.choice([1.0, 1.0, 2.0, 0.5, 1.5])
        pos = [r.uniform(0.1, L - 0.1) for _ in range(3)]
        vel = [r.choice([0.0, r.uniform(-2, 2), float(Fr(r.randint(-8, 8), 8))]) for _ in range(3)]
        frc = [r.choice([0.0, 0.0, r.uniform(-20, 20), float(2 ** r.randint(0, 5)) * r.choice([-1, 1])]) for _ in range(3)]
        kind = k % 8
        if kind == 0:
            # exact dyadic roots: receding from the wall, pulled back (the `pullback` family of sim/corr_walls.py)
            a = float(2 ** r.randint(1, 4)); t1 = float(Fr(r.randint(1, 7), 64)); vn = a * t1 * r.choice([0.5, 0.25, 0.75])
            dist = a * t1 * t1 - vn * t1
            pos[d] = L - dist if high else dist
            vel[d] = sgn * vn
            frc[d] = -sgn * 2 * a * mass
        elif kind == 1:
            frc[d] = 0.0                      # linear branch
        elif kind == 2:
            frc[d] = 0.0; vel[d] = 0.0        # a == 0 and b == 0: division by zero
        elif kind == 3:
            # double root: discriminant exactly zero  (c = b^2 / (4 a), dyadic)
            a = float(2 ** r.randint(0, 3)); b = -float(Fr(r.randint(1, 8), 4)); c = b * b / (4 * a)
            if c < L:
                pos[d] = L - c if high else c; vel[d] = sgn * b; frc[d] = sgn * 2 * a * mass
        elif kind == 4:
            # no real root: pushed away from the wall
            frc[d] = sgn * abs(frc[d] or 3.0); vel[d] = sgn * abs(vel[d])
        reqs.append((d, high, L, pos, vel, frc, mass, r.choice([0.125, 0.0625, 0.25, 1.0])))
    mism, nres, samples, hits = [], {}, [], 0
    if okh and ht_ok and os.path.exists(common.symdrv()):
        lines = []
        for (d, high, L, pos, vel, frc, mass, dt) in reqs:
            args = "%d %d %r %s %s %s %r" % (d, high, L, " ".join(repr(x) for x in pos), " ".join(repr(x) for x in vel), " ".join(repr(x) for x in frc), mass)
            lines.append("solve " + args)
            lines.append("hit " + args + " %r" % dt)
        rc, out = common.sh([binp], input="\n".join(lines) + "\n", timeout=600)
        real = out.splitlines()
        mlines = []
        for k, (d, high, L, pos, vel, frc, mass, dt) in enumerate(reqs):
            # the dot products with the wall normal are parameters of the generated definition: taken from the real evaluation
            w = real[2 * k].split() if 2 * k < len(real) else []
            dots = w[w.index("dots") + 1:w.index("dots") + 5] if "dots" in w else ["0", "0", "0", "0"]
            mlines.append("solve %d %d %s %s %s %s" % (f2b(0.0), f2b(mass), dots[0], dots[1], dots[2], dots[3]))
        model = common.run_model("hittime", mlines)
        for k, q in enumerate(reqs):
            rs = real[2 * k].split() if 2 * k < len(real) else ["?"]
            rh = real[2 * k + 1].split() if 2 * k + 1 < len(real) else ["?"]
            ms = model[k].split() if k < len(model) else ["?"]
            rtimes = rs[2:2 + int(rs[1])] if rs[0] == "times" else None
            mtimes = ms[2:] if ms[0] == "times" else None
            nres[len(rtimes) if rtimes is not None else -1] = nres.get(len(rtimes) if rtimes is not None else -1, 0) + 1
            same = rtimes is not None and mtimes is not None and len(rtimes) == len(mtimes) and all(
                a == b or (b2f(a) != b2f(a) and b2f(b) != b2f(b)) for a, b in zip(rtimes, mtimes))
            if not same:
                mism.append(dict(request=lines[2 * k], real=rs, generated=ms))
                continue
            # WallTriangle::hit on the unbounded face = first result t with eps < t (results beyond dt end the search)
            dt = q[7]
            exp = None
            for tb in rtimes:
                t = b2f(tb)
                if t > dt:
                    break
                if t > 0.0:
                    exp = tb
                    break
            got = rh[2] if (rh[0] == "hit" and rh[1] == "1") else None
            hits += got is not None
            if got != exp:
                mism.append(dict(request=lines[2 * k + 1], real=rh, expected_first_result_in_step=exp))
            elif len(samples) < 3 and rtimes:
                samples.append(dict(request=lines[2 * k], times=[b2f(x) for x in rtimes], hit=b2f(got) if got else None))
    ctx.oblige("translation validation: generated solveHitTimeEquation (Float, GSL formula transcribed) = real member function with real GSL, bit for bit, on %d sampled walls/particles/forces (result counts %s); WallTriangle::hit = first result in (0, dt] (%d hits)"
               % (len(reqs), dict(sorted(nres.items())), hits), okh and ht_ok and bool(nres) and not mism, str(mism[:2])[:600])
    ctx.coverage["hittime_validation"] = dict(samples=samples, result_count_histogram={str(k): v for k, v in nres.items()}, mismatches=len(mism))
    ctx.hittime_mismatch = mism[:3]


def run(ctx):
    ok, out = common.ensure_build("hooks", targets=("sympler",))
    ctx.oblige("hooked build of /repo", ok, out[-300:])
    try:
        common.write_if_changed(os.path.join(common.LEAN, "PropsR/Gen/ReflectorsReal.lean"), t_reflectors.generate(common.REPO))
        ctx.oblige(TR, True)
    except Exception as ex:
        ctx.oblige(TR, False, repr(ex))
    try:
        import t_collide
        common.write_if_changed(os.path.join(common.LEAN, "Sympler/Gen/CollideGen.lean"), t_collide.generate(common.REPO))
        ctx.oblige(TR2, True)
    except Exception as ex:
        ctx.oblige(TR2, False, repr(ex))
    ht_ok = True
    try:
        import t_hittime
        common.write_if_changed(os.path.join(common.LEAN, "PropsR/Gen/HitTimeReal.lean"), t_hittime.generate_real(common.REPO))
        common.write_if_changed(os.path.join(common.LEAN, "Sympler/Gen/HitTimeFloat.lean"), t_hittime.generate_float(common.REPO))
        ctx.oblige(TR3, True)
    except Exception as ex:
        ht_ok = False
        ctx.oblige(TR3, False, repr(ex))
    common.lean_obligations(ctx, ["Props.C08", "Props.CollideBridge", "PropsR.C08", "PropsR.C08Force", "Sympler.Collide", "symdrv"], ["Props.C08", "Props.CollideBridge", "PropsR.C08", "PropsR.C08Force"],
                            THEOREMS + BR + THEOREMS_R + THEOREMS_F, MODULES)
    hittime_validation(ctx, ht_ok)
    n = 120 if not ctx.thorough else 4000
    workers = 12
    per = (n + workers - 1) // workers
    env = dict(os.environ, SYMDRV=common.symdrv())
    base = os.path.join(common.WORK, "c08-%d" % os.getpid())

    def one(k):
        p = subprocess.run([sys.executable, os.path.join(common.VERIF, "sim", "corr_walls.py"), str(ctx.seed * 1000 + k), str(per), "--keep", os.path.join(base, "w%d" % k),
                            "--sympler", common.sympler()], stdout=subprocess.PIPE, stderr=subprocess.PIPE, text=True, env=env, timeout=14400)
        try:
            return json.loads(p.stdout)
        except Exception:
            return {"error": p.stdout[-300:] + p.stderr[-300:]}
    def corpus(_):
        p = subprocess.run([sys.executable, os.path.join(common.VERIF, "sim", "corr_walls.py"), "0", "0", "--corpus", "--keep", os.path.join(base, "corpus"),
                            "--sympler", common.sympler()], stdout=subprocess.PIPE, stderr=subprocess.PIPE, text=True, env=env, timeout=3600)
        try:
            return json.loads(p.stdout)
        except Exception:
            return {"error": p.stdout[-300:] + p.stderr[-300:]}
    parts = []
    if ok and os.path.exists(common.symdrv()):
        with ThreadPoolExecutor(max_workers=workers) as ex:
            parts = [corpus(0)] + list(ex.map(one, range(workers)))
    shutil.rmtree(base, ignore_errors=True)
    errs = [p["error"] for p in parts if "error" in p]
    parts = [p for p in parts if "error" not in p]
    tot = {k: sum(p.get(k, 0) for p in parts) for k in ("ncases", "compared_cases", "compared_steps", "oracle_cases", "oracle_steps", "hits_total", "steps_with_ge2_hits", "model_lost", "agree")}
    hist = {}
    for key in ("kinds", "periodic_combos", "reflectors", "model_err"):
        h = hist.setdefault(key, {})
        for p in parts:
            for a, b in p.get(key, {}).items():
                h[a] = h.get(a, 0) + b
    dis = [d for p in parts for d in p.get("disagreements", [])]
    fails = [f for p in parts for f in p.get("oracle_failures", [])]
    ctx.oblige("correspondence walls ran (%d scenarios, %d compared with the model in %d steps, %d wall hits, %d steps with >= 2 hits)"
               % (tot["ncases"], tot["compared_cases"], tot["compared_steps"], tot["hits_total"], tot["steps_with_ge2_hits"]),
               tot["compared_cases"] > 0 and not errs, str(errs)[:300])
    ctx.oblige("correspondence walls: outcome (kept / erased / error kind), velocity (exact), position (1e-12), cell of the real binary = Lean model `collide`",
               not dis, str([dict(what=d.get("what"), kind=d.get("kind"), r=d.get("r"), v=d.get("v")) for d in dis[:2]])[:500])
    known = [f["signature"] for f in common.known_findings().get("open", []) if f.get("property") == "C08"]
    unknown = [f for f in fails if not any(k in f["signature"] for k in known)]
    ctx.oblige("oracle on the real runs: particle number constant, inside the domain, speed, mirror law, bounce-back law (%d scenarios, %d steps; all reflectors, with and without forces); %d failures, %d of them NOT the recorded known finding(s) %s"
               % (tot["oracle_cases"], tot["oracle_steps"], len(fails), len(unknown), known), not unknown, str([dict(sig=f["signature"], what=f["what"]) for f in unknown[:2]])[:500])
    ctx.coverage.update(dict(evaluations=tot["ncases"], distinct_nontrivial=tot["oracle_cases"], traces_validated_against_impl=tot["compared_cases"],
                             rule="one free particle in a BoundaryCuboid (all 8 wall/periodic combinations), kinds headon / oblique / edge / corner / multi / endhit / graze / percross / chord / "
                                  "fast / stoch / force / pullback (receding from a wall, pulled back by a force) of sim/corr_walls.py, all three reflectors; non-trivial = the real run produced a dump the oracles were applied to; distinct by construction",
                             histogram=dict(hist, totals=tot), samples=[dict(kinds=hist.get("kinds"), first_oracle_failure=(fails[0] if fails else None))]))
    ctx.assumptions += ["PARTIAL: accelerated flight (quadratic hit times, GSL), grazing/edge decisions by c_wt_dist_eps in double arithmetic, triangulated STL walls and ReflectorStochastic in the loop are reached only by the oracles",
                        "eps = c_rm_disp_eps = 1e-10, delta = -c_wt_dist_eps = 1e-5, geps = g_geom_eps are passed to the model as the exact rationals of these doubles",
                        "NoEdge hypothesis of C08_confined_cuboid: exact edge/corner hits with ReflectorMirror lose the particle (C08_edge_witness; known finding)"]
    failing = [o[0] for o in ctx.obligations if not o[1]]
    if fails or failing:
        if fails:
            # every oracle failure is a violation on the real code; the ones listed in known_findings.json are printed as KNOWN-FINDING by Ctx.finish
            for sig in sorted({f["signature"] for f in fails}):
                f = [x for x in fails if x["signature"] == sig][0]
                ctx.violation("C08 violated on the real binary (%s): %s" % (sig, f["what"][:300]),
                              dict(kind="input", failing_obligations=failing, signature=sig, scenario=f,
                                   how_to_replay="one particle with the given r, v, dt, steps, box, periodicity, reflector (sim/corr_walls.py to_symlib); sympler in.xml; obs.txt"), True, signature=sig)
        hm = getattr(ctx, "hittime_mismatch", [])
        if hm:
            # the generated definition and the real member function differ on a concrete wall / particle / force: that input is the replay
            ctx.violation("C08: solveHitTimeEquation / WallTriangle::hit of the real code differs from its statement-level translation on a sampled input",
                          dict(kind="input", failing_obligations=failing, mismatches=hm, how_to_replay="echo '<request>' | .work/bin/h_hittime  (results as IEEE-754 bit patterns)"), True)
        elif [o for o in failing if "oracle" not in o] and not unknown:
            ctx.violation("C08 is no longer shown to hold: " + "; ".join([o for o in failing if "oracle" not in o][:3]),
                          dict(kind="proof-or-correspondence", failing_obligations=failing, lake_errors=getattr(ctx, "lake_errors", []),
                               first_differences=dis[:2]), bool(fails) and False)
