"""C12 — without 'randomize', a simulation is exactly reproducible.   (PARTIAL, see DESIGN.md)

proof:  Props/C12.lean — C12_sites (every entropy site of the source is non-semantic, randomize-guarded or made deterministic),
        C12_seed_const (with randomize = false no seed depends on pid/clock), by `decide` over the table of ALL entropy sites
tie:    T  translate/t_entropy.py regenerates the site table from /repo/source on every run
        C  (and oracle) scenarios combining stochastic and deterministic modules are run twice in separate processes with different
           pid, start second, $TMP, working directory, environment size; the observer dumps must be byte-identical
PARTIAL: uninitialised memory / pointer-ordered containers are run-time behaviour no executable model exhibits; they are reached
        only by the two-process comparison (and, in thorough, one valgrind run as supporting evidence).
"""
import hashlib
import os
import shutil
import time
from concurrent.futures import ThreadPoolExecutor
import common
import symlib
import t_entropy

THEOREMS = ["Sympler.Entropy.C12_sites", "Sympler.Entropy.C12_seed_const"]
MODULES = ["Sympler.Entropy", "Sympler.Gen.EntropyGen", "Props.C12"]

STOCH = {
    "FDPD": [["FDPD", {"species1": "fluid", "species2": "fluid", "weightingFunction": "default", "dissipation": "10", "kBToverM": "1"}]],
    "Frand": [["Frand", {"species1": "fluid", "species2": "fluid", "weightingFunction": "default", "noise": "1"}]],
    "PetersIso": [["ThermostatPetersIso", {"species1": "fluid", "species2": "fluid", "weightingFunction": "default", "dissipation": "1", "kBToverM": "1"}]],
    "uran": [["ParticleScalar", {"species": "fluid", "symbol": "q", "expression": "uran(1)"}],
             ["FParticleVels", {"species": "fluid", "expression": "uVecX(q-0.5)"}]],
    "PRNS": [["ParticleRandNormScalar", {"species": "fluid", "symbol": "g"}],
             ["FParticleVels", {"species": "fluid", "expression": "uVecY(g)"}]],
    "PairRand": [["PairRandScalar", {"species1": "fluid", "species2": "fluid", "symbol": "w", "cutoff": "1"}],
                 ["PairParticleScalar", {"species1": "fluid", "species2": "fluid", "symbol": "sw", "expression": "wij", "cutoff": "1", "symmetry": "1"}]],
}
DET = [["FPairVels", {"species1": "fluid", "species2": "fluid", "cutoff": "1", "pairFactor": "(1-rij)*[rij]"}],
       ["PairParticleScalar", {"species1": "fluid", "species2": "fluid", "symbol": "nn", "expression": "1", "cutoff": "1", "symmetry": "1"}]]


def gen_scenario(r):
    picks = r.sample(sorted(STOCH), r.randrange(1, 4))
    walls = r.random() < 0.5
    mods = [["Lucy", {"name": "default", "cutoff": "1"}]]
    order = []
    for p in picks:
        order += STOCH[p]
    order += [m for m in DET if r.random() < 0.7]
    if not any(m[0] in ("FPairVels", "FDPD", "Frand", "PairRandScalar", "PairParticleScalar") for m in order):
        order.append(DET[0])
    r.shuffle(order)
    # keep producer-before-consumer pairs textually valid (sympler resolves symbols at setup): consumers after producers
    def key(m):
        return 1 if m[0] in ("FParticleVels",) or (m[0] == "PairParticleScalar" and m[1].get("expression") == "wij") else 0
    order.sort(key=key)
    mods += order
    n = r.choice([3, 4])
    pc = ["ParticleCreatorLattice", {"species": "fluid", "nLatticePX": n, "nLatticePY": n, "nLatticePZ": n, "kBToverM": r.choice(["1", "4"])}]
    sc = {"box": ["3", "3", "3"], "periodic": [True, True, not walls],
          "phase_attrs": {"randomPairs": r.random() < 0.4},
          "controller": {"dt": r.choice(["1/64", "1/32"]), "timesteps": r.randrange(3, 7)},
          "integrators": [["IntegratorVelocityVerlet", {"species": "fluid", "lambda": "1/2", "mass": "1"}]],
          "modules": mods,
          "boundary_children": [["ReflectorStochastic" if walls else "ReflectorMirror", {}], pc],
          "particles": []}
    return sc, dict(stochastic=sorted(picks + (["ReflectorStochastic"] if walls else []) + ["lattice velocities"] + (["randomPairs"] if sc["phase_attrs"]["randomPairs"] else [])))


def digest(path):
    h = hashlib.sha256()
    h.update(open(path, "rb").read())
    return h.hexdigest()


def run_twice(args):
    idx, sc, base = args
    res = []
    for k in range(2):
        d = os.path.join(base, "c%d_%s" % (idx, "a" if k == 0 else "b/deeper/dir"))
        shutil.rmtree(d, ignore_errors=True)
        symlib.write_case(d, sc)
        env = {"VERIF_PADDING": "x" * (17 + 4000 * k)}
        rc, out = symlib.run_sympler(d, common.sympler(), timeout=180, env=env)
        if rc != 0:
            return dict(idx=idx, error="sympler failed: " + out[-300:])
        res.append(digest(os.path.join(d, "obs.txt")))
        if k == 0:
            time.sleep(1.1)           # the second process starts in another second (time(NULL)) and has another pid
    out = dict(idx=idx, same=res[0] == res[1])
    if not out["same"]:
        a = open(os.path.join(base, "c%d_a" % idx, "obs.txt")).read().splitlines()
        b = open(os.path.join(base, "c%d_b/deeper/dir" % idx, "obs.txt")).read().splitlines()
        first = next((i for i in range(min(len(a), len(b))) if a[i] != b[i]), None)
        out["first_difference"] = dict(line=first, run1=a[first][:200] if first is not None else None, run2=b[first][:200] if first is not None else None)
    return out


def run(ctx):
    r = common.rng(ctx.seed, "c12")
    ok, out = common.ensure_build("hooks", targets=("sympler",))
    ctx.oblige("hooked build of /repo", ok, out[-300:])
    try:
        gen = t_entropy.generate(common.REPO)
        common.write_if_changed(os.path.join(common.LEAN, "Sympler/Gen/EntropyGen.lean"), gen)
        nsites = gen.count("⟨")
        ctx.oblige("translator t_entropy (table of %d entropy sites)" % nsites, nsites > 5)
    except Exception as ex:
        ctx.oblige("translator t_entropy", False, repr(ex))
    common.lean_obligations(ctx, ["Sympler.Entropy", "Props.C12"], ["Props.C12"], THEOREMS, MODULES)
    n = 12 if not ctx.thorough else 400
    base = os.path.join(common.WORK, "c12-%d" % os.getpid())
    results = []
    metas = []
    if ok:
        jobs = []
        for i in range(n):
            sc, meta = gen_scenario(r)
            metas.append(meta)
            jobs.append((i, sc, base))
        with ThreadPoolExecutor(max_workers=12) as ex:
            results = list(ex.map(run_twice, jobs))
    # supporting evidence for the PARTIAL part (uninitialised memory): memcheck on a few stochastic scenarios
    vg_runs, vg_bad = 0, []
    if ok and shutil.which("valgrind"):
        for k in range(2 if not ctx.thorough else 10):
            sc, meta = gen_scenario(r)
            d = os.path.join(base, "vg%d" % k)
            shutil.rmtree(d, ignore_errors=True)
            symlib.write_case(d, sc)
            rc, out = common.sh(["valgrind", "-q", "--error-exitcode=9", "--undef-value-errors=yes", common.sympler(), "in.xml"], cwd=d, timeout=1800)
            vg_runs += 1
            if rc == 9 or "uninitialised" in out or "Invalid read" in out or "Invalid write" in out:
                vg_bad.append(dict(scenario=sc, ingredients=meta, report=[l for l in out.splitlines() if l.startswith("==")][:12]))
            shutil.rmtree(d, ignore_errors=True)
        ctx.oblige("valgrind memcheck on %d stochastic scenarios: no use of uninitialised values, no invalid read/write (supporting evidence for the part no model can exhibit)" % vg_runs,
                   not vg_bad, str(vg_bad[:1])[:400])
    bad = [x for x in results if not x.get("same")]
    hist = {}
    for m in metas:
        for s in m["stochastic"]:
            hist[s] = hist.get(s, 0) + 1
    ctx.oblige("two-process comparison: %d scenarios run twice (different pid, start second, $TMP, cwd, environment size) give byte-identical observer dumps" % len(results),
               len(results) > 0 and not bad, str(bad[:1])[:500])
    ctx.coverage.update(dict(evaluations=2 * len(results), distinct_nontrivial=len({str(m) for m in metas}),
                             rule="scenarios = random combinations of 1-3 stochastic modules (DPD force, random force, Peters thermostat, uran expression, normal random symbol, per-pair random symbol) with stochastic reflector at walls, random lattice velocities, random pair order and deterministic pair forces/sums; each run twice; non-trivial = contains at least one stochastic ingredient (all do); distinct = distinct ingredient sets",
                             samples=metas[:3], histogram=hist, traces_validated_against_impl=len(results)))
    ctx.assumptions += ["PARTIAL: uninitialised memory and address-ordered containers can only show up in the two-process comparison",
                        "ParticleCreatorTube seeds with time(0) only when randomize = true; modules with an explicit 'seed' attribute use that constant"]
    if not all(o[1] for o in ctx.obligations):
        failing = [o[0] for o in ctx.obligations if not o[1]]
        if bad and "same" in bad[0]:
            i = bad[0]["idx"]
            ctx.violation("C12 violated: two runs of the same input with randomize off differ",
                          dict(kind="input", failing_obligations=failing, scenario=jobs[i][1], ingredients=metas[i], first_difference=bad[0].get("first_difference"),
                               how_to_replay="symlib.write_case(dir, scenario); run sympler in.xml twice at least one second apart; compare obs.txt"), True)
        else:
            ctx.violation("C12 is no longer shown to hold: " + "; ".join(failing[:3]),
                          dict(kind="proof-or-runs", failing_obligations=failing, lake_errors=getattr(ctx, "lake_errors", []), runs=bad[:2]), False)
    shutil.rmtree(base, ignore_errors=True)
