"""Shared by C01 and C09: translator t_cells, Lean obligations, the `grid` correspondence (sim/corr_grid.py) and its oracle."""
import json
import os
import shutil
import subprocess
import sys
import common
import t_cells

GEN = "Sympler/Gen/CellTablesGen.lean"
TR_NAME = "translator t_cells (c_offsets, OFFSET2NEIGHBOR, INV_NEIGHBOR, TOCELLINDEX, cellDist, addPair with its cutoff test, checkNewPosition offset and re-entry position)"


TR_SITES = "translator t_createdist (every call site of createDistancesForSame / createDistancesForDifferent in CellLink::createDistances, loop skeleton checked; the model's linkPairs interprets the table)"
SITE_THEOREMS = ["Sympler.CreateDist.C01_call_sites_wellformed", "Sympler.CreateDist.C01_call_sites_cover", "Sympler.CreateDist.C13_call_sites_mirror",
                 "Sympler.PairSearch.sites_branch2", "Sympler.PairSearch.branch2_complete", "Sympler.PairSearch.branch2_sound",
                 "Sympler.PairSearch.sites_branch3", "Sympler.PairSearch.branch3_complete", "Sympler.PairSearch.branch3_sound",
                 "Sympler.PairSearch.sites_branch1", "Sympler.PairSearch.branch1_complete", "Sympler.PairSearch.branch1_sound",
                 "Sympler.PairSearch.mem_forSame", "Sympler.PairSearch.sites_branch0", "Sympler.PairSearch.branch0_iff"]
SITE_MODULES = ["Sympler.Gen.CreateDistGen", "Props.CreateDist", "Props.PairSearchSites"]


def translate(ctx):
    try:
        import t_createdist
        common.write_if_changed(os.path.join(common.LEAN, "Sympler/Gen/CreateDistGen.lean"), t_createdist.generate(common.REPO))
        ctx.oblige(TR_SITES, True)
    except Exception as ex:
        ctx.oblige(TR_SITES, False, repr(ex))
    try:
        gen = t_cells.generate(common.REPO)
        common.write_if_changed(os.path.join(common.LEAN, GEN), gen)
        return ctx.oblige(TR_NAME, True)
    except Exception as ex:
        return ctx.oblige(TR_NAME, False, repr(ex))


def run_corr(ctx, ncases, tag):
    """runs sim/corr_grid.py; returns (summary dict | None, keep dir)"""
    keep = os.path.join(common.WORK, "%s-%d" % (tag, os.getpid()))
    shutil.rmtree(keep, ignore_errors=True)
    env = dict(os.environ, SYMDRV=common.symdrv(), SYMPLER=common.sympler())
    p = subprocess.run([sys.executable, os.path.join(common.VERIF, "sim", "corr_grid.py"), str(ctx.seed), str(ncases), "--keep", keep, "--jobs", "12"],
                       stdout=subprocess.PIPE, stderr=subprocess.PIPE, text=True, env=env, timeout=7200)
    try:
        return json.loads(p.stdout), keep
    except Exception:
        common.log("corr_grid output not JSON: " + p.stdout[-300:] + p.stderr[-300:])
        return None, keep


def scenario_of(keep, case):
    try:
        return json.load(open(os.path.join(keep, "case%04d" % case, "scenario.json")))
    except Exception:
        return None


def is_pair_line(d):
    """does a disagreement concern the pair list (C01) rather than the cell/link bookkeeping (C09)?"""
    txt = (d.get("model") or "") + " " + (d.get("code") or "")
    return txt.lstrip().startswith("pair ") or " pair " in txt[:8] or (d.get("code") or "").startswith("pair ") or (d.get("model") or "").startswith("pair ")


def coverage(ctx, summ, extra_rule):
    ex = summ.get("exercised", {})
    ctx.coverage.update(dict(
        evaluations=summ.get("cases", 0), distinct_nontrivial=summ.get("cases_compared", 0),
        traces_validated_against_impl=summ.get("cases_compared", 0), states_compared=summ.get("states_compared", 0),
        rule="force-free scenarios of sim/corr_grid.py: boxes of 2-5 cells per direction (incl. exactly 2), all 8 periodicities, 1-3 species with per-pair "
             "cutoffs, free/frozen mixes, particles on/near faces, edges, corners and across periodic faces, 4-12 steps with velocities that empty and "
             "refill cells; every dumped state (cells, lists, counters, active lists, links, pair lists, positions) compared line by line with the Lean "
             "model `grid`; non-trivial = scenario ran and was compared; distinct by construction (one PRNG stream). " + extra_rule,
        histogram=dict(distribution=summ.get("distribution"), exercised=ex),
        samples=[dict(distribution_kinds=summ.get("distribution", {}).get("kinds"), shapes=summ.get("distribution", {}).get("shapes"))]))
