"""C19 — bonded interactions act on exactly the listed bonds, with the current minimum-image separation.

proof:  Props/C19.lean — C19_current_periodic (minimum image), C19_current_nonperiodic (plain difference, no wrap through walls),
        C19_init_eq_update, C19_once, C19_independent about Sympler/Bonds.lean and the per-component treatment regenerated from
        colour_pair.cpp (translate/t_bonds.py: three sites, with their periodicity guard)
tie:    T and C: bonded scenarios on the real binary (observer: every bonded list entry with its vector, forces) vs the Lean driver
search: oracle on the dumps: listed bonds = connector file, vector = minimum image / plain difference, forces = sums over bonds
"""
import os
import shutil
from concurrent.futures import ThreadPoolExecutor
import common
import symlib
import corr_bonds as cb
import t_bonds

P = "Sympler.Bonds."
THEOREMS = [P + t for t in ["C19_current_periodic", "C19_current_nonperiodic", "C19_init_eq_update", "C19_once", "C19_independent"]]
MODULES = ["Sympler.Bonds", "Sympler.Gen.BondsGen", "Props.C19"]


def one_case(args):
    idx, seed, base = args
    import random
    r = random.Random("%s/c19/%d" % (seed, idx))
    sc, meta = cb.gen_case(r)
    d = os.path.join(base, "c%d" % idx)
    shutil.rmtree(d, ignore_errors=True)
    symlib.write_case(d, sc)
    rc, out = symlib.run_sympler(d, common.sympler(), timeout=120)
    res = dict(idx=idx, scenario=sc, meta={k: str(v) for k, v in meta.items()}, diffs=[], errors=[], nbond_evals=0)
    if rc != 0:
        res["diffs"].append("sympler failed: " + out[-300:])
        return res
    steps = symlib.parse_obs(os.path.join(d, "obs.txt"))
    for st in steps:
        for e in cb.oracle_step(st, sc, meta):
            res["errors"].append("step %d: %s" % (st["step"], e))
        lines, exp, skipped = cb.model_lines(st, meta)
        res["skipped"] = res.get("skipped", 0) + skipped
        got = common.run_model("bonds", lines)
        res["nbond_evals"] += len(exp)
        if got != exp:
            k = next((i for i in range(max(len(got), len(exp))) if (got[i] if i < len(got) else None) != (exp[i] if i < len(exp) else None)), 0)
            res["diffs"].append("step %d: model %r real %r" % (st["step"], got[k] if k < len(got) else None, exp[k] if k < len(exp) else None))
    return res


def run(ctx):
    ok, out = common.ensure_build("hooks", targets=("sympler",))
    ctx.oblige("hooked build of /repo", ok, out[-300:])
    try:
        gen = t_bonds.generate(common.REPO)
        common.write_if_changed(os.path.join(common.LEAN, "Sympler/Gen/BondsGen.lean"), gen)
        ctx.oblige("translator t_bonds (three wrap sites of colour_pair.cpp with their periodicity guard)", True)
    except Exception as ex:
        ctx.oblige("translator t_bonds (three wrap sites of colour_pair.cpp with their periodicity guard)", False, repr(ex))
    common.lean_obligations(ctx, ["Sympler.Bonds", "Props.C19", "symdrv"], ["Props.C19"], THEOREMS, MODULES)
    n = 40 if not ctx.thorough else 2000
    base = os.path.join(common.WORK, "c19-%d" % os.getpid())
    results = []
    if ok and os.path.exists(common.symdrv()):
        with ThreadPoolExecutor(max_workers=8) as ex:
            results = list(ex.map(one_case, [(i, ctx.seed, base) for i in range(n)]))
        shutil.rmtree(base, ignore_errors=True)
    diffs = [r for r in results if r["diffs"]]
    errs = [r for r in results if r["errors"]]
    hist = {"topology": {}, "verlet": 0, "two_species": 0, "walled_dirs": {}}
    for r in results:
        hist["topology"][r["meta"]["topology"]] = hist["topology"].get(r["meta"]["topology"], 0) + 1
        hist["verlet"] += r["meta"]["verlet"] == "True"
        hist["two_species"] += r["meta"]["species"] == "2"
        w = r["meta"]["periodic"].count("False")
        hist["walled_dirs"][w] = hist["walled_dirs"].get(w, 0) + 1
    nev = sum(r["nbond_evals"] for r in results)
    hist["bonds_not_exactly_representable_skipped_in_model_comparison"] = sum(r.get("skipped", 0) for r in results)
    ctx.oblige("correspondence bonds: refreshed vector of every listed bond, real binary = Lean model (%d bond evaluations in %d scenarios)" % (nev, len(results)),
               len(results) > 0 and not diffs, str([d["diffs"][:2] for d in diffs[:1]])[:500])
    ctx.oblige("oracle on the real runs: listed bonds = connector file, current minimum-image / plain separation, forces = sums over bonds",
               not errs, str([e["errors"][:2] for e in errs[:1]])[:500])
    ctx.coverage.update(dict(evaluations=len(results), distinct_nontrivial=sum(1 for r in results if r["nbond_evals"] > 0),
                             rule="bonded scenarios: 3-8 particles of 1-2 species, chains / rings / random / two lists / longest pairs, boxes 4-8 with 0-3 walled directions, velocities through periodic faces, both pair creators, 2-5 steps with the bonded force moving the particles; non-trivial = at least one bond evaluated; distinct by construction (one PRNG stream per case)",
                             samples=[dict(meta=r["meta"], connectors=r["scenario"]["connectors"]) for r in results[:2]], histogram=hist,
                             traces_validated_against_impl=len(results)))
    ctx.assumptions += ["positions of bonded partners lie inside the box (difference in (-L, L)), as C09 guarantees",
                        "iteration over a connected list visits each entry once (C15)"]
    if not all(o[1] for o in ctx.obligations):
        failing = [o[0] for o in ctx.obligations if not o[1]]
        if errs:
            e = errs[0]
            ctx.violation("C19 violated on the real binary: " + e["errors"][0][:200],
                          dict(kind="input", failing_obligations=failing, scenario=e["scenario"], meta=e["meta"], errors=e["errors"][:3],
                               how_to_replay="symlib.write_case(dir, scenario); sympler in.xml; VBOND lines of obs.txt"), True)
        else:
            ctx.violation("C19 is no longer shown to hold: " + "; ".join(failing[:3]),
                          dict(kind="proof-or-correspondence", failing_obligations=failing, lake_errors=getattr(ctx, "lake_errors", []),
                               first_differences=[dict(meta=d["meta"], diffs=d["diffs"][:2]) for d in diffs[:2]]), False)
