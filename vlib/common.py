"""Shared machinery of the /verif checks: builds, translators, lake, axiom audit, evidence, findings.

Every check is  ./check <Cxx> quick|thorough  and follows DESIGN.md section 1.6:
  1. hooked build of /repo's working tree          (ensure_build)
  2. translators regenerate lean/Sympler/Gen/*      (run_translators)
  3. lake build of the property's modules + audit   (lean_obligations)
  4. correspondence run(s)                          (property module)
  5. violation search when 3 or 4 failed            (property module)
  6. evidence file
"""
import fcntl
import hashlib
import json
import os
import re
import shutil
import subprocess
import sys
import time

VERIF = os.path.dirname(os.path.dirname(os.path.abspath(__file__)))
REPO = os.environ.get("VERIF_REPO", "/repo")
WORK = os.path.join(VERIF, ".work")
LEAN = os.path.join(VERIF, "lean")
BIN = os.path.join(WORK, "bin")
GUARD = "KAUZLARI_SYMPLER_VERIF"
ALLOWED_AXIOMS = {"propext", "Classical.choice", "Quot.sound"}
FORBIDDEN = re.compile(r"\bsorry\b|\badmit\b|^\s*axiom\s|native_decide|bv_decide|implemented_by|\bunsafe\s|maxHeartbeats\s+0")

TRUSTED_BASE = [
    "Lean 4.33 kernel (thorough tier: re-checked by leanchecker)",
    "axioms propext, Classical.choice, Quot.sound only (audited with #print axioms on every run)",
    "the Lean statements in lean/Props and lean/PropsR",
    "translators in /verif/translate (regenerate lean/Sympler/Gen from /repo's source on every run)",
    "correspondence harnesses in /verif/harness and /verif/sim (differential testing model vs real code)",
    "g++, libstdc++, libc, GSL, libxml2, gcc used by sympler at run time, the OS",
]


def log(*a):
    print(*a, file=sys.stderr, flush=True)


def sh(cmd, cwd=None, timeout=None, env=None, input=None):
    """run a command, return (rc, stdout+stderr)"""
    e = dict(os.environ)
    if env:
        e.update(env)
    try:
        p = subprocess.run(cmd, cwd=cwd, shell=isinstance(cmd, str), stdout=subprocess.PIPE, stderr=subprocess.STDOUT,
                           timeout=timeout, env=e, input=input, text=True, errors="replace")
        return p.returncode, p.stdout
    except subprocess.TimeoutExpired as ex:
        out = ex.stdout if isinstance(ex.stdout, str) else (ex.stdout or b"").decode(errors="replace")
        return 124, out + "\n[timeout]"


class Lock:
    def __init__(self, name):
        os.makedirs(WORK, exist_ok=True)
        self.path = os.path.join(WORK, name + ".lock")

    def __enter__(self):
        self.f = open(self.path, "w")
        fcntl.flock(self.f, fcntl.LOCK_EX)
        return self

    def __exit__(self, *a):
        fcntl.flock(self.f, fcntl.LOCK_UN)
        self.f.close()


# ---------------------------------------------------------------------------- builds of /repo

FLAVOURS = {
    "hooks": "-Wno-error -D%s" % GUARD,
    "omp": "-Wno-error -fopenmp -D%s" % GUARD,
    "base": "-Wno-error",
}


def build_dir(flavour="hooks"):
    return os.path.join(WORK, "build-" + flavour)


def ensure_build(flavour="hooks", targets=("sympler",)):
    """(re)build /repo's working tree with the given flags; incremental.  Returns (ok, log)."""
    b = build_dir(flavour)
    with Lock("build-" + flavour):
        t0 = time.time()
        if not os.path.exists(os.path.join(b, "build.ninja")):
            rc, out = sh(["cmake", "-G", "Ninja", "-S", REPO, "-B", b, "-DCMAKE_BUILD_TYPE=RelWithDebInfo",
                          "-DCMAKE_CXX_FLAGS=" + FLAVOURS[flavour]], timeout=600)
            if rc != 0:
                return False, out
        rc, out = sh(["cmake", "--build", b, "-j", str(os.cpu_count() or 8), "--target"] + list(targets), timeout=3000)
        if rc != 0:
            # a changed CMakeLists or stale cache: one retry from a fresh configure
            rc2, out2 = sh(["cmake", "-S", REPO, "-B", b], timeout=600)
            rc, out = sh(["cmake", "--build", b, "-j", str(os.cpu_count() or 8), "--target"] + list(targets), timeout=3000)
        log("[build %s] rc=%d %.1fs" % (flavour, rc, time.time() - t0))
        return rc == 0, out[-4000:]


def sympler(flavour="hooks"):
    return os.path.join(build_dir(flavour), "sympler")


def build_harness(name, extra=(), flavour="hooks", src=None):
    """compile harness/<name>.cpp against the hooked static libraries -> .work/bin/<name>"""
    os.makedirs(BIN, exist_ok=True)
    src = src or os.path.join(VERIF, "harness", name + ".cpp")
    out = os.path.join(BIN, name)
    with Lock("harness-" + name):
        rc, o = sh([os.path.join(VERIF, "harness", "build_harness.sh"), src, out] + list(extra),
                   env={"VERIF_BUILD_DIR": build_dir(flavour), "VERIF_REPO": REPO}, timeout=900)
    return rc == 0, o, out


# ---------------------------------------------------------------------------- lean

def write_if_changed(path, content):
    old = None
    if os.path.exists(path):
        old = open(path).read()
    if old != content:
        os.makedirs(os.path.dirname(path), exist_ok=True)
        open(path, "w").write(content)
        return True
    return False


def regen_all():
    """run EVERY translator and rewrite lean/**/Gen/*.lean from /repo's current working tree, so that no generated file is stale
    (left over from a run on a differently patched tree).  A translator that fails leaves its file as it is: the property that
    owns it runs it again itself and reports the failure as an obligation."""
    sys.path.insert(0, os.path.join(VERIF, "translate"))
    import importlib
    table = [("t_bonds", "generate", ["Sympler/Gen/BondsGen.lean"]), ("t_cells", "generate", ["Sympler/Gen/CellTablesGen.lean"]),
             ("t_dataformat", "generate", ["Sympler/Gen/DataFormatGen.lean"]), ("t_entropy", "generate", ["Sympler/Gen/EntropyGen.lean"]),
             ("t_funccompile", "generate", ["Sympler/Gen/FuncCompileGen.lean"]), ("t_kernels", "generate_real", ["PropsR/Gen/KernelsReal.lean"]),
             ("t_kernels", "generate_float", ["Sympler/Gen/KernelsFloat.lean"]), ("t_reflectors", "generate", ["PropsR/Gen/ReflectorsReal.lean"]),
             ("t_restart", "generate", ["Sympler/Gen/RestartGen.lean"]), ("t_smartlist", "generate", ["Sympler/Gen/SmartListGen.lean"]),
             ("t_verlet", "generate", ["Sympler/Gen/VerletGen.lean"]), ("t_exprtable", "generate", ["Sympler/Gen/ExprTableGen.lean"]),
             ("t_dyn", "generate", ["Sympler/Gen/DynGen.lean"]), ("t_validate", "generate", ["Sympler/Gen/ValidateGen.lean"]), ("t_collide", "generate", ["Sympler/Gen/CollideGen.lean"]), ("t_threads", "generate", ["Sympler/Gen/ThreadsGen.lean"]), ("t_stages", "generate", ["Sympler/Gen/StagesGen.lean"]), ("t_celllists", "generate", ["Sympler/Gen/CellListsGen.lean"]), ("t_pairguards", "generate", ["Sympler/Gen/PairGuardsGen.lean"]),
             ("t_forceslots", "generate", ["Sympler/Gen/ForceSlotsGen.lean"]), ("t_createdist", "generate", ["Sympler/Gen/CreateDistGen.lean"]), ("t_pairlists", "generate", ["Sympler/Gen/PairListsGen.lean"]), ("t_intloops", "generate", ["Sympler/Gen/IntLoopsGen.lean"]), ("t_disp", "generate", ["Sympler/Gen/DispGen.lean"]), ("t_integlambda", "generate", ["Sympler/Gen/IntegLambdaGen.lean"]), ("t_hittime", "generate_real", ["PropsR/Gen/HitTimeReal.lean"]), ("t_hittime", "generate_float", ["Sympler/Gen/HitTimeFloat.lean"])]
    with Lock("regen"):
        for mod, fn, outs in table:
            try:
                m = importlib.import_module(mod)
            except ImportError:
                continue
            try:
                f = getattr(m, fn)
                txt = f(REPO, WORK) if mod == "t_dataformat" else f(REPO)
                if isinstance(txt, str):
                    txt = [txt]
                for o, t in zip(outs, txt):
                    if write_if_changed(os.path.join(LEAN, o), t):
                        log("[regen] %s rewritten" % o)
            except Exception as ex:
                # a generated file may be stale (written from a differently patched tree): fall back to the committed version
                for o in outs:
                    sh(["git", "-C", VERIF, "checkout", "--", os.path.join("lean", o)])
                log("[regen] %s.%s failed (committed version restored): %r" % (mod, fn, ex))


def lake_build(targets, timeout=3000):
    with Lock("lake"):
        t0 = time.time()
        rc, out = sh(["lake", "build"] + list(targets), cwd=LEAN, timeout=timeout)
        log("[lake build %s] rc=%d %.1fs" % (" ".join(targets), rc, time.time() - t0))
    return rc == 0, out


def symdrv():
    return os.path.join(LEAN, ".lake", "build", "bin", "symdrv")


def run_model(model, lines, timeout=600):
    """run the native Lean driver on the given protocol lines; returns list of output lines"""
    inp = "model %s\n" % model + "\n".join(lines) + "\n"
    rc, out = sh([symdrv()], input=inp, timeout=timeout)
    if rc != 0:
        raise RuntimeError("symdrv failed rc=%d: %s" % (rc, out[-500:]))
    return out.splitlines()


def failed_decls(lake_out):
    """names of modules/lines lake reports as failing (for the replay file)"""
    errs = []
    for l in lake_out.splitlines():
        if l.startswith("error:") or "error:" in l[:60]:
            errs.append(l.strip()[:300])
    return errs[:40]


def audit_axioms(module_imports, theorems):
    """#print axioms for every theorem; returns dict thm -> sorted list of axioms, or raises"""
    os.makedirs(os.path.join(WORK, "audit"), exist_ok=True)
    key = hashlib.sha1((" ".join(module_imports) + " ".join(theorems)).encode()).hexdigest()[:12]
    path = os.path.join(WORK, "audit", "Audit_%s.lean" % key)
    src = "".join("import %s\n" % m for m in module_imports) + "".join("#print axioms %s\n" % t for t in theorems)
    open(path, "w").write(src)
    with Lock("lake"):
        rc, out = sh(["lake", "env", "lean", path], cwd=LEAN, timeout=1200)
    res = {}
    cur = None
    # output format: "'name' depends on axioms: [a, b]"  (possibly wrapped) or "'name' does not depend on any axioms"
    text = out.replace("\n ", " ")
    for m in re.finditer(r"'([^']+)' (depends on axioms: \[([^\]]*)\]|does not depend on any axioms)", text):
        name = m.group(1)
        ax = [a.strip() for a in (m.group(3) or "").split(",") if a.strip()]
        res[name] = sorted(ax)
    missing = [t for t in theorems if t not in res and t.split(".")[-1] not in [k.split(".")[-1] for k in res]]
    return rc, res, missing, out


def grep_forbidden(files):
    """forbidden tokens outside comments in the given lean files"""
    hits = []
    for f in files:
        try:
            txt = open(f).read()
        except OSError:
            continue
        # strip block comments and line comments
        txt2 = re.sub(r"/-.*?-/", lambda m: "\n" * m.group(0).count("\n"), txt, flags=re.S)
        for i, line in enumerate(txt2.splitlines(), 1):
            line = line.split("--")[0]
            if FORBIDDEN.search(line):
                hits.append("%s:%d: %s" % (os.path.relpath(f, VERIF), i, line.strip()[:120]))
    return hits


def lean_files_of(modules):
    out = []
    for m in modules:
        out.append(os.path.join(LEAN, m.replace(".", "/") + ".lean"))
    return out


def leanchecker(modules):
    bad = []
    for m in modules:
        with Lock("lake"):
            rc, out = sh(["lake", "env", "leanchecker", m], cwd=LEAN, timeout=1800)
        if rc != 0:
            bad.append((m, out[-400:]))
    return bad


# ---------------------------------------------------------------------------- findings / evidence / verdict

def known_findings():
    p = os.path.join(VERIF, "known_findings.json")
    if not os.path.exists(p):
        return {"open": [], "fixed": []}
    return json.load(open(p))


class Ctx:
    def __init__(self, pid, tier, seed, replay=None):
        self.pid = pid
        self.tier = tier
        self.seed = seed
        self.replay = replay
        self.t0 = time.time()
        self.obligations = []      # (name, ok, detail)
        self.violations = []       # dict(replay=path, found_input=bool, what=str, signature=str)
        self.coverage = {}
        self.assumptions = []
        self.level = "proof"

    @property
    def thorough(self):
        return self.tier == "thorough"

    def oblige(self, name, ok, detail=""):
        self.obligations.append((name, bool(ok), detail))
        if not ok:
            log("[obligation FAILED] %s %s" % (name, detail[:300]))
        return ok

    def write_replay(self, tag, obj):
        d = os.path.join(VERIF, "replays")
        os.makedirs(d, exist_ok=True)
        h = hashlib.sha1(json.dumps(obj, sort_keys=True, default=str).encode()).hexdigest()[:10]
        p = os.path.join(d, "%s-%s-%s.json" % (self.pid, tag, h))
        json.dump(obj, open(p, "w"), indent=1, default=str)
        return p

    def violation(self, what, replay_obj, found_input, signature=None):
        path = self.write_replay("viol", dict(replay_obj, property=self.pid, what=what, failing_input_found=found_input, seed=self.seed, tier=self.tier,
                                              replay_note="./check %s %s --replay <this file> re-runs the check with this seed and tier; the scenario / op sequence / expression above is the concrete failing case" % (self.pid, self.tier)))
        self.violations.append(dict(replay=path, found_input=found_input, what=what, signature=signature or what))

    def finish(self):
        kf = known_findings()
        opens = [f for f in kf.get("open", []) if f.get("property") == self.pid]
        rc = 0
        nviol = 0
        printed_known = set()
        for v in self.violations:
            matched = None
            for f in opens:
                if f.get("signature") and f["signature"] in (v.get("signature") or ""):
                    matched = f
            if matched:
                if matched["signature"] not in printed_known:
                    print("KNOWN-FINDING: property=%s %s" % (self.pid, matched.get("what", matched["signature"])))
                    printed_known.add(matched["signature"])
                continue
            nviol += 1
            rc = 1
            tail = "" if v["found_input"] else " no-failing-input-found"
            print("VIOLATION property=%s replay=%s%s" % (self.pid, v["replay"], tail))
        nob = len(self.obligations)
        ndis = sum(1 for o in self.obligations if o[1])
        cov = dict(self.coverage)
        cov.setdefault("obligations", nob)
        cov.setdefault("discharged", ndis)
        cov.setdefault("trusted_base", TRUSTED_BASE)
        cov.setdefault("checker_cmd", "cd /verif/lean && lake build <modules> && lake env lean <Audit.lean with #print axioms> (see vlib/common.py)")
        cov["obligation_list"] = [{"name": n, "ok": ok, "detail": d[:200]} for n, ok, d in self.obligations]
        ev = {
            "property_id": self.pid, "tier": self.tier, "seed": self.seed, "level": self.level,
            "coverage": cov, "assumptions": self.assumptions, "wall_s": round(time.time() - self.t0, 2),
            "violations": nviol,
        }
        os.makedirs(os.path.join(VERIF, "evidence"), exist_ok=True)
        json.dump(ev, open(os.path.join(VERIF, "evidence", self.pid + ".json"), "w"), indent=1, default=str)
        if rc == 0:
            print("OK property=%s tier=%s obligations=%d/%d wall=%.1fs" % (self.pid, self.tier, ndis, nob, time.time() - self.t0))
        return rc


def lean_obligations(ctx, lake_targets, audit_imports, theorems, forbidden_modules):
    """step 3 of a check: build, axiom audit, forbidden-token grep.  Returns True iff all discharged.
    Each theorem is one obligation."""
    regen_all()
    if "symdrv" in lake_targets:
        # the model driver first and on its own: it does not depend on any lemma file, so the correspondence and the violation search
        # can still run when a proof about a regenerated table no longer checks
        lake_build(["symdrv"])
    ok, out = lake_build(lake_targets)
    build_failed = []
    if not ok:
        # which of the property's modules still build?  theorems of the others are the failed obligations
        ctx.lake_errors = failed_decls(out)
        good = []
        for m in audit_imports:
            okm, _ = lake_build([m])
            (good if okm else build_failed).append(m)
        if not good:
            for t in theorems:
                ctx.oblige("theorem " + t, False, "lake build failed")
            return False
        audit_imports = good
    rc, axioms, missing, raw = audit_axioms(audit_imports, theorems)
    allok = True
    for t in theorems:
        ax = axioms.get(t)
        if ax is None:
            # try suffix match
            for k, v in axioms.items():
                if k.split(".")[-1] == t.split(".")[-1]:
                    ax = v
        if ax is None:
            allok = ctx.oblige("theorem " + t, False, ("its module no longer builds (%s)" % ",".join(build_failed)) if build_failed else ("not found by #print axioms: " + raw[-300:])) and allok
            continue
        bad = [a for a in ax if a not in ALLOWED_AXIOMS]
        allok = ctx.oblige("theorem " + t, not bad, "axioms: " + ",".join(ax)) and allok
    hits = grep_forbidden(lean_files_of(forbidden_modules))
    allok = ctx.oblige("no sorry/admit/axiom/native_decide/bv_decide/implemented_by/unsafe/maxHeartbeats 0 in " + ",".join(forbidden_modules),
                       not hits, "; ".join(hits)) and allok
    ctx.coverage["axioms"] = {t: axioms.get(t, axioms.get(t.split(".")[-1])) for t in theorems}
    if ctx.thorough:
        bad = leanchecker([m for m in audit_imports])
        allok = ctx.oblige("leanchecker " + ",".join(audit_imports), not bad, str(bad)[:300]) and allok
    if not build_failed:
        ctx.lake_errors = []
    return allok and not build_failed


def rng(seed, tag=""):
    import random
    return random.Random("%s/%s" % (seed, tag))
