"""C15 — the particle store (SmartList) stays consistent under any insert/delete sequence.

proof:  Props/C15.lean (refinement of an abstract list, for every op sequence and every chunk size 2^k)
tie:    T  translate/t_smartlist.py regenerates the macros -> Sympler/Gen/SmartListGen.lean
        C  harness/h_smartlist.cpp (real header, small chunk sizes + production size) vs. the model driver
search: the harness output is checked against an independent reference list (python) for the failing case
"""
import itertools
import os
import common
from common import log
import t_smartlist

THEOREMS = ["C15_refines", "C15_links", "C15_size", "C15_slots", "C15_no_fault", "C15_address",
            "C15_address_needs_pow2", "C15_address_collision", "C15_delete_untouched", "C15_production_params"]
MODULES = ["Sympler.SmartList", "Sympler.SmartListLemmas", "Sympler.Gen.SmartListGen", "Props.C15"]


def gen_exhaustive(maxlen):
    """all op sequences up to maxlen over {new, del k (k < live), clear}, pruned: del only when live>0,
    clear only when something was created; every sequence is extended with a dump after every op"""
    out = []

    def rec(seq, live, created):
        if seq:
            out.append(list(seq))
        if len(seq) == maxlen:
            return
        rec(seq + ["new"], live + 1, created + 1)
        for k in range(live):
            rec(seq + ["del %d" % k], live - 1, created)
        if created > 0 and (not seq or seq[-1] != "clear"):
            rec(seq + ["clear"], 0, 0 if False else created)
    rec([], 0, 0)
    return out


def maximal_only(seqs, maxlen):
    # a sequence with dumps after every op covers all its prefixes: keep only those of maximal length
    return [s for s in seqs if len(s) == maxlen]


def gen_random(r, n, length):
    cases = []
    for _ in range(n):
        seq = []
        live = 0
        mode = r.choice(["grow", "churn", "shrink", "mixed"])
        for _ in range(length):
            x = r.random()
            pnew = {"grow": 0.75, "churn": 0.5, "shrink": 0.35, "mixed": r.random()}[mode]
            if x < 0.01:
                seq.append("clear")
                live = 0
            elif x < pnew or live == 0:
                seq.append("new")
                live += 1
            else:
                k = r.choice([0, live - 1, r.randrange(live), r.randrange(live)])
                seq.append("del %d" % k)
                live -= 1
            if r.random() < 0.2:
                seq.append("dump")
        seq.append("dump")
        cases.append(seq)
    return cases


def with_dumps(seq):
    out = []
    for op in seq:
        out.append(op)
        out.append("dump")
    return out


def reference(lines):
    """independent oracle: the property itself, stated on the harness output (spec list maintained here)"""
    errs = []
    spec = []
    for op, out in lines:
        try:
            _probe = (out.split()[0].split("=")[1] if op == "new" else out.split()[1].split("=")[1] if (op.startswith("del") and out != "skip") else None)
        except Exception:
            # an assertion of the class, a sanitizer report or an abort instead of the answer to this operation
            return ["the real SmartList did not answer operation `%s` normally: %r" % (op, out[:200])]
        if op == "new":
            slot = int(out.split()[0].split("=")[1])
            if slot in spec:
                errs.append("newEntry returned live slot %d" % slot)
            spec.append(slot)
            if "size=%d " % len(spec) not in out + " ":
                errs.append("size after new: %s (expected %d)" % (out, len(spec)))
        elif op.startswith("del"):
            if out == "skip":
                if spec:
                    errs.append("skip on non-empty")
                continue
            k = int(op.split()[1]) % len(spec)
            slot = int(out.split()[1].split("=")[1])
            if spec[k] != slot:
                errs.append("deleted slot %d, expected %d" % (slot, spec[k]))
            spec.pop(k)
        elif op == "clear":
            spec = []
        elif op == "dump":
            f = dict(x.split("=") for x in out.split() if "=" in x)
            fwd = [int(x) for x in f["fwd"].split(",") if x]
            bwd = [int(x) for x in f["bwd"].split(",") if x]
            if fwd != spec:
                errs.append("forward iteration %s != live entries %s" % (fwd, spec))
            if bwd != spec[::-1]:
                errs.append("backward iteration %s != reverse of live entries %s" % (bwd, spec))
            if int(f["size"]) != len(spec):
                errs.append("size %s != %d" % (f["size"], len(spec)))
            if "err:" in out:
                errs.append("harness flagged " + out.split("err:")[1])
        if errs:
            return errs
    return errs


def run_pair(ctx, binpath, sh, length_params, cases):
    """run model and harness on the same cases; returns list of (case index, first differing line, model, impl)"""
    lines = []
    for i, c in enumerate(cases):
        lines.append("### %d" % i)
        lines.append("params %d %d" % (sh, length_params))
        lines.extend(c)
    model = common.run_model("smartlist", lines)
    rc, out = common.sh([binpath], input="\n".join(lines) + "\n", timeout=300)
    impl = out.splitlines()
    diffs = []
    if rc != 0:
        diffs.append((-1, "harness exit %d" % rc, "", out[-300:]))
    # split per case
    def split(ls):
        res = {}
        cur = None
        for l in ls:
            if l.startswith("###"):
                cur = int(l.split()[1])
                res[cur] = []
            elif cur is not None:
                res[cur].append(l)
        return res
    ms, is_ = split(model), split(impl)
    for i, c in enumerate(cases):
        a, b = ms.get(i, []), is_.get(i, [])
        if a != b:
            j = next((k for k in range(max(len(a), len(b))) if (a[k] if k < len(a) else None) != (b[k] if k < len(b) else None)), 0)
            diffs.append((i, j, a[j] if j < len(a) else None, b[j] if j < len(b) else None))
    return diffs, is_


def run(ctx):
    r = common.rng(ctx.seed, "c15")
    # 1. build
    ok, out = common.ensure_build("hooks", targets=("basic",))
    ctx.oblige("hooked build of /repo (libbasic)", ok, out[-300:])
    # 2. translator
    try:
        gen = t_smartlist.generate(common.REPO)
        common.write_if_changed(os.path.join(common.LEAN, "Sympler/Gen/SmartListGen.lean"), gen)
        ctx.oblige("translator t_smartlist (macros of smart_list.h)", True)
    except Exception as ex:
        ctx.oblige("translator t_smartlist (macros of smart_list.h)", False, repr(ex))
        gen = None
    # 3. proofs
    lean_ok = common.lean_obligations(ctx, ["Sympler.SmartList", "Props.C15", "symdrv"], ["Props.C15"], THEOREMS, MODULES)
    # 4. correspondence
    quick = not ctx.thorough
    configs = [(1, 2), (2, 4), (3, 8)]
    exlen = 6 if quick else 8
    nrand, rlen = (40, 300) if quick else (300, 2000)
    total = 0
    distinct = set()
    samples = []
    hist = {"new": 0, "del": 0, "clear": 0, "dump": 0}
    all_diffs = []
    oracle_fail = None
    symdrv_ok = os.path.exists(common.symdrv())
    for sh, ln in configs + [(16, 65536)]:
        okh, o, binp = common.build_harness("h_smartlist_%d" % sh, ["-DVERIF_CHUNK_SH=%d" % sh, "-fsanitize=address,undefined", "-fno-sanitize-recover=all"],
                                           src=os.path.join(common.VERIF, "harness", "h_smartlist.cpp"))
        if not ctx.oblige("harness h_smartlist builds (CHUNK_SH=%d)" % sh, okh, o[-300:]):
            continue
        if sh == 16:
            # production chunk size: one long run across the first capacity growth
            n = 70000 if quick else 200000
            seq = ["new"] * n + ["dump"] + ["del %d" % r.randrange(n) for _ in range(2000)] + ["dump"] + ["new"] * 3000 + ["dump"]
            cases = [seq]
        else:
            ex = maximal_only(gen_exhaustive(exlen), exlen)
            cases = [with_dumps(s) for s in ex] + gen_random(r, nrand, rlen)
        for c in cases:
            for op in c:
                hist[op.split()[0]] += 1
            distinct.add((sh, tuple(c)))
        total += len(cases)
        if len(samples) < 3:
            samples.append({"chunkSh": sh, "chunkLen": ln, "ops": cases[min(7, len(cases) - 1)][:40]})
        if not symdrv_ok:
            continue
        diffs, impl = run_pair(ctx, binp, sh, ln, cases)
        for d in diffs[:5]:
            all_diffs.append((sh, ln, cases[d[0]] if d[0] >= 0 else [], d))
        # oracle on implementation output (only needed when something failed, cheap enough to run on a sample always)
        if (diffs or not lean_ok) and oracle_fail is None:
            for i, c in enumerate(cases):
                outl = impl.get(i, [])
                ops = [o for o in c]
                errs = reference(list(zip(ops, outl)))
                if not errs and len(outl) < len(ops):
                    errs = ["the real SmartList stopped answering after operation #%d `%s` (assert / sanitizer abort)" % (len(outl), ops[len(outl)])]
                if errs:
                    oracle_fail = dict(chunkSh=sh, chunkLen=ln, ops=shrink(binp, sh, ln, c), errors=errs)
                    break
    ctx.oblige("correspondence smartlist: model driver = real SmartList on %d op sequences" % total, symdrv_ok and not all_diffs,
               "" if not all_diffs else "first difference: chunkSh=%s op#%s model=%r impl=%r" % (all_diffs[0][0], all_diffs[0][3][1], all_diffs[0][3][2], all_diffs[0][3][3]))
    nontriv = sum(1 for (_, c) in distinct if any(o.startswith('del') for o in c))
    ctx.coverage.update(dict(evaluations=total, distinct_nontrivial=nontriv,
                             rule="bounded-exhaustive op sequences (new / del k / clear, dump after every op) of length %d for chunk sizes 2,4,8 plus %d random sequences of length %d per chunk size plus one long run at the production chunk size; a case is non-trivial if it contains at least one delete or a capacity growth; distinct = distinct (chunk size, op list)" % (exlen, nrand, rlen),
                             samples=samples, op_histogram=hist, traces_validated_against_impl=total))
    ctx.assumptions += ["std::vector<T*>::push_back does not move the chunks (C++ semantics; the harness compares recorded addresses)",
                        "deleteEntry is only called for live entries (precondition of the class)"]
    # 5. verdict
    if not all(o[1] for o in ctx.obligations):
        failing = [o[0] for o in ctx.obligations if not o[1]]
        if oracle_fail:
            ctx.violation("SmartList violates C15 on a concrete op sequence: " + "; ".join(oracle_fail["errors"][:2]),
                          dict(kind="op-sequence", failing_obligations=failing, **oracle_fail,
                               how_to_replay="build harness/h_smartlist.cpp with -DVERIF_CHUNK_SH=<chunkSh> and feed the ops"), True)
        else:
            ctx.violation("C15 is no longer shown to hold: " + "; ".join(failing[:3]),
                          dict(kind="proof-or-correspondence", failing_obligations=failing, lake_errors=getattr(ctx, "lake_errors", []),
                               first_differences=[dict(chunkSh=d[0], ops=d[2][:60], diff=d[3]) for d in all_diffs[:3]]), False)


def shrink(binp, sh, ln, case, budget_s=60):
    """delta-debug the op list against the reference oracle (bounded in time)"""
    import time
    t_end = time.time() + budget_s
    def fails(c):
        lines = ["### 0", "params %d %d" % (sh, ln)] + c
        rc, out = common.sh([binp], input="\n".join(lines) + "\n", timeout=20)
        outl = [l for l in out.splitlines() if not l.startswith("###")]
        return rc != 0 or bool(reference(list(zip(c, outl))))
    cur = list(case)
    n = 2
    while len(cur) >= 2 and time.time() < t_end:
        chunk = max(1, len(cur) // n)
        reduced = False
        for i in range(0, len(cur), chunk):
            cand = cur[:i] + cur[i + chunk:]
            if cand and cand[-1] != "dump":
                cand = cand + ["dump"]
            if cand and fails(cand):
                cur = cand
                n = max(n - 1, 2)
                reduced = True
                break
        if not reduced:
            if chunk == 1:
                break
            n = min(len(cur), n * 2)
    return cur
