"""C06 — derived symbols are evaluated after all they read, whatever the input order.

proof:  Props/C06.lean — stage_correct / schedule_sound / stage_unique (permutation independence) / cycle_error /
        terminates / values_order_independent about the model Sympler/Stages.lean (findStage, sweep, assign, schedule)
tie:    C  random dependency graphs of ParticleScalar / PairScalar / PairParticleScalar modules, each written in several
        module orders, run on the real binary; observer: stage of every symbol, execution trace, every value of every particle
        (exact); compared with the Lean driver (stage numbers, error on cycles, sweep limit) and an exact topological evaluation
search: same runs: the oracle "values = topological evaluation, identical for all module orders, cycle => error exit"
"""
import os
import shutil
import common
import symlib
import corr_stages as cs

THEOREMS = ["Sympler.Stages.C06_stage_correct", "Sympler.Stages.C06_schedule_sound", "Sympler.Stages.C06_schedule_sound_ids",
            "Sympler.Stages.C06_stage_level", "Sympler.Stages.C06_level_unique", "Sympler.Stages.C06_stage_unique",
            "Sympler.Stages.C06_cycle_error", "Sympler.Stages.C06_cycle_undetermined", "Sympler.Stages.C06_two_overwriters_error",
            "Sympler.Stages.C06_terminates", "Sympler.Stages.C06_terminates_length", "Sympler.Stages.C06_terminates_depth",
            "Sympler.Stages.C06_sweeps_le_depth", "Sympler.Stages.C06_order_dependent_acceptance_witness",
            "Sympler.Stages.C06_values_order_independent", "Sympler.Stages.C06_values_any_stage_order"]
MODULES = ["Sympler.Stages", "Sympler.StagesLemmas", "Sympler.Gen.StagesGen", "Props.C06", "Props.StagesBridge"]
BR = ["Sympler.Stages.Bridge_visit", "Sympler.Stages.Bridge_stage_constants", "Sympler.Stages.C06_stage0_twin"]
TR = "translator t_stages (all producer-update sites of the stage search in symbol.cpp: uniform rule, self exclusion; stageIterations default and bound)"


def run_one(case, order, d, B=None):
    sc = cs.scenario(case, order, stage_iterations=B)
    shutil.rmtree(d, ignore_errors=True)
    symlib.write_case(d, sc)
    rc, out = symlib.run_sympler(d, common.sympler(), timeout=120)
    res = dict(rc=rc, order=order)
    if rc == 0:
        steps = symlib.parse_obs(os.path.join(d, "obs.txt"))
        st, trace, vals = cs.observed(steps, case)
        res.update(stages=st, trace=trace, vals=vals)
    else:
        res["stage_error"] = "stageIterations" in out
        res["tail"] = out[-400:]
    lines, seq = cs.model_lines(case, order, B or 20)
    m = common.run_model("stages", lines)
    if m and m[0].startswith("error"):
        res["model"] = "error"
    else:
        res["model"] = {case["symbols"][int(l.split()[1])]["name"]: int(l.split()[2]) for l in m if l.startswith("stage ")}
    return res


def check_case(case, runs):
    """returns (list of correspondence differences, list of property violations)"""
    diffs, viol = [], []
    ov = cs.oracle_values(case)
    names = {s["name"]: s for s in case["symbols"]}
    ref_vals = None
    for r in runs:
        if r["model"] == "error":
            if r["rc"] == 0:
                diffs.append("model reports the stage error, the real run succeeded (order %s)" % r["order"])
            elif not r["stage_error"]:
                diffs.append("model reports the stage error, the real run failed differently: %s" % r["tail"][-150:])
            if ov is None and r["rc"] == 0:
                viol.append("cyclic dependency was evaluated instead of being reported (order %s)" % r["order"])
            continue
        if r["rc"] != 0:
            diffs.append("real run failed (rc=%d, stage error=%s) but the model assigns stages (order %s): %s" % (r["rc"], r["stage_error"], r["order"], r["tail"][-150:]))
            continue
        if r["stages"] != r["model"]:
            diffs.append("stages differ for order %s: real %s model %s" % (r["order"], r["stages"], r["model"]))
        # soundness of the real execution order (the property itself)
        pos = {sym: k for k, (_, _, _, sym) in enumerate(r["trace"])}
        for s in case["symbols"]:
            for d in s["deps"] + s.get("wdeps", []):
                if s["name"] in pos and d in pos and not pos[d] < pos[s["name"]]:
                    viol.append("symbol %s was computed before %s which it reads (order %s, trace %s)" % (s["name"], d, r["order"], [t[3] for t in r["trace"]]))
        if ov is not None:
            for stepvals in r["vals"][0:]:
                for nme, v in stepvals.items():
                    if nme in ov and v != ov[nme]:
                        viol.append("value of %s differs from the direct evaluation (order %s): %s vs %s" % (nme, r["order"], [str(x) for x in v], [str(x) for x in ov[nme]]))
                        break
        if ref_vals is None:
            ref_vals = r["vals"]
        elif r["vals"] != ref_vals:
            viol.append("results depend on the module order: order %s vs order %s" % (runs[0]["order"], r["order"]))
    return diffs, viol


def run(ctx):
    r = common.rng(ctx.seed, "c06")
    ok, out = common.ensure_build("hooks", targets=("sympler",))
    ctx.oblige("hooked build of /repo", ok, out[-300:])
    try:
        import t_stages
        common.write_if_changed(os.path.join(common.LEAN, "Sympler/Gen/StagesGen.lean"), t_stages.generate(common.REPO))
        ctx.oblige(TR, True)
    except Exception as ex:
        ctx.oblige(TR, False, repr(ex))
    lean_ok = common.lean_obligations(ctx, ["Sympler.Stages", "Props.C06", "Props.StagesBridge", "symdrv"], ["Props.C06", "Props.StagesBridge"], THEOREMS + BR, MODULES)
    ngraphs = 35 if not ctx.thorough else 300
    base = os.path.join(common.WORK, "c06-%d" % os.getpid())
    all_diffs, all_viol = [], []
    samples = []
    hist = dict(graphs=0, runs=0, cyclic=0, small_B=0, kinds={"P": 0, "S": 0, "W": 0}, max_stage={}, stage_errors=0)
    seen = set()
    if ok and os.path.exists(common.symdrv()):
        from concurrent.futures import ThreadPoolExecutor
        jobs = []
        cases = []
        for g in range(ngraphs):
            cyclic = (g % 7 == 3)
            case = cs.gen_case(r, cyclic=cyclic)
            n = len(case["symbols"])
            orders = [list(range(n)), list(reversed(range(n)))]
            o3 = list(range(n))
            r.shuffle(o3)
            orders.append(o3)
            B = None
            if g % 7 == 5:
                B = r.choice([1, 2])          # sweep limit: acceptance may depend on the order, never the result
                hist["small_B"] += 1
            cases.append((case, orders, B))
            hist["graphs"] += 1
            hist["cyclic"] += 1 if cyclic else 0
            for s in case["symbols"]:
                hist["kinds"][s["kind"]] += 1
            seen.add(str([(s["kind"], tuple(s["deps"]), tuple(s["wdeps"])) for s in case["symbols"]]))
        def job(args):
            gi, oi = args
            case, orders, B = cases[gi]
            return gi, run_one(case, orders[oi], "%s/g%d_o%d" % (base, gi, oi), B)
        with ThreadPoolExecutor(max_workers=8) as ex:
            results = list(ex.map(job, [(gi, oi) for gi in range(len(cases)) for oi in range(3)]))
        for gi, (case, orders, B) in enumerate(cases):
            runs = [res for (g2, res) in results if g2 == gi]
            hist["runs"] += len(runs)
            for rr in runs:
                if rr["rc"] == 0:
                    ms = max(rr["stages"].values()) if rr["stages"] else 0
                    hist["max_stage"][ms] = hist["max_stage"].get(ms, 0) + 1
                else:
                    hist["stage_errors"] += 1
            if B is not None:
                # with a small sweep limit different orders may legitimately differ in acceptance: compare each run with the model only
                diffs, viol = [], []
                for rr in runs:
                    d2, v2 = check_case(case, [rr])
                    diffs += d2
                    viol += v2
            else:
                diffs, viol = check_case(case, runs)
            desc = dict(symbols=[dict(name=s["name"], kind=s["kind"], expression=cs.expr_of(s)) for s in case["symbols"]],
                        particles=[[str(x) for x in p] for p in case["particles"]], orders=orders, stageIterations=B)
            if diffs:
                all_diffs.append(dict(case=desc, differences=diffs[:3]))
            if viol:
                all_viol.append(dict(case=desc, errors=viol[:3]))
            if len(samples) < 2:
                samples.append(dict(case=desc, stages=runs[0].get("stages"), trace=[t[3] for t in runs[0].get("trace", [])]))
        shutil.rmtree(base, ignore_errors=True)
    ctx.oblige("correspondence stages: Lean model = real stage assignment on %d runs (%d graphs x 3 module orders)" % (hist["runs"], hist["graphs"]),
               hist["runs"] > 0 and not all_diffs, str(all_diffs[:1])[:600])
    ctx.oblige("oracle on the real runs: every symbol after its producers, values = direct evaluation, identical for all orders, cycles rejected",
               not all_viol, str(all_viol[:1])[:600])
    # multi-species runs of the shared dyn generator (symbols read through expression, particleFactor_i OR particleFactor_j; allPairs; forces
    # reading symbols): the stage each symbol MUST have (longest path over everything it reads) vs the stage the real binary assigned,
    # and every pair-summed value vs its brute-force sum (a symbol evaluated before its input shows up there)
    dyn_stage, dyn_viol, dyn_cases = [], [], 0
    if ok and os.path.exists(common.symdrv()):
        import dyncheck
        dsumm, dbase = dyncheck.run_corr(ctx, 72 if not ctx.thorough else 1200, "c06d", workers=12)
        shutil.rmtree(dbase, ignore_errors=True)
        dyn_cases = dsumm["cases"]
        dyn_stage = [d for d in dsumm["disagreements"] if d.get("kind") == "stages"]
        dyn_viol = [v for v in dsumm["violations"] if v["oracle"] == "pairsum"]
        if dyn_viol and not all_viol:
            v = dyn_viol[0]
            all_viol.append(dict(case=dict(scenario=v.get("scenario"), model_input=v.get("model_input")), errors=["pair-summed symbol evaluated on stale input: " + str(v["detail"])]))
    ctx.oblige("multi-species runs (%d scenarios): required stage of every symbol (longest path over expression AND both particle factors) = stage assigned by the real binary; pair sums = brute-force sums"
               % dyn_cases, dyn_cases > 0 and not dyn_stage and not dyn_viol, str([d.get("detail") for d in dyn_stage[:2]] + [v.get("detail") for v in dyn_viol[:1]])[:500])
    # the same property for the symbols of the early pass (`stage="0"`, computed before the forces): they are staged by the twin
    # functions findStageForSymbolName_0 / sortStages_0 with their own registries.  Implementation-side oracle: chains and diamonds of
    # per-particle symbols with stage="0", written in several module orders: values = direct evaluation, identical for all orders;
    # a cycle is reported.
    s0_viol, s0_runs = [], 0
    if ok:
        import itertools
        from fractions import Fraction as Fr
        r0 = common.rng(ctx.seed, "c06-stage0")
        for g in range(6 if not ctx.thorough else 60):
            n = r0.randrange(3, 6)
            names = ["z%s" % "abcde"[i] for i in range(n)]
            syms = []
            for i, nm in enumerate(names):
                deps = sorted(set(r0.sample(names[:i], min(i, r0.randrange(1, 3))))) if i else []
                syms.append(dict(name=nm, kind="P", deps=deps, wdeps=[], produces=nm, overwrite=False, a=Fr(r0.choice([1, 2, -1, 3]), r0.choice([1, 2])),
                                 b=Fr(r0.choice([0, 1, -1]), 2), c=Fr(r0.randrange(-4, 5), 2)))
            cyclic = (g % 5 == 4)
            if cyclic:
                syms[0]["deps"] = [names[-1]]
            pts = set()
            while len(pts) < 3:
                pts.add((Fr(r0.randrange(2, 14), 4), Fr(r0.randrange(2, 14), 4), Fr(r0.randrange(4, 8), 4)))
            case = dict(symbols=syms, particles=sorted(pts), cyclic=cyclic)
            ov = cs.oracle_values(case)
            perms = list(itertools.permutations(range(n)))
            orders = [tuple(range(n)), tuple(reversed(range(n)))] + [r0.choice(perms) for _ in range(2)]
            ref = None
            for order in orders:
                sc = cs.scenario(case, list(order))
                for m in sc["modules"]:
                    m[1]["stage"] = "0"
                # the early-pass values are non-persistent and cleared again before the observer dumps: read them through a meter
                sc["modules_after_phase"] = [["MeterPosVel", {"measureEvery": 1, "species": "A"},
                                              [["OutputFile", {"nameOutputFile": "out.dat", "multipleFiles": "no", "columns": "|".join(names)}]]]]
                d = "%s-s0/g%d_%s" % (base, g, "".join(str(i) for i in order))
                shutil.rmtree(d, ignore_errors=True)
                symlib.write_case(d, sc)
                rc, out = symlib.run_sympler(d, common.sympler(), timeout=120)
                s0_runs += 1
                desc = dict(symbols=[dict(name=y["name"], expression=cs.expr_of(y), stage="0") for y in syms], module_order=list(order), particles=[[str(x) for x in p] for p in case["particles"]])
                if ov is None:
                    if rc == 0:
                        s0_viol.append(dict(case=desc, errors=["a cyclic dependency between stage-0 symbols was evaluated instead of being reported (module order %s)" % (list(order),)]))
                    continue
                if rc != 0:
                    s0_viol.append(dict(case=desc, errors=["stage-0 chain rejected: " + out[-200:]]))
                    continue
                try:
                    rows = [[float(x) for x in l.split()] for l in open(os.path.join(d, "out.dat")) if l.strip() and not l.lstrip().startswith("#")]
                except Exception as ex:
                    s0_viol.append(dict(case=desc, errors=["no meter output: %r" % (ex,)]))
                    continue
                npart = len(case["particles"])
                vals = [rows[k:k + npart] for k in range(0, len(rows) - len(rows) % npart, npart)]
                bad = None
                for k, block in enumerate(vals):
                    if k == 0:
                        continue          # the measurement before the first step precedes the first early pass
                    for pi, row in enumerate(block):
                        for ci, nm in enumerate(names):
                            want = float(ov[nm][pi])
                            if abs(row[ci] - want) > 1e-4 * max(1.0, abs(want)) and bad is None:
                                bad = "stage-0 symbol %s of particle %d at output %d is %r, direct evaluation gives %r (module order %s)" % (nm, pi, k, row[ci], want, list(order))
                if bad:
                    s0_viol.append(dict(case=desc, errors=[bad]))
                if ref is None:
                    ref = vals[1:]
                elif vals[1:] != ref and not bad:
                    s0_viol.append(dict(case=desc, errors=["stage-0 results depend on the module order: %s vs %s" % (list(orders[0]), list(order))]))
        shutil.rmtree(base + "-s0", ignore_errors=True)
    ctx.oblige("oracle, early pass: chains / diamonds of per-particle symbols with stage=\"0\" in 4 module orders each (%d runs): values = direct evaluation, same for all orders, cycles reported"
               % s0_runs, s0_runs > 0 and not s0_viol, str(s0_viol[:1])[:600])
    if s0_viol and not all_viol:
        all_viol.append(s0_viol[0])
    ctx.coverage.update(dict(evaluations=hist["runs"], distinct_nontrivial=len(seen),
                             rule="random dependency graphs of 3-8 symbol modules (ParticleScalar, PairScalar, PairParticleScalar; chains, diamonds, particle<->pair alternation), every 7th cyclic, every 7th with stageIterations in {1,2}; each graph run in 3 module orders (as generated, reversed, shuffled) on 3-6 particles for 2 steps; distinct = distinct dependency structures; all are non-trivial (>= 1 dependency)",
                             samples=samples, histogram=hist, traces_validated_against_impl=hist["runs"]))
    ctx.assumptions += ["triplet/quintet calculators, bonded calculators and the '_0' stage table are not generated (the model treats every symbol as one more producer)",
                        "exact-arithmetic regime: symbol expressions are polynomials with dyadic coefficients, so equal results are bit-identical"]
    if not all(o[1] for o in ctx.obligations):
        failing = [o[0] for o in ctx.obligations if not o[1]]
        if all_viol:
            ctx.violation("C06 violated on the real binary: " + all_viol[0]["errors"][0][:200],
                          dict(kind="input", failing_obligations=failing, how_to_replay="sim/corr_stages.py scenario(case, order) -> sympler in.xml", **all_viol[0]), True)
        else:
            ctx.violation("C06 is no longer shown to hold: " + "; ".join(failing[:3]),
                          dict(kind="proof-or-correspondence", failing_obligations=failing, lake_errors=getattr(ctx, "lake_errors", []), first_differences=all_diffs[:2]), False)
