"""C01 — the cell-list neighbour search finds exactly the pairs within the cutoff.

proof:  Props/C01.lean (C01_exact: cellPairs is a permutation of the brute-force minimum-image set, per axis completeness /
        uniqueness incl. exactly two cells, C01_eps, ...) about Sympler/Geom.lean; Props/C01Tables*.lean: the generated tables
        are consistent (decide), the regenerated addPair / cellDist / cutoff test ARE the functions of the general theorems
        (C01_bridge_*), Props/C01General.lean: link lists complete and duplicate-free, outlet geometry, GridOK/OutSingle for EVERY grid the cellSubdivide model builds (loop-invariant proof, Sympler/GridLinks*.lean); the finite kernel checks for 2x2x2, 3x2x2 grids are kept as instances
tie:    T (translate/t_cells.py regenerates Sympler/Gen/CellTablesGen.lean from cell.h / cell.cpp / manager_cell.h) and
        C: sim/corr_grid.py: every cell, link, counter and PAIR LIST of the real binary after every step = Lean model `grid`
search: O(N^2) minimum-image reference on the observer dumps (set, multiplicity, vector, acts-on flags)
"""
import common
import gridcheck

G = "Sympler.Geom."
THEOREMS = ["C01_axis_nonperiodic", "C01_axis_periodic", "C01_axis_unique", "C01_axis_unique_n3", "C01_axis_two_cells_same_neighbour",
            "C01_axis_two_cells", "C01_axis_sound", "C01_mi_spec", "C01_width_le_half_box", "C01_component_lt", "C01_links_nonvacuous",
            "C01_sound", "C01_nodup", "C01_complete", "C01_exact", "C01_brute_spec", "C01_eps", "C01_registered_of_findCell", "C01_registered_cell"]
T2 = ["Sympler.C01." + t for t in ["C01_gen_tables_ok", "C01_bridge_addPair", "C01_bridge_cellDist", "C01_bridge_keep", "C01_static_checks_sound",
                                   "C01_links_complete_unique_222a", "C01_links_complete_unique_222b", "C01_links_complete_unique_322"]]
MODULES = ["Sympler.Geom", "Sympler.GeomLemmas", "Sympler.Grid", "Sympler.GridLemmas", "Sympler.GridBuildLemmas", "Sympler.PairSearch",
           "Sympler.Gen.CellTablesGen", "Props.C01", "Props.C01Tables", "Props.C01TablesB", "Props.C01TablesC"] + \
          ["Sympler.GridLinksGeo", "Sympler.GridLinksInv", "Sympler.GridLinksSpec", "Sympler.GridLinksGeomOK", "Sympler.GridLinksLemmas", "Props.C01General"]
T3 = ["Sympler.C01." + t for t in ["C01_links_complete_unique", "C01_geometry_general", "C01_static_checks_general", "C01_static_hypotheses_general", "C01_geometry_needs_positive_box"]]     # general (all cutoffs, boxes, periodicities): loop-invariant proof about the link-list construction


def run(ctx):
    ok, out = common.ensure_build("hooks", targets=("sympler",))
    ctx.oblige("hooked build of /repo", ok, out[-300:])
    gridcheck.translate(ctx)
    common.lean_obligations(ctx, ["Props.C01", "Props.C01Tables", "Props.C01TablesB", "Props.C01TablesC", "Props.C01General", "Props.CreateDist", "Props.PairSearchSites", "Sympler.PairSearch", "symdrv"],
                            ["Props.C01", "Props.C01Tables", "Props.C01TablesB", "Props.C01TablesC", "Props.C01General", "Props.CreateDist", "Props.PairSearchSites"], THEOREMS + T2 + T3 + gridcheck.SITE_THEOREMS, MODULES + gridcheck.SITE_MODULES)
    n = 60 if not ctx.thorough else 1500
    summ, keep = (None, None)
    if ok:
        summ, keep = gridcheck.run_corr(ctx, n, "c01")
    if summ is None or "error" in summ:
        ctx.oblige("correspondence grid ran", False, str(summ)[:300])
        summ = {"disagreements": [], "oracle_violations": [], "n_disagreements": 0, "n_oracle_violations": 0}
    dis = summ.get("disagreements", [])
    pair_dis = [d for d in dis if gridcheck.is_pair_line(d)]
    other_dis = [d for d in dis if not gridcheck.is_pair_line(d)]
    viol = [v for v in summ.get("oracle_violations", []) if v["what"].startswith("pair")]
    ctx.oblige("correspondence grid: pair lists (partners, vector, |d|^2, acts-on flags, list kind) of the real binary = Lean model in %d states of %d scenarios"
               % (summ.get("states_compared", 0), summ.get("cases_compared", 0)),
               summ.get("cases_compared", 0) > 0 and not pair_dis, str(pair_dis[:2])[:500])
    ctx.oblige("correspondence grid: cells, links and active lists the pair search runs over = Lean model (hypothesis `Registered`/active links of C01_exact, see C09)",
               not other_dis, str(other_dis[:2])[:500])
    ctx.oblige("oracle on the real runs: every pair list = brute-force minimum-image set (none missing, none twice, vector, flags); %d pairs"
               % summ.get("exercised", {}).get("pairs", 0), not viol, str(viol[:2])[:500])
    gridcheck.coverage(ctx, summ, "Oracle: O(N^2) reference over all 27 periodic images.")
    ctx.assumptions += ["exact-arithmetic regime: dyadic box/cutoff/positions/velocities, so the C++ doubles equal the model's rationals; rounding at rc +- ulp is outside",
                        "not modelled: inlet/outlet cells, smartCells, STL boundaries, several regions",
                        "the general theorem is about Sympler.Geom (canonical link list); that the cellSubdivide model builds such a list is kernel-checked for 2x2x2 / 3x2x2 grids and evaluated natively (`gridok 1`) for every grid of the correspondence"]
    if not all(o[1] for o in ctx.obligations):
        failing = [o[0] for o in ctx.obligations if not o[1]]
        if viol:
            v = viol[0]
            sc = gridcheck.scenario_of(keep, v["case"])
            ctx.violation("C01 violated on the real binary: step %s: %s" % (v["step"], v["what"][:300]),
                          dict(kind="input", failing_obligations=failing, violation=v, scenario=sc,
                               how_to_replay="symlib.write_case(dir, scenario['scenario']); sympler in.xml; VPAIR lines of obs.txt vs brute force (sim/corr_grid.py oracle)"), True)
        else:
            # a proof obligation or the correspondence broke without a failing input in this run: search the implementation with a
            # larger batch of scenarios and the brute-force oracle alone (another seed stream) before giving up
            found = None
            if ok:
                import shutil
                class _S: pass
                s2 = _S(); s2.seed = ctx.seed + 7001; s2.thorough = ctx.thorough
                summ2, keep2 = gridcheck.run_corr(s2, 500, "c01search")
                v2 = [v for v in (summ2 or {}).get("oracle_violations", []) if v["what"].startswith("pair")]
                if v2:
                    found = (v2[0], gridcheck.scenario_of(keep2, v2[0]["case"]))
                if keep2:
                    shutil.rmtree(keep2, ignore_errors=True)
            if found:
                ctx.violation("C01 violated on the real binary (found by the extended search): step %s: %s" % (found[0]["step"], found[0]["what"][:300]),
                              dict(kind="input", failing_obligations=failing, violation=found[0], scenario=found[1],
                                   how_to_replay="symlib.write_case(dir, scenario['scenario']); sympler in.xml; VPAIR lines of obs.txt vs brute force (sim/corr_grid.py oracle)"), True)
                if keep:
                    import shutil
                    shutil.rmtree(keep, ignore_errors=True)
                return
            d = (pair_dis + other_dis)[:1]
            ctx.violation("C01 is no longer shown to hold: " + "; ".join(failing[:3]),
                          dict(kind="proof-or-correspondence", failing_obligations=failing, lake_errors=getattr(ctx, "lake_errors", []),
                               first_differences=dis[:3], scenario=gridcheck.scenario_of(keep, d[0]["case"]) if d else None), False)
    if keep:
        import shutil
        shutil.rmtree(keep, ignore_errors=True)
