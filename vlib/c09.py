"""C09 — cell bookkeeping and periodic wrapping stay consistent with positions.

proof:  Props/C09.lean: C09_inv_init / C09_inv_step / C09_inv_reachable (every particle in exactly one list, counters, active-cell
        list, link counters, active-link lists: for ALL histories), C09_iteration_visits_all (self-removal during the sweep),
        C09_occupied_exact, C09_pos_* (containment), C09_wrap_exact (r' = r -+ L in exactly the crossed periodic directions),
        C09_count_conserved, C09_errors  about Sympler/Cells.lean over the grid of Sympler/Grid.lean
tie:    T (translate/t_cells.py: tables, leave offset, re-entry position, cellDist) and
        C: sim/corr_grid.py: complete cell/link state of the real binary after every step = Lean model `grid`
search: the observer dump is re-checked against positions: membership, counters, both active lists, containment, particle count
"""
import common
import gridcheck

THEOREMS = ["Sympler.C09." + t for t in ["C09_gridOK", "C09_inv_init", "C09_inv_step", "C09_inv_reachable", "C09_iteration_visits_all",
                                         "C09_occupied_exact", "C09_errors", "C09_pos_init", "C09_pos_step", "C09_pos_reachable",
                                         "C09_wrap_exact", "C09_count_conserved"]]
T2 = ["Sympler.C01." + t for t in ["C01_gen_tables_ok", "C01_static_checks_sound", "C01_links_complete_unique_222a"]] + \
     ["Sympler.Cells.Bridge_activate", "Sympler.Cells.Bridge_deactivate"]
TR = "translator t_celllists (ManagerCell::activateCell / deactivateCell / activateCellLink / deactivateCellLink by symbolic execution of the pointer statements)"
MODULES = ["Sympler.Grid", "Sympler.GridLemmas", "Sympler.GridBuildLemmas", "Sympler.Cells", "Sympler.CellsLemmas", "Sympler.CellsPosLemmas",
           "Sympler.CellsSweepLemmas", "Sympler.PairSearch", "Sympler.Store", "Sympler.Gen.CellTablesGen", "Sympler.Gen.CellListsGen", "Props.C09", "Props.C01Tables", "Props.CellListsBridge"] + \
          ["Sympler.GridLinksGeo", "Sympler.GridLinksInv", "Sympler.GridLinksSpec", "Sympler.GridLinksGeomOK", "Sympler.GridLinksLemmas", "Props.C01General"]
T3 = ["Sympler.C01.C01_static_hypotheses_general", "Sympler.C01.C01_geometry_general"]    # GridOK, OutSingle, GeomOK for EVERY grid built from a positive cutoff


def run(ctx):
    ok, out = common.ensure_build("hooks", targets=("sympler",))
    ctx.oblige("hooked build of /repo", ok, out[-300:])
    gridcheck.translate(ctx)
    try:
        import os
        import t_celllists
        common.write_if_changed(os.path.join(common.LEAN, "Sympler/Gen/CellListsGen.lean"), t_celllists.generate(common.REPO))
        ctx.oblige(TR, True)
    except Exception as ex:
        ctx.oblige(TR, False, repr(ex))
    common.lean_obligations(ctx, ["Props.C09", "Props.C01Tables", "Props.C01General", "Props.CellListsBridge", "Sympler.PairSearch", "symdrv"], ["Props.C09", "Props.C01Tables", "Props.C01General", "Props.CellListsBridge"], THEOREMS + T2 + T3, MODULES)
    n = 60 if not ctx.thorough else 1500
    summ, keep = (None, None)
    if ok:
        summ, keep = gridcheck.run_corr(ctx, n, "c09")
    if summ is None or "error" in summ:
        ctx.oblige("correspondence grid ran", False, str(summ)[:300])
        summ = {"disagreements": [], "oracle_violations": []}
    dis = [d for d in summ.get("disagreements", []) if not gridcheck.is_pair_line(d)]
    viol = [v for v in summ.get("oracle_violations", []) if not v["what"].startswith(("pair", "acts-on"))]
    ex = summ.get("exercised", {})
    ctx.oblige("correspondence grid: cells (lists per colour, injection buffers, counters), active-cell list in order, links (counter, flags), active-link list, positions of the real binary = Lean model in %d states of %d scenarios"
               % (summ.get("states_compared", 0), summ.get("cases_compared", 0)),
               summ.get("cases_compared", 0) > 0 and not dis, str(dis[:2])[:500])
    ctx.oblige("oracle on the real runs: every particle registered once in the cell that contains it, counters, active cells = occupied cells, active links = links between occupied cells, particle count (%d face / %d edge / %d corner / %d box-face crossings, %d cells emptied, %d refilled)"
               % (ex.get("cross_face", 0), ex.get("cross_edge", 0), ex.get("cross_corner", 0), ex.get("cross_box_face", 0), ex.get("cells_emptied", 0), ex.get("cells_refilled", 0)),
               not viol, str(viol[:2])[:500])
    gridcheck.coverage(ctx, summ, "Oracle: membership and active lists re-derived from positions.")
    ctx.assumptions += ["exact-arithmetic regime; g_geom_eps = 1e-10 is given to the model as the rational 1/10^10 (all coordinates are multiples of 2^-12)",
                        "not modelled: inlet cells / particle creation during the run, several regions, smartCells",
                        "per-step displacement below one cell; otherwise model and code both report PARTICLEFLEWTOOFAR (compared)"]
    if not all(o[1] for o in ctx.obligations):
        failing = [o[0] for o in ctx.obligations if not o[1]]
        if viol:
            v = viol[0]
            ctx.violation("C09 violated on the real binary: step %s: %s" % (v["step"], v["what"][:300]),
                          dict(kind="input", failing_obligations=failing, violation=v, scenario=gridcheck.scenario_of(keep, v["case"]),
                               how_to_replay="symlib.write_case(dir, scenario['scenario']); sympler in.xml; VCELL/VLINK lines of obs.txt vs positions (sim/corr_grid.py oracle)"), True)
        else:
            ctx.violation("C09 is no longer shown to hold: " + "; ".join(failing[:3]),
                          dict(kind="proof-or-correspondence", failing_obligations=failing, lake_errors=getattr(ctx, "lake_errors", []),
                               first_differences=dis[:3], scenario=gridcheck.scenario_of(keep, dis[0]["case"]) if dis else None), False)
    if keep:
        import shutil
        shutil.rmtree(keep, ignore_errors=True)
