"""C17 — invalid input and failing helper tools are reported as errors, never ignored.   (PARTIAL, see DESIGN.md)

proof:  Props/C17.lean — the decision chain of input processing (unknown module/attribute, strict INT/DOUBLE syntax =
        independent grammar, booleans, constraints, expression checks, result size, box too small, every single compile-step
        fault, error => non-zero exit) about Sympler/Validate.lean
tie:    C  sim/corr_invalid.py: ALL single mutations of three valid base inputs (attribute tables read from `sympler --help`),
        compile-step faults through gcc shims and unusable $TMP, run on the real binary; the model's ok/error verdict is compared;
        the model's strtol/strtod scanners are compared with glibc on random texts
search: the same runs with the oracle "mutated-invalid => non-zero exit, no signal, no time-out, time loop not started"
PARTIAL: each module's own setup()-time checks are not modelled; "never a signal, never hangs" is observed only.
"""
import json
import os
import common

P = ""
THEOREMS = [P + t for t in ["C17_unknown", "C17_malformed_number", "C17_malformed_number_old_witness", "C17_bool", "C17_constraint",
                            "C17_expr", "C17_size", "C17_box", "C17_compile", "C17_exit", "C17_conversion_sites_strict", "C17_result_size_strict"]]
MODULES = ["Sympler.Validate", "Sympler.ValidateLemmas", "Sympler.Gen.ValidateGen", "Props.C17"]


def run(ctx):
    ok, out = common.ensure_build("hooks", targets=("sympler",))
    ctx.oblige("hooked build of /repo", ok, out[-300:])
    try:
        import t_validate
        common.write_if_changed(os.path.join(common.LEAN, "Sympler/Gen/ValidateGen.lean"), t_validate.generate(common.REPO))
        ctx.oblige("translator t_validate (conversion call sites of PropertyList::fromXML, strictness of the called functions)", True)
    except Exception as ex:
        ctx.oblige("translator t_validate (conversion call sites of PropertyList::fromXML, strictness of the called functions)", False, repr(ex))
    common.lean_obligations(ctx, ["Sympler.Validate", "Props.C17", "symdrv"], ["Props.C17"], THEOREMS, MODULES)
    known = [f["signature"] for f in common.known_findings().get("open", []) if f.get("property") == "C17"]
    nmut = 0          # 0 = all single mutants
    rep = None
    raw = ""
    if ok and os.path.exists(common.symdrv()):
        cmd = ["python3", os.path.join(common.VERIF, "sim/corr_invalid.py"), str(ctx.seed), str(nmut), "--sympler", common.sympler(),
               "--libc", "2000" if not ctx.thorough else "20000"]
        rc, raw = common.sh(cmd, env={"SYMDRV": common.symdrv()}, timeout=3000)
        try:
            rep = json.loads(raw[raw.index("{"):])
        except Exception:
            rep = None
    dis = []
    findings = []
    if rep:
        findings = rep.get("findings", [])
        vc = rep.get("verdict_counts", {})
        dis = [v for v in rep.get("verdict_table", []) if not v.get("ok") and not any(v.get("cls", "") + "/" + v.get("sub", "") in f["signature"] for f in findings)]
        model_dis = rep.get("model_disagreements", rep.get("disagreements", []))
    else:
        model_dis = ["corr_invalid.py produced no report: " + raw[-400:]]
    ctx.oblige("correspondence invalid: model verdict ok/error = real binary on %s single mutants; strtol/strtod scanners = glibc" % (rep.get("verdict_counts", {}).get("total") if rep else "?"),
               rep is not None and not model_dis and not dis, (str(model_dis)[:300] + str(dis)[:300]))
    cov = dict(evaluations=rep["verdict_counts"]["total"] if rep else 0,
               distinct_nontrivial=rep["verdict_counts"]["total"] if rep else 0,
               rule="single mutations of three valid base inputs: module names (typo/unknown), attribute names, values per attribute type (INT/DOUBLE/BOOLEAN/POINT malformed and boundary texts), constraints, expressions (unbalanced, undefined symbol, empty operand, wrong result type), structure (missing Controller/Phase/boundary, box too small), compile-step faults (gcc missing / exit 1 / killed / garbage / nothing, TMP missing / not a directory / unwritable); every mutant is distinct and non-trivial by construction",
               samples=(rep.get("verdict_table", [])[:2] if rep else []), histogram={k: rep.get(k) for k in ("mutation_classes", "error_kinds", "libc") if rep and k in rep},
               traces_validated_against_impl=rep["verdict_counts"]["total"] if rep else 0)
    ctx.coverage.update(cov)
    ctx.assumptions += ["PARTIAL: per-module setup() checks are not modelled; absence of signals/hangs is observed on the explored mutants only",
                        "INT values are reduced modulo 2^32 after the LONG_MAX guard, DOUBLE accepts everything strtod accepts (inf, nan, hex) — as the code does"]
    for f in findings:
        ctx.violation("C17 violated on the real binary: " + "; ".join(f.get("what", []))[:150] + " (" + f.get("example", "") + ")",
                      dict(kind="input", how_to_replay="write in.xml and the listed files into a directory; sympler in.xml", **{k: f.get(k) for k in ("signature", "example", "xml", "files", "env")}),
                      True, signature=f["signature"])
    if not all(o[1] for o in ctx.obligations) and not [f for f in findings if f["signature"] not in known]:
        failing = [o[0] for o in ctx.obligations if not o[1]]
        ctx.violation("C17 is no longer shown to hold: " + "; ".join(failing[:3]),
                      dict(kind="proof-or-correspondence", failing_obligations=failing, lake_errors=getattr(ctx, "lake_errors", []), disagreements=(model_dis[:3] if rep else model_dis)), False)
