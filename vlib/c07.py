"""C07 — pair-summed quantities equal the sum over true neighbours, redone each step.

proof:  Props/C07.lean: C07_sum (value = sum over ALL partners, free or frozen, inside the module's own cutoff, current minimum-image
        positions), C07_current_positions, C07_memoryless (independent of the previous value: non-persistent => cleared),
        C07_own_cutoff about Sympler/Dyn.lean; guard table of the pair-sum calculators regenerated from the source
tie:    T (translate/t_dyn.py) and C: sim/corr_dyn.py: every pair-summed symbol of every particle after every step
search: brute-force re-summation on the observer dump (own cutoff, current positions, partner free or frozen)
"""
import dyncheck

THEOREMS = [dyncheck.P + t for t in ["C07_current_positions", "C07_sum", "C07_memoryless", "C07_own_cutoff"]]


def run(ctx):
    import dyngen
    dyncheck.check(ctx, "C07", THEOREMS + dyngen.THEOREMS_C07, "Props.C07", pre=dyngen.translate, extra_modules=dyngen.EXTRA)
    ctx.assumptions += ["the neighbour list is exact for the list cutoff (C01) or a superset (C02): in the model the list is the brute-force set",
                        "exact-arithmetic regime; ValCalculatorRho with a kernel needs sqrt and is covered by the guard table only"]
