"""T1 for C14: data_format.h/.cpp, consts.h (+ a compiled sizeof/alignof probe) -> lean/Sympler/Gen/DataFormatGen.lean"""
import os
import re
import subprocess
import tempfile
from cexpr import strip_comments, strip_guarded, function_body, match_brace, parse_expr, Emitter, TranslateError


def strip_ifdef(src, macro):
    """remove `#ifdef macro ... [#else keep] #endif` regions (the build does not define the macro)"""
    out, skip, depth = [], False, 0
    state = []      # stack of (is_target, in_else)
    for line in src.splitlines():
        s = line.strip()
        if re.match(r"#\s*ifdef\s+%s\b" % macro, s):
            state.append([True, False])
            continue
        if re.match(r"#\s*if", s):
            state.append([False, False])
        elif re.match(r"#\s*else", s) and state and state[-1][0]:
            state[-1][1] = True
            continue
        elif re.match(r"#\s*endif", s) and state:
            t = state.pop()
            if t[0]:
                continue
        if any(t[0] and not t[1] for t in state):
            continue
        out.append(line)
    return "\n".join(out)


def probe(repo, types, build_dir):
    inc = []
    for root, dirs, files in os.walk(os.path.join(repo, "source/include")):
        inc.append("-I" + root)
    src = '#include "data_format.h"\n#include <cstdio>\nint main(){\n' + "".join(
        'printf("%%zu %%zu\\n", sizeof(%s), alignof(%s));\n' % (t, t) for t in types) + "return 0;}\n"
    d = tempfile.mkdtemp(prefix="probe_", dir=build_dir)
    try:
        open(os.path.join(d, "p.cpp"), "w").write(src)
        r = subprocess.run(["g++", "-std=gnu++17", "-w", "-fsyntax-only"] + inc + ["-I/usr/include/libxml2", os.path.join(d, "p.cpp")],
                           stdout=subprocess.PIPE, stderr=subprocess.STDOUT, text=True)
        r = subprocess.run(["g++", "-std=gnu++17", "-w", "-c"] + inc + ["-I/usr/include/libxml2", os.path.join(d, "p.cpp"), "-o", os.path.join(d, "p.o")],
                           stdout=subprocess.PIPE, stderr=subprocess.STDOUT, text=True)
        if r.returncode != 0:
            raise TranslateError("sizeof probe does not compile: " + r.stdout[-400:])
        # sizeof/alignof need no library: link only against libstdc++
        r = subprocess.run(["g++", os.path.join(d, "p.o"), "-o", os.path.join(d, "p")], stdout=subprocess.PIPE, stderr=subprocess.STDOUT, text=True)
        if r.returncode != 0:
            raise TranslateError("sizeof probe does not link: " + r.stdout[-400:])
        out = subprocess.run([os.path.join(d, "p")], stdout=subprocess.PIPE, text=True).stdout.split()
        nums = [int(x) for x in out]
        return nums[0::2], nums[1::2]
    finally:
        import shutil
        shutil.rmtree(d, ignore_errors=True)


def case_labels(text):
    return re.findall(r"\bcase\s+(?:DataFormat::)?(\w+)\s*:", text)


def generate(repo, work_dir="/tmp"):
    h = strip_ifdef(strip_guarded(strip_comments(open(os.path.join(repo, "source/include/basic/data_format.h")).read())), "WITH_ARRAY_TYPES")
    c = strip_ifdef(strip_guarded(strip_comments(open(os.path.join(repo, "source/src/basic/data_format.cpp")).read())), "WITH_ARRAY_TYPES")
    consts = strip_comments(open(os.path.join(repo, "source/include/basic/consts.h")).read())
    m = re.search(r"enum\s+datatype_t\s*\{(.*?)\}", h, flags=re.S)
    if not m:
        raise TranslateError("enum datatype_t not found")
    members = []
    for item in m.group(1).split(","):
        item = item.strip()
        if not item:
            continue
        mm = re.fullmatch(r"(\w+)\s*(?:=\s*(\d+))?", item)
        if not mm:
            raise TranslateError("enum member %r" % item)
        val = int(mm.group(2)) if mm.group(2) is not None else (members[-1][1] + 1 if members else 0)
        members.append((mm.group(1), val))
    if members[-1][0] != "EO_DATATYPE":
        raise TranslateError("EO_DATATYPE is not the last enum member")
    eo = members[-1][1]
    names = [n for n, _ in members[:-1]]
    if [v for _, v in members[:-1]] != list(range(len(names))) or eo != len(names):
        raise TranslateError("enum values are not 0..n-1")
    enum = {n: v for n, v in members}
    m = re.search(r"c_size_of_datatype\s*\[\s*EO_DATATYPE\s*\]\s*=\s*\{(.*?)\}", c, flags=re.S)
    if not m:
        raise TranslateError("initialiser of c_size_of_datatype not found")
    types = re.findall(r"sizeof\s*\(\s*([\w:<> ]+?)\s*\)", m.group(1))
    if len(types) != eo:
        raise TranslateError("c_size_of_datatype has %d entries, enum has %d" % (len(types), eo))
    sizes, aligns = probe(repo, types, work_dir)
    m = re.search(r"#\s*define\s+DATA_ALIGNMENT\s+(\d+)", consts)
    if not m:
        raise TranslateError("DATA_ALIGNMENT not found")
    data_alignment = int(m.group(1))
    body = function_body(c, r"void\s+DataFormat::alignDataFor\s*\(\s*size_t\s+align\s*\)\s*\{")
    m = re.search(r"c_size_of_datatype\s*\[\s*i\s*\]\s*=\s*([^;]*);", body)
    if not m:
        raise TranslateError("statement of alignDataFor not found")
    round_expr = Emitter("Nat", {"c_size_of_datatype[i]": "c_size_of_datatype_i", "align": "align"}).emit(parse_expr(m.group(1)))
    # macro DATAFORMAT_CONTAINER_SWITCH (line continuations)
    hm = re.sub(r"\\\n", " ", strip_guarded(strip_comments(open(os.path.join(repo, "source/include/basic/data_format.h")).read())))
    m = re.search(r"#\s*define\s+DATAFORMAT_CONTAINER_SWITCH\s*\([^)]*\)(.*)", hm)
    if not m:
        raise TranslateError("DATAFORMAT_CONTAINER_SWITCH not found")
    container = [enum[x] for x in case_labels(m.group(1))]

    def functor_types(name):
        mm = re.search(r"struct\s+%s\b" % name, c)
        if not mm:
            raise TranslateError("%s not found" % name)
        i = c.index("{", mm.end())
        blk = c[i:match_brace(c, i)]
        return [enum[x] for x in re.findall(r"attr\.datatype\s*==\s*DataFormat::(\w+)", blk)]
    alloc = functor_types("alloc_smart_pointer")
    release = functor_types("release_smart_pointer")

    def switch_cases(fn_regex):
        b = function_body(c, fn_regex)
        return b, [enum[x] for x in case_labels(b) if x in enum]
    tb, tocases = switch_cases(r"string\s+Data::toStringByIndex\s*\([^)]*\)\s*(?:const\s*)?\{")
    fb, fromcases = switch_cases(r"void\s+Data::fromStringByIndex\s*\([^)]*\)\s*\{")
    # fall-through analysis of fromStringByIndex: every case segment must end in break/return/throw
    segs = re.split(r"\bcase\s+(?:DataFormat::)?\w+\s*:|\bdefault\s*:", fb)[1:]
    nofall = True
    for sgm in segs:
        t = re.sub(r"[\s{}]+$", "", sgm)
        last = t.rsplit(";", 2)
        stmt = (last[-2] if len(last) >= 2 else t).strip()
        tail = stmt.split("\n")[-1].strip() if stmt else ""
        if not re.search(r"\b(break|return|throw)\b", stmt.split(";")[-1] if stmt else ""):
            # look at the final statement text of the segment
            final = [x.strip() for x in t.split(";") if x.strip()]
            if not final or not re.match(r"^(break|return\b.*|throw\b.*)$", re.sub(r"^[\s{}]*", "", final[-1]), flags=re.S):
                nofall = False

    def lst(xs):
        return "[" + ", ".join(str(x) for x in xs) + "]"
    return """/- GENERATED by /verif/translate/t_dataformat.py from
     /repo/source/include/basic/data_format.h   (enum DataFormat::datatype_t, DATAFORMAT_CONTAINER_SWITCH)
     /repo/source/src/basic/data_format.cpp     (c_size_of_datatype, alignDataFor, alloc_/release_smart_pointer,
                                                 Data::toStringByIndex, Data::fromStringByIndex)
     /repo/source/include/basic/consts.h        (DATA_ALIGNMENT)
   and a compiled probe (sizeof / alignof of the initialisers of c_size_of_datatype).
   Do not edit: rewritten on every check run. -/
namespace Sympler.Gen.DataFormat

/-- members of `enum datatype_t` before `EO_DATATYPE`, in order; position = enum value
    (build without `WITH_ARRAY_TYPES`) -/
def datatypeNames : List String :=
  [%s]

/-- `EO_DATATYPE` -/
def eoDatatype : Nat := %d

/-- `DataFormat::c_size_of_datatype[i]` as initialised (before `alignDataFor`): sizeof of
    %s -/
def sizeofRaw : List Nat := %s

/-- `alignof` of the same C++ types -/
def alignofCxx : List Nat := %s

/-- `#define DATA_ALIGNMENT %d` (argument of `DataFormat::alignDataFor` in `main`) -/
def dataAlignment : Nat := %d

/-- body of the loop of `DataFormat::alignDataFor(size_t align)`:
    `c_size_of_datatype[i] = %s;` -/
def alignRound (align : Nat) (c_size_of_datatype_i : Nat) : Nat :=
  %s

/-- enum values with a `case` in `DATAFORMAT_CONTAINER_SWITCH` (in textual order) -/
def containerSwitch : List Nat := %s
/-- enum values handled by `alloc_smart_pointer::operator()` -/
def allocSmartPointer : List Nat := %s
/-- enum values handled by `release_smart_pointer::operator()` -/
def releaseSmartPointer : List Nat := %s
/-- enum values with a `case` in `Data::toStringByIndex` (others: `throw gError`) -/
def toStringCases : List Nat := %s
/-- enum values with a `case` in `Data::fromStringByIndex` (others: `throw gError`) -/
def fromStringCases : List Nat := %s
/-- does every `case` of `Data::fromStringByIndex` end in `break`/`return`/`throw` (no fall-through)? -/
def fromStringNoFallthrough : Bool := %s

end Sympler.Gen.DataFormat
""" % (", ".join('"%s"' % n for n in names), eo, ", ".join(types), lst(sizes), lst(aligns), data_alignment, data_alignment,
       m and re.search(r"c_size_of_datatype\s*\[\s*i\s*\]\s*=\s*([^;]*);", body).group(1).strip(), round_expr,
       lst(container), lst(alloc), lst(release), lst(tocases), lst(fromcases), "true" if nofall else "false")


if __name__ == "__main__":
    import sys
    print(generate(sys.argv[1] if len(sys.argv) > 1 else "/repo"))
