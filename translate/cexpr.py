"""A small C/C++ expression and statement parser used by the translators (T1/T2/T3 of DESIGN.md).

It covers exactly the straight-line numeric subset the translated kernels use:
  expressions:  numbers, identifiers, a->b, a.b, a[i], f(x, y), unary - ! +, binary * / % + - << >> < > <= >= == != & ^ | && ||,
                parentheses, C casts of the form (double)x / (int)x / size_t(x)
  statements:   [type] x = e;   x op= e;   ++x; x++;   if (c) S [else S];   { S* }   return e;   break;
Anything else raises TranslateError: the translator then fails loudly ("the tie no longer checks").
AST nodes are tuples:
  ('num', text, is_int) ('id', name) ('mem', obj, field, arrow) ('idx', a, i) ('call', fn, [args]) ('un', op, e)
  ('bin', op, a, b) ('cast', type, e) ('tern', c, a, b)
  statements: ('decl', type, name, e|None) ('assign', lhs, op, e) ('if', c, S, S|None) ('block', [S]) ('return', e|None)
              ('break',) ('expr', e)
"""
import re


class TranslateError(Exception):
    pass


TOKEN = re.compile(r"""
   (?P<ws>\s+|//[^\n]*|/\*.*?\*/)
 | (?P<num>(\d+\.\d*|\.\d+|\d+)([eE][-+]?\d+)?[fFlLuU]*)
 | (?P<id>[A-Za-z_][A-Za-z_0-9]*(::[A-Za-z_][A-Za-z_0-9]*)*)
 | (?P<str>"([^"\\]|\\.)*")
 | (?P<op>->|\+\+|--|<<=|>>=|<<|>>|<=|>=|==|!=|&&|\|\||\+=|-=|\*=|/=|[-+*/%<>=!&|^~?:;,.(){}\[\]])
""", re.X | re.S)


def tokenize(src):
    out = []
    pos = 0
    while pos < len(src):
        m = TOKEN.match(src, pos)
        if not m:
            raise TranslateError("cannot tokenize at: %r" % src[pos:pos + 40])
        pos = m.end()
        if m.lastgroup == "ws":
            continue
        out.append((m.lastgroup, m.group(m.lastgroup)))
    return out


TYPES = {"double", "int", "size_t", "float", "long", "unsigned", "bool", "point_t", "tensor_t", "const", "static", "auto"}

BINPREC = [
    ("||",), ("&&",), ("|",), ("^",), ("&",), ("==", "!="), ("<", ">", "<=", ">="), ("<<", ">>"), ("+", "-"), ("*", "/", "%"),
]
PREC = {}
for i, ops in enumerate(BINPREC):
    for o in ops:
        PREC[o] = i + 1


class Parser:
    def __init__(self, toks):
        self.t = toks
        self.i = 0

    def peek(self, k=0):
        return self.t[self.i + k] if self.i + k < len(self.t) else ("eof", "")

    def next(self):
        tok = self.peek()
        self.i += 1
        return tok

    def accept(self, val):
        if self.peek()[1] == val:
            self.i += 1
            return True
        return False

    def expect(self, val):
        if not self.accept(val):
            raise TranslateError("expected %r, got %r (context: %s)" % (val, self.peek()[1], " ".join(t[1] for t in self.t[max(0, self.i - 6):self.i + 6])))

    # ---- expressions
    def expr(self):
        return self.ternary()

    def ternary(self):
        c = self.binary(1)
        if self.accept("?"):
            a = self.expr()
            self.expect(":")
            b = self.ternary()
            return ("tern", c, a, b)
        return c

    def binary(self, minprec):
        lhs = self.unary()
        while True:
            op = self.peek()[1]
            if self.peek()[0] != "op" or op not in PREC or PREC[op] < minprec:
                return lhs
            self.next()
            rhs = self.binary(PREC[op] + 1)
            lhs = ("bin", op, lhs, rhs)

    def unary(self):
        k, v = self.peek()
        if k == "op" and v in ("-", "!", "+", "~", "*", "&"):
            self.next()
            e = self.unary()
            return ("un", v, e)
        if k == "op" and v in ("++", "--"):
            self.next()
            e = self.unary()
            return ("preinc", v, e)
        # C cast: (type) unary
        if v == "(" and self.peek(1)[0] == "id" and self.peek(1)[1] in ("double", "int", "size_t", "float", "long") and self.peek(2)[1] == ")":
            self.next()
            ty = self.next()[1]
            self.next()
            return ("cast", ty, self.unary())
        return self.postfix()

    def postfix(self):
        e = self.primary()
        while True:
            k, v = self.peek()
            if v == "(":
                self.next()
                args = []
                if not self.accept(")"):
                    args.append(self.expr())
                    while self.accept(","):
                        args.append(self.expr())
                    self.expect(")")
                if e[0] == "id" and e[1] in ("double", "int", "size_t", "float", "long") and len(args) == 1:
                    e = ("cast", e[1], args[0])
                else:
                    e = ("call", e, args)
            elif v == "[":
                self.next()
                i = self.expr()
                self.expect("]")
                e = ("idx", e, i)
            elif v == "->" or v == ".":
                self.next()
                f = self.next()
                if f[0] != "id":
                    raise TranslateError("member name expected after %s" % v)
                e = ("mem", e, f[1], v == "->")
            elif v in ("++", "--"):
                self.next()
                e = ("postinc", v, e)
            else:
                return e

    def primary(self):
        k, v = self.next()
        if k == "num":
            txt = v.rstrip("fFlLuU")
            is_int = re.fullmatch(r"\d+", txt) is not None
            return ("num", txt, is_int)
        if k == "id":
            return ("id", v)
        if k == "str":
            return ("str", v)
        if v == "(":
            e = self.expr()
            self.expect(")")
            return e
        raise TranslateError("unexpected token %r" % v)

    # ---- statements
    def statement(self):
        k, v = self.peek()
        if v == "{":
            self.next()
            body = []
            while not self.accept("}"):
                body.append(self.statement())
            return ("block", body)
        if v == "if":
            self.next()
            self.expect("(")
            c = self.expr()
            self.expect(")")
            a = self.statement()
            b = None
            if self.accept("else"):
                b = self.statement()
            return ("if", c, a, b)
        if v == "return":
            self.next()
            if self.accept(";"):
                return ("return", None)
            e = self.expr()
            self.expect(";")
            return ("return", e)
        if v == "break":
            self.next()
            self.expect(";")
            return ("break",)
        if v == "throw":
            # throw <anything>; -> ('throw',)
            depth = 0
            while True:
                kk, vv = self.next()
                if vv in "([{":
                    depth += 1
                if vv in ")]}":
                    depth -= 1
                if vv == ";" and depth == 0:
                    break
                if kk == "eof":
                    raise TranslateError("unterminated throw")
            return ("throw",)
        if v == ";":
            self.next()
            return ("block", [])
        # declaration?
        if k == "id" and v in TYPES:
            ty = []
            while self.peek()[0] == "id" and self.peek()[1] in TYPES:
                ty.append(self.next()[1])
            while self.peek()[1] in ("&", "*"):
                ty.append(self.next()[1])
            name = self.next()
            if name[0] != "id":
                raise TranslateError("declaration name expected")
            e = None
            if self.accept("="):
                e = self.expr()
            decls = [("decl", " ".join(ty), name[1], e)]
            while self.accept(","):
                n2 = self.next()
                e2 = None
                if self.accept("="):
                    e2 = self.expr()
                decls.append(("decl", " ".join(ty), n2[1], e2))
            self.expect(";")
            return decls[0] if len(decls) == 1 else ("block", decls)
        e = self.expr()
        kk, vv = self.peek()
        if vv in ("=", "+=", "-=", "*=", "/="):
            self.next()
            r = self.expr()
            self.expect(";")
            return ("assign", e, vv, r)
        self.expect(";")
        if e[0] in ("preinc", "postinc"):
            return ("assign", e[2], "+=" if e[1] == "++" else "-=", ("num", "1", True))
        return ("expr", e)


def parse_expr(src):
    p = Parser(tokenize(src))
    e = p.expr()
    if p.peek()[0] != "eof":
        raise TranslateError("trailing tokens in expression %r" % src)
    return e


def parse_block(src):
    """parse a sequence of statements (the inside of a function body)"""
    p = Parser(tokenize(src))
    body = []
    while p.peek()[0] != "eof":
        body.append(p.statement())
    return body


# ---------------------------------------------------------------- source slicing helpers

def strip_comments(src):
    src = re.sub(r"/\*.*?\*/", lambda m: "\n" * m.group(0).count("\n"), src, flags=re.S)
    src = re.sub(r"//[^\n]*", "", src)
    return src


def match_brace(src, open_pos):
    """index just after the brace/paren matching the one at open_pos"""
    pairs = {"{": "}", "(": ")", "[": "]"}
    o = src[open_pos]
    c = pairs[o]
    depth = 0
    i = open_pos
    while i < len(src):
        ch = src[i]
        if ch == '"':
            j = i + 1
            while j < len(src) and src[j] != '"':
                j += 2 if src[j] == "\\" else 1
            i = j
        elif ch == o:
            depth += 1
        elif ch == c:
            depth -= 1
            if depth == 0:
                return i + 1
        i += 1
    raise TranslateError("unbalanced %s" % o)


def function_body(src, signature_regex):
    """text between the braces of the first function whose header matches the regex (comments must be stripped)"""
    m = re.search(signature_regex, src)
    if not m:
        raise TranslateError("function not found: %s" % signature_regex)
    i = src.index("{", m.end() - 1) if src[m.end() - 1] != "{" else m.end() - 1
    j = match_brace(src, i)
    return src[i + 1:j - 1]


# ---------------------------------------------------------------- emitters

class Emitter:
    """expression -> Lean text over one carrier.
    carrier: 'Rat' | 'Real' | 'Float' | 'Nat'
    env: dict identifier/member-path -> Lean text (already typed in the carrier), plus dict of int-typed names
    """

    def __init__(self, carrier, env, int_names=(), calls=None):
        self.carrier = carrier
        self.env = env
        self.int_names = set(int_names)
        self.calls = calls or {}

    def path(self, e):
        if e[0] == "id":
            return e[1]
        if e[0] == "mem":
            return self.path(e[1]) + ("->" if e[3] else ".") + e[2]
        if e[0] == "idx":
            return self.path(e[1]) + "[" + self.path(e[2]) + "]"
        if e[0] == "num":
            return e[1]
        if e[0] == "call":
            return self.path(e[1]) + "(" + ",".join(self.path(a) for a in e[2]) + ")"
        raise TranslateError("no path for %r" % (e,))

    def is_int(self, e):
        """C typing: is this expression of integer type?"""
        k = e[0]
        if k == "num":
            return e[2]
        if k in ("id", "mem", "idx"):
            try:
                return self.path(e) in self.int_names
            except TranslateError:
                return False
        if k == "un":
            return self.is_int(e[2])
        if k == "bin":
            if e[1] in ("<", ">", "<=", ">=", "==", "!=", "&&", "||"):
                return True
            return self.is_int(e[2]) and self.is_int(e[3])
        if k == "cast":
            return e[1] in ("int", "size_t", "long")
        if k == "call":
            return False
        if k == "tern":
            return self.is_int(e[2]) and self.is_int(e[3])
        return False

    def lit(self, txt):
        c = self.carrier
        if c == "Nat":
            if not re.fullmatch(r"\d+", txt):
                raise TranslateError("non-integer literal %s in Nat context" % txt)
            return txt
        if c == "Float":
            return "(%s : Float)" % (txt if ("." in txt or "e" in txt.lower()) else txt + ".0")
        # exact decimal -> rational
        m = re.fullmatch(r"(\d*)\.?(\d*)(?:[eE]([-+]?\d+))?", txt)
        if not m:
            raise TranslateError("bad literal %s" % txt)
        ip, fp, ex = m.group(1) or "0", m.group(2) or "", int(m.group(3) or 0)
        num = int(ip + fp)
        den = 10 ** len(fp)
        if ex >= 0:
            num *= 10 ** ex
        else:
            den *= 10 ** (-ex)
        from math import gcd
        g = gcd(num, den) or 1
        num //= g
        den //= g
        ty = "ℝ" if c == "Real" else "Rat"
        if den == 1:
            return "(%d : %s)" % (num, ty)
        return "((%d : %s) / %d)" % (num, ty, den)

    def emit(self, e):
        k = e[0]
        if k == "num":
            return self.lit(e[1])
        if k in ("id", "mem", "idx"):
            p = self.path(e)
            if p in self.env:
                return self.env[p]
            raise TranslateError("unknown name %s" % p)
        if k == "un":
            if e[1] == "-":
                return "(-%s)" % self.emit(e[2])
            if e[1] == "+":
                return self.emit(e[2])
            raise TranslateError("unary %s not supported" % e[1])
        if k == "cast":
            if e[1] == "double" or e[1] == "float":
                return self.emit(e[2])
            raise TranslateError("cast to %s not supported in numeric context" % e[1])
        if k == "bin":
            op = e[1]
            if op in ("+", "-", "*"):
                return "(%s %s %s)" % (self.emit(e[2]), op, self.emit(e[3]))
            if op == "/":
                if self.is_int(e[2]) and self.is_int(e[3]) and self.carrier != "Nat":
                    # C integer division: truncating.  Emit it as such so that proofs see it.
                    ty = {"Rat": "Rat", "Real": "ℝ", "Float": "Float"}[self.carrier]
                    if self.carrier == "Float":
                        return "(Float.ofInt (Int.tdiv %s %s))" % (self.emit_int(e[2]), self.emit_int(e[3]))
                    return "((Int.tdiv %s %s : Int) : %s)" % (self.emit_int(e[2]), self.emit_int(e[3]), ty)
                return "(%s / %s)" % (self.emit(e[2]), self.emit(e[3]))
            if op == ">>" and self.carrier == "Nat":
                return "(%s >>> %s)" % (self.emit(e[2]), self.emit(e[3]))
            if op == "<<" and self.carrier == "Nat":
                return "(%s <<< %s)" % (self.emit(e[2]), self.emit(e[3]))
            if op == "&" and self.carrier == "Nat":
                return "(%s &&& %s)" % (self.emit(e[2]), self.emit(e[3]))
            if op == "|" and self.carrier == "Nat":
                return "(%s ||| %s)" % (self.emit(e[2]), self.emit(e[3]))
            if op == "%" and self.carrier == "Nat":
                return "(%s %% %s)" % (self.emit(e[2]), self.emit(e[3]))
            raise TranslateError("binary %s not supported in numeric context" % op)
        if k == "call":
            try:
                whole = self.path(e)
                if whole in self.env:
                    return self.env[whole]
            except TranslateError:
                pass
            fn = self.path(e[1])
            if fn == "pow" and len(e[2]) == 2:
                base, ex = e[2]
                if ex[0] == "num" and ex[2]:
                    if self.carrier == "Float":
                        return "(Float.pow %s %s)" % (self.emit(base), self.lit(ex[1]))
                    return "(%s ^ %s)" % (self.emit(base), ex[1])
                raise TranslateError("pow with non-literal integer exponent")
            if fn in self.calls:
                return self.calls[fn](self, e[2])
            raise TranslateError("call to %s not supported" % fn)
        if k == "tern":
            return "(if %s then %s else %s)" % (self.cond(e[1]), self.emit(e[2]), self.emit(e[3]))
        raise TranslateError("expression kind %s not supported" % k)

    def emit_int(self, e):
        if e[0] == "num" and e[2]:
            return "(%s : Int)" % e[1]
        if e[0] == "bin" and e[1] in "+-*":
            return "(%s %s %s)" % (self.emit_int(e[2]), e[1], self.emit_int(e[3]))
        if e[0] == "un" and e[1] == "-":
            return "(-%s)" % self.emit_int(e[2])
        raise TranslateError("integer expression too complex: %r" % (e,))

    def cond(self, e):
        """boolean (Prop-valued, decidable) condition"""
        k = e[0]
        if k == "bin" and e[1] in ("<", ">", "<=", ">=", "==", "!="):
            op = {"<": "<", ">": ">", "<=": "≤", ">=": "≥", "==": "=", "!=": "≠"}[e[1]]
            return "(%s %s %s)" % (self.emit(e[2]), op, self.emit(e[3]))
        if k == "bin" and e[1] == "&&":
            return "(%s ∧ %s)" % (self.cond(e[2]), self.cond(e[3]))
        if k == "bin" and e[1] == "||":
            return "(%s ∨ %s)" % (self.cond(e[2]), self.cond(e[3]))
        if k == "un" and e[1] == "!":
            return "(¬ %s)" % self.cond(e[2])
        p = None
        try:
            p = self.path(e)
        except TranslateError:
            pass
        if p is not None and p in self.env:
            return "(%s = true)" % self.env[p]
        raise TranslateError("condition not supported: %r" % (e,))


def strip_guarded(src, guard="KAUZLARI_SYMPLER_VERIF"):
    """remove preprocessor regions that are only active with the verification guard"""
    out = []
    depth = 0       # >0 while inside a guarded region
    for line in src.splitlines():
        s = line.strip()
        if depth == 0:
            if re.match(r"#\s*if(def)?\b.*\b%s\b" % guard, s) and not re.match(r"#\s*ifndef", s):
                depth = 1
                out.append("")
                continue
            out.append(line)
        else:
            if re.match(r"#\s*if", s):
                depth += 1
            elif re.match(r"#\s*endif", s):
                depth -= 1
            elif depth == 1 and re.match(r"#\s*else", s):
                # the else-branch of a guard is the production code
                depth = 0
                out.append("")
                # we now must skip the closing #endif of this construct: mark with negative trick
                out.append("//__verif_else__")
                continue
            out.append("")
    txt = "\n".join(out)
    # remove the #endif that closes a guard whose #else branch we kept
    txt = re.sub(r"//__verif_else__(.*?)#\s*endif", lambda m: m.group(1), txt, flags=re.S)
    return txt


# ---------------------------------------------------------------- imperative blocks -> SSA let-chains

def assigned_vars(stmts):
    out = []
    for s in stmts:
        k = s[0]
        if k == "assign" and s[1][0] == "id":
            if s[1][1] not in out:
                out.append(s[1][1])
        elif k == "decl" and s[3] is not None:
            pass            # a local: not part of the state
        elif k == "block":
            for v in assigned_vars(s[1]):
                if v not in out:
                    out.append(v)
        elif k == "if":
            for br in (s[2], s[3]):
                if br is not None:
                    for v in assigned_vars([br]):
                        if v not in out:
                            out.append(v)
    return out


def ssa_block(em, stmts, state, indent="  ", bool_vars=()):
    """Lean text: a chain of `let` rebinding the variables of `state` (list of names, all in em.env as themselves),
    ending in the tuple of the state.  Supported: assign (=, +=, -=) to state variables or new locals, decl, if/else-if/else,
    blocks.  `break`/`return` are not handled here (the caller models the loop exit)."""
    lines = []

    def tup(vs):
        return vs[0] if len(vs) == 1 else "(" + ", ".join(vs) + ")"

    def emit_rhs(name, e):
        if name in bool_vars:
            return "decide %s" % em.cond(e)
        return em.emit(e)

    def go(ss, ind):
        out = []
        for s in ss:
            k = s[0]
            if k == "block":
                out += go(s[1], ind)
            elif k == "decl":
                if s[3] is None:
                    continue
                em.env[s[2]] = s[2]
                out.append("%slet %s := %s" % (ind, s[2], emit_rhs(s[2], s[3])))
            elif k == "assign":
                if s[1][0] != "id":
                    raise TranslateError("ssa: assignment to %r" % (s[1],))
                name = s[1][1]
                em.env.setdefault(name, name)
                rhs = s[3] if s[2] == "=" else ("bin", s[2][0], s[1], s[3])
                out.append("%slet %s := %s" % (ind, name, emit_rhs(name, rhs)))
            elif k == "if":
                vs = assigned_vars([s])
                if not vs:
                    continue
                def branch(b, ind2):
                    if b is None:
                        return "%s%s" % (ind2, tup(vs))
                    body = go([b], ind2)
                    return "\n".join(body + ["%s%s" % (ind2, tup(vs))])
                txt = "%slet %s :=\n%s  if %s then\n%s\n%s  else\n%s" % (ind, tup(vs), ind, em.cond(s[1]), branch(s[2], ind + "    "), ind, branch(s[3], ind + "    "))
                out.append(txt)
            elif k in ("expr",):
                continue
            else:
                raise TranslateError("ssa: statement %s not supported" % k)
        return out
    lines = go(stmts, indent)
    lines.append("%s%s" % (indent, tup(state)))
    return "\n".join(lines)
