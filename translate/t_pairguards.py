"""T3 for C04 / C10: the acts-on guard of EVERY write to a pair partner in the tree
   all files under source/{include,src}/{force,callable,symbol,reflector,...}: every statement that assigns to
   `<pair>->firstPart()->{v,r,force,tag…}` / `<pair>->secondPart()->…` (or through a local alias `Particle* x = …->firstPart()`),
   with the conditions of all enclosing `if`s  ->  lean/Sympler/Gen/PairGuardsGen.lean

A write is GUARDED if some enclosing condition contains the partner's own flag (`actsOnFirst()` for the first partner,
`actsOnSecond()` for the second).  Serial branch of `_OPENMP` conditionals."""
import os
import re
from cexpr import strip_comments, strip_guarded, TranslateError
from t_dyn import no_openmp

DIRS = ["source/include/force", "source/src/force", "source/include/callable", "source/src/callable", "source/include/symbol", "source/src/symbol",
        "source/include/integrator", "source/src/integrator", "source/include/basic", "source/src/basic", "source/include/meter", "source/src/meter",
        "source/include/reflector", "source/src/reflector"]
FIELD = r"(?:v|r|force|tag|dt)\b"
ASSIGN = r"(?:\+=|-=|\*=|/=|(?<![=!<>+\-*/])=(?!=))"


def tokens(txt):
    """(kind, text, pos): kinds  if / else / open / close / semi / loop"""
    i, n = 0, len(txt)
    rx = re.compile(r"\b(if|else|for|while|switch)\b|[{};]")
    while True:
        m = rx.search(txt, i)
        if not m:
            return
        t = m.group(0)
        if t in ("if", "for", "while", "switch"):
            j = m.end()
            while j < n and txt[j] in " \t\n":
                j += 1
            if j < n and txt[j] == "(":
                depth, k = 0, j
                while k < n:
                    depth += txt[k] == "("
                    depth -= txt[k] == ")"
                    k += 1
                    if depth == 0:
                        break
                yield ("if" if t == "if" else "loop", txt[j + 1:k - 1], m.start())
                i = k
                continue
            i = m.end()
            continue
        yield ({"else": "else", "{": "open", "}": "close", ";": "semi"}[t], t, m.start())
        i = m.end()


def guards_at(txt, pos):
    """conditions of the `if`s enclosing position pos (braced or brace-less), innermost last"""
    stack = []           # frames: list of conditions introduced by this block
    pending = []         # conditions of brace-less if/else waiting for their statement
    last_if = None
    for kind, text, p in tokens(txt):
        if p >= pos:
            break
        if kind == "if":
            pending.append(" ".join(text.split()))
            last_if = " ".join(text.split())
        elif kind == "loop":
            pending.append("")
        elif kind == "else":
            pending.append("!(" + (last_if or "?") + ")")
        elif kind == "open":
            stack.append(pending)
            pending = []
        elif kind == "close":
            if stack:
                stack.pop()
            pending = []
        elif kind == "semi":
            pending = []
    out = []
    for fr in stack:
        out += [c for c in fr if c]
    out += [c for c in pending if c]
    return out


def analyse(path, rel):
    src = no_openmp(strip_guarded(strip_comments(open(path).read())))
    rows = []
    alias = {}
    for m in re.finditer(r"\bParticle\s*\*\s*(\w+)\s*=\s*(?:\(\s*\*?\s*)?\w+\s*\)?\s*->\s*(first|second)Part\(\)", src):
        alias.setdefault(m.group(1), set()).add(m.group(2))
    # declared first (`Particle* first;`) and assigned later (`first = pD->firstPart();`)
    declared = set(re.findall(r"\bParticle\s*\*\s*(\w+)\s*;", src))
    for m in re.finditer(r"(?<=[;{}])\s*(\w+)\s*=\s*(?:\(\s*\*?\s*)?\w+\s*\)?\s*->\s*(first|second)Part\(\)\s*(?=;)", src):
        if m.group(1) in declared:
            alias.setdefault(m.group(1), set()).add(m.group(2))
    desig = [(r"\w+\s*\)?\s*->\s*firstPart\(\)", "first"), (r"\w+\s*\)?\s*->\s*secondPart\(\)", "second")]
    for a, ws in alias.items():
        if len(ws) == 1:
            desig.append((r"\b%s" % re.escape(a), list(ws)[0]))
    for rx, who in desig:
        for m in re.finditer(r"(?<![\w.>])\(?\s*\*?\s*(?:%s)\s*->\s*%s" % (rx, FIELD), src):
            # the statement: from the previous ; { } to the next ;
            a = max(src.rfind(";", 0, m.start()), src.rfind("{", 0, m.start()), src.rfind("}", 0, m.start())) + 1
            b = src.find(";", m.end())
            stmt = src[a:b if b > 0 else len(src)]
            off = m.start() - a
            # an assignment operator AFTER the designator, at parenthesis depth <= that of the designator start
            tail = stmt[off:]
            am = re.search(ASSIGN, tail)
            if not am:
                continue
            before = tail[:am.start()]
            if before.count("(") < before.count(")"):
                continue          # the designator sits inside the argument list of a call whose result is assigned elsewhere
            if re.search(ASSIGN, stmt[:off]) and not re.match(r"\s*(?:\(\s*\*)?", stmt[:off]).group(0) == stmt[:off]:
                # something is assigned before the designator in the same statement: the designator is on a right-hand side
                if not re.search(r"(?:if|for|while)\s*\($", stmt[:off].strip()):
                    continue
            gs = guards_at(src, m.start())
            own = "actsOnFirst()" if who == "first" else "actsOnSecond()"
            other = "actsOnSecond()" if who == "first" else "actsOnFirst()"
            line = src.count("\n", 0, m.start()) + 1
            rows.append(dict(file=rel, line=line, who=who, own=any(own in g.replace(" ", "") for g in gs), other=any(other in g.replace(" ", "") for g in gs),
                             stmt=" ".join(stmt.split())[:100],
                             listcut=any(re.search(r"cp\(\)\s*->\s*cutoff\(\)|\bcp\s*->\s*cutoff\(\)|maxCutoff|listCutoff", g) and re.search(r"abs\w*\(\)", g) for g in gs)))
    # de-duplicate (alias and direct patterns may hit the same statement)
    seen, out = set(), []
    for r in rows:
        k = (r["file"], r["line"], r["who"])
        if k not in seen:
            seen.add(k)
            out.append(r)
    return out


def collect(repo):
    rows = []
    for d in DIRS:
        full = os.path.join(repo, d)
        for root, _, files in os.walk(full):
            for f in sorted(files):
                if f.endswith((".h", ".cpp")):
                    p = os.path.join(root, f)
                    rows += analyse(p, os.path.relpath(p, os.path.join(repo, "source")))
    rows.sort(key=lambda r: (r["file"], r["line"], r["who"]))
    return rows


def generate(repo):
    rows = collect(repo)
    if not rows:
        raise TranslateError("no write to a pair partner found anywhere")
    body = ",\n  ".join('("%s", %d, %s, %s, %s)' % (r["file"], r["line"], "true" if r["who"] == "first" else "false", "true" if r["own"] else "false", "true" if r["other"] else "false") for r in rows)
    lc = ", ".join('("%s", %d)' % (r["file"], r["line"]) for r in rows if r.get("listcut"))
    return """/- GENERATED by /verif/translate/t_pairguards.py from every file under source/{include,src}/{force,callable,symbol,integrator,basic,meter,reflector}.
   Do not edit: rewritten on every check run. -/
namespace Sympler.Gen.PairGuards

/-- every statement of the tree that assigns to a field of a pair partner: `(file, line, partner is the FIRST one, some enclosing
`if` tests the partner's OWN acts-on flag, some enclosing `if` tests the OTHER partner's flag)` -/
def partnerWrites : List (String × Nat × Bool × Bool × Bool) := [
  %s]

/-- those of them that sit under an `if` comparing the pair distance with the cutoff of the SHARED neighbour list (`cp()->cutoff()`)
instead of the module's own cutoff: `(file, line)` -/
def listCutoffGuarded : List (String × Nat) := [%s]

end Sympler.Gen.PairGuards
""" % (body, lc)


if __name__ == "__main__":
    import sys
    for r in collect(sys.argv[1] if len(sys.argv) > 1 else "/repo"):
        print("%-70s %5d %-6s own=%d other=%d  %s" % (r["file"], r["line"], r["who"], r["own"], r["other"], r["stmt"][:70]))
