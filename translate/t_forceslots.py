"""T3 for C20 (OpenMP-only code of the force modules): the bookkeeping of the per-thread copy vectors
   every  X::setForceSlots  (which slot of m_offsetToVec[thread] / m_posInVec is set for which colour) and
   every  write into a copy vector  (*partner->tag.vectorDoubleByOffset(m_offsetToVec[thread_no].S))[m_posInVec.S' + …]
   of all files under source/src and source/include   ->  lean/Sympler/Gen/ForceSlotsGen.lean

Two layouts exist in the tree and both are recognised:
  pair layout     setForceSlots tests `colK == cp->firstColour()` / `secondColour()`  -> slot .first / .second;
                  kernels write the first partner through .first, the second partner through .second;
  species layout  setForceSlots tests only `colK == intr->colour()`  -> slot K (1 = .first, 2 = .second);
                  kernels guard every write by `cK == partner->c` and use slot K.
A row records what the code does and what its own guard demands; `Props/ForceSlots.lean` proves (by evaluation of the table) that
all rows are consistent.  A site the translator cannot classify becomes a row with expected side "?" (the theorem then fails)."""
import os
import re
from cexpr import strip_comments, strip_guarded, match_brace, TranslateError
from t_threads import with_openmp
from t_dyn import split_statements

FUNC = re.compile(r"(?:^|\n)[ \t]*(?:virtual\s+|inline\s+|static\s+)*[\w:<>\*&]+[\w:<>\*&\s]*?\b(?:(\w+)::)?(\w+)\s*\(([^;{}()]|\([^()]*\))*\)\s*(?:const\s*)?\{")


def functions(src):
    """(class or '', name, body) of every function definition whose body mentions the copy-vector bookkeeping"""
    out, pos = [], 0
    while True:
        m = FUNC.search(src, pos)
        if not m:
            break
        brace = m.end() - 1
        try:
            end = match_brace(src, brace)
        except Exception:
            pos = m.end()
            continue
        name = m.group(2)
        if name in ("if", "for", "while", "switch", "catch"):
            pos = m.end()
            continue
        body = src[brace + 1:end - 1]
        if any(k in body for k in ("m_offsetToVec", "m_posInVec", "m_copy_slots", "m_vector_slots", "copySlots()", "vectorSlots()")):
            out.append((m.group(1) or "", name, body))
        pos = end
    return out


def side_of_partner(expr):
    e = expr.replace(" ", "")
    if re.search(r"first|Part1|\bp1\b|\bpi\b|^i->|^p->", e) and not re.search(r"second", e):
        return "first" if re.search(r"first|1|\bpi\b", e) else "?"
    if re.search(r"second|Part2|\bp2\b|\bpj\b", e):
        return "second"
    return "?"


def walk(nodes, conds, visit):
    for n in nodes:
        if n[0] == "if":
            walk(n[2], conds + [n[1]], visit)
            if n[3]:
                walk(n[3], conds + ["!(" + n[1] + ")"], visit)
        elif n[0] == "for":
            walk(n[2], conds, visit)
        else:
            visit(n[1], conds)


def generate(repo):
    set_rows, write_rows, calc_rows = [], [], []
    files = []
    for root in ("source/src", "source/include"):
        for dp, _, fs in os.walk(os.path.join(repo, root)):
            for f in sorted(fs):
                if f.endswith((".cpp", ".h")):
                    files.append(os.path.join(dp, f))
    for path in sorted(files):
        raw = open(path, errors="replace").read()
        if not any(k in raw for k in ("m_offsetToVec", "m_posInVec", "m_copy_slots", "m_vector_slots", "copySlots()", "vectorSlots()")):
            continue
        rel = os.path.relpath(path, repo)
        src = with_openmp(strip_guarded(strip_comments(raw)))
        for cls, name, body in functions(src):
            nodes = split_statements(body)
            if name == "setForceSlots":
                blocks = {}

                def visit(t, conds, blocks=blocks):
                    m = re.fullmatch(r"m_offsetToVec\s*\[\s*thread_no\s*\]\s*\.\s*(first|second)\s*=\s*(.+)", t)
                    if m:
                        blocks.setdefault(tuple(conds), {})["off"] = (m.group(1), "".join(m.group(2).split()) == "intr->offsetToVec()[thread_no]")
                        return
                    m = re.fullmatch(r"m_posInVec\s*\.\s*(first|second)\s*=\s*(.+)", t)
                    if m:
                        blocks.setdefault(tuple(conds), {})["pos"] = (m.group(1), "".join(m.group(2).split()) == "intr->posInVec()")
                walk(nodes, [], visit)
                for conds, b in blocks.items():
                    ctext = " && ".join(conds)
                    flat = ctext.replace(" ", "")
                    exp = "?"
                    mm = [x for x in re.findall(r"(!?)\(?col(\d)==cp->(first|second)Colour\(\)", flat)]
                    pos_cp = [x for x in re.findall(r"(?<![!(])col(\d)==cp->(first|second)Colour\(\)", flat)]
                    # the innermost positive test of the pair's colour decides; else the colour of the species tested against the integrator
                    inner = [c for c in conds if not c.startswith("!(")]
                    cp_tests = [re.search(r"col(\d)\s*==\s*cp->(first|second)Colour\(\)", c) for c in inner]
                    cp_tests = [x for x in cp_tests if x]
                    if cp_tests:
                        exp = cp_tests[-1].group(2)
                    else:
                        it = [re.search(r"col(\d)\s*==\s*intr->colour\(\)", c) for c in inner]
                        it = [x for x in it if x]
                        if it:
                            exp = {"1": "first", "2": "second"}.get(it[-1].group(1), "?")
                    off = b.get("off", ("missing", False))
                    posv = b.get("pos", ("missing", False))
                    unit = os.path.basename(rel).rsplit(".", 1)[0]
                    set_rows.append((rel, "force:" + unit, cls, ctext[:120], "pair" if cp_tests else "species", exp, off[0], posv[0], off[1] and posv[1]))
            else:
                # the symbol calculators: slots are set centrally (Simulation) from the colours of the pair ...
                for m in re.finditer(r"->\s*(vectorSlots\(\)|copySlots\(\)\s*\[\s*t\s*\])\s*\.\s*(first|second)\s*=\s*([^;]*);", body):
                    rhs = m.group(3)
                    f1, f2 = "cp->firstColour()" in rhs, "cp->secondColour()" in rhs
                    want = "first" if (f1 and not f2) else "second" if (f2 and not f1) else "?"
                    unit = os.path.basename(rel).rsplit(".", 1)[0]
                    calc_rows.append((rel, cls + "::" + name, "set " + "".join(m.group(1).split()), want, m.group(2)))
                # ... and mergeCopies names them copySlot1/2, vecSlot1/2
                for m in re.finditer(r"\b(copySlot|vecSlot)(\d)\s*=\s*(m_copy_slots\s*\[\s*thread_no\s*\]|m_vector_slots)\s*\.\s*(first|second)\s*;", body):
                    okname = (m.group(1) == "copySlot") == m.group(3).startswith("m_copy_slots")
                    calc_rows.append((rel, cls + "::" + name, "alias %s%s" % (m.group(1), m.group(2)), {"1": "first", "2": "second"}.get(m.group(2), "?") if okname else "?", m.group(4)))

                def visit(t, conds, rel=rel, cls=cls, name=name):
                    for m in re.finditer(r"\(\s*\*\s*([\w\->\(\)\.\[\]]+?)\s*->\s*tag\s*\.\s*vectorDoubleByOffset\s*\(\s*(?:m_offsetToVec|m_copy_slots)\s*\[\s*thread_no\s*\]\s*\.\s*(first|second)\s*\)\s*\)\s*\[\s*(?:m_posInVec|m_vector_slots)\s*\.\s*(first|second)", t):
                        partner = m.group(1)
                        pside = side_of_partner(partner)
                        exp = pside
                        inner = [c for c in conds if not c.startswith("!(")]
                        g = [re.search(r"\b(?:m_)?c(?:ol)?(\d)\s*==\s*(.+?)\s*->\s*c\b", c) for c in inner]
                        g = [x for x in g if x]
                        layout = "pair"
                        if g:
                            layout = "species"
                            k, who = g[-1].group(1), g[-1].group(2)
                            exp = {"1": "first", "2": "second"}.get(k, "?") if "".join(who.split()) == "".join(partner.split()) else "?"
                        write_rows.append((rel, ("force:" if "/force/" in rel else "calc:") + os.path.basename(rel).rsplit(".", 1)[0], cls + "::" + name, partner, layout, exp, m.group(2), m.group(3)))
                walk(nodes, [], visit)
    # ---- serial branch versus OpenMP branch of one kernel: the same increments (partner, += / -=, right-hand side)
    inc_rows = []

    def norm(x):
        x = re.sub(r"\s+", "", x).replace("this->", "")
        x = re.sub(r"\[_?[a-zA-Z]\w*\]$", "", x)          # component index of the OpenMP copy loop
        x = re.sub(r"\(\w+,\w+\)$", "", x)
        x = re.sub(r"\((\w+)\)", r"\1", x)                # (name) -> name
        return x
    for path in sorted(files):
        raw = open(path, errors="replace").read()
        if "vectorDoubleByOffset" not in raw:
            continue
        rel = os.path.relpath(path, repo)
        src = strip_guarded(strip_comments(raw))
        for m in re.finditer(r"#\s*if(n?)def\s+_OPENMP\s*\n(.*?)#\s*else\s*\n(.*?)#\s*endif", src, re.S):
            a, b = m.group(2), m.group(3)
            ser, omp = (a, b) if m.group(1) == "n" else (b, a)
            if "vectorDoubleByOffset" not in omp:
                continue
            sw = re.findall(r"([\w\->\(\)\.]+?)->(?:force\s*\[[^\]]*\]|tag\s*\.\s*\w+\s*\([^;]*?\))\s*(?:\[[^\]]*\]|\([^)]*\))?\s*(\+=|-=)\s*([^;]+);", ser)
            ow = re.findall(r"\(\s*\*\s*([\w\->\(\)\.]+?)->tag\s*\.\s*vectorDoubleByOffset\s*\([^;]*?\)\s*\)\s*\[[^;]*?\]\s*(\+=|-=)\s*([^;]+);", omp)
            S = sorted(set("%s %s %s" % (x[0], x[1], norm(x[2])) for x in sw))
            O = sorted(set("%s %s %s" % (x[0], x[1], norm(x[2])) for x in ow))
            inc_rows.append((rel, " ; ".join(S), " ; ".join(O)))
    if not set_rows or not write_rows or not inc_rows:
        raise TranslateError("no setForceSlots blocks / copy-vector writes found (OpenMP branch)")

    def q(s):
        return '"' + s.replace("\\", "\\\\").replace('"', '\\"') + '"'
    out = """/- GENERATED by /verif/translate/t_forceslots.py from the OpenMP branch of every file under /repo/source that touches
   m_offsetToVec / m_posInVec.  Do not edit: rewritten on every check run. -/
namespace Sympler.Gen.ForceSlots

/-- every block of every `X::setForceSlots` that sets a copy-vector slot:
`(file, base name of the file, class, enclosing conditions, layout (pair: the colours of the pair are tested; species: only the species'
  colour), side its own colour test demands, side of m_offsetToVec[thread] set, side of m_posInVec set,
  right-hand sides are intr->offsetToVec()[thread_no] and intr->posInVec())` -/
def setSites : List (String × String × String × String × String × String × String × String × Bool) := [
%s]

/-- every write into a per-thread copy vector:
`(file, family (force module / symbol calculator) : base name of the file, function, partner expression, layout, side the partner / its species guard demands,
  side of m_offsetToVec used, side of m_posInVec used)` -/
def writeSites : List (String × String × String × String × String × String × String × String) := [
%s]

/-- symbol calculators (pair sums): where `Simulation` sets `vectorSlots()` / `copySlots()[t]` and where `mergeCopies` reads them into
`copySlot1/2`, `vecSlot1/2`:  `(file, function, what, side demanded by the colour on the right-hand side / by the variable's number, side used)` -/
def calcSites : List (String × String × String × String × String) := [
%s]

/-- every kernel with a serial and an OpenMP branch (`#ifndef _OPENMP … #else … #endif`): the set of increments
`partner op right-hand side` of the serial branch and of the OpenMP branch (component index of the copy loop removed):
`(file, serial increments, OpenMP increments)` -/
def incSites : List (String × String × String) := [
%s]

end Sympler.Gen.ForceSlots
""" % (",\n".join("  (%s, %s)" % (", ".join(q(x) for x in r[:-1]), "true" if r[-1] else "false") for r in set_rows),
       ",\n".join("  (%s)" % ", ".join(q(x) for x in r) for r in write_rows),
       ",\n".join("  (%s)" % ", ".join(q(x) for x in r) for r in calc_rows),
       ",\n".join("  (%s)" % ", ".join(q(x) for x in r) for r in inc_rows))
    return out


if __name__ == "__main__":
    import sys
    print(generate(sys.argv[1] if len(sys.argv) > 1 else "/repo"), end="")
