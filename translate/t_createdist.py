"""T3 for C01 / C13: every call site of createDistancesForSame / createDistancesForDifferent in CellLink::createDistances (serial branch)
   cell.cpp  ->  lean/Sympler/Gen/CreateDistGen.lean      (the table `sites`, in source order)

`Sympler/PairSearch.lean` builds its `linkPairs` by INTERPRETING this table, so which particle lists (cell, free / frozen, colour) are
paired, into which pair list, with which direction and acts-on flags, is regenerated from the source on every run.  The loop skeleton
is checked here and transcribed by hand in the model:
   same cell:        for c1 { cp(c1,c1): [branch 0];  for c2 = c1+1 … { cp(c1,c2): [branch 1] } }
   different cells:  for c1 for c2 { cp(c1,c2): if (c1 < c2) [branch 2] else [branch 3] }          each under `if (cp->needPairs())`"""
import os
import re
from cexpr import strip_comments, strip_guarded, function_body, TranslateError
from t_dyn import no_openmp, split_statements


def split_args(txt):
    depth, parts, cur = 0, [], ""
    for ch in txt:
        depth += ch in "([{"
        depth -= ch in ")]}"
        if ch == "," and depth == 0:
            parts.append(cur.strip())
            cur = ""
        else:
            cur += ch
    parts.append(cur.strip())
    return parts


def walk(nodes, ctx, visit):
    for n in nodes:
        if n[0] == "if":
            walk(n[2], ctx + [("if", n[1])], visit)
            if n[3]:
                walk(n[3], ctx + [("else", n[1])], visit)
        elif n[0] == "for":
            walk(n[2], ctx + [("for", n[1])], visit)
        else:
            visit(n[1], ctx)


def cell(x):
    return {"m_first": 0, "m_second": 1}[x.replace(" ", "")]


def plist(x):
    m = re.fullmatch(r"(m_first|m_second)->(particles|frozenParticles)\((c1|c2)\)", x.replace(" ", ""))
    if not m:
        raise TranslateError("particle list `%s` not recognised" % x)
    return "(%d, %s, %s)" % (cell(m.group(1)), "true" if m.group(2) == "frozenParticles" else "false", m.group(3)[1])


def ao(x):
    t = x.replace(" ", "")
    if t in ("true", "false"):
        return 1 if t == "true" else 0
    if t == "m_acts_on.first":
        return 2
    if t == "m_acts_on.second":
        return 3
    raise TranslateError("acts-on argument `%s` not recognised" % x)


def rows_of(src, sig):
    body = function_body(src, sig)
    nodes = split_statements(body)
    rows = []

    def visit(t, ctx):
        m = re.match(r"^(createDistancesForSame|createDistancesForDifferent)\s*\((.*)\)$", t, re.S)
        if not m:
            if "createDistancesFor" in t:
                raise TranslateError("call `%s` not recognised" % t[:80])
            return
        flat = [(k, "".join(c.split())) for k, c in ctx]
        same_cell = ("if", "m_first==m_second") in flat
        diff_cell = ("else", "m_first==m_second") in flat
        if same_cell == diff_cell:
            raise TranslateError("call outside `if (m_first == m_second) … else …`")
        if ("if", "cp->needPairs()") not in flat:
            raise TranslateError("call not under `if (cp->needPairs())`")
        fors = [c for k, c in flat if k == "for"]
        if same_cell:
            if not fors or not re.fullmatch(r"size_tc1=0;c1<n_colours;\+\+c1", fors[0]):
                raise TranslateError("same cell: outer loop over c1 not recognised")
            inner = len(fors) > 1
            if inner and not re.fullmatch(r"size_tc2=c1\+1;c2<n_colours;\+\+c2", fors[1]):
                raise TranslateError("same cell: inner loop `c2 = c1+1 …` not recognised")
            branch = 1 if inner else 0
        else:
            if len(fors) != 2 or not re.fullmatch(r"size_tc1=0;c1<n_colours;\+\+c1", fors[0]) or not re.fullmatch(r"size_tc2=0;c2<n_colours;\+\+c2", fors[1]):
                raise TranslateError("different cells: loops over c1, c2 not recognised")
            if ("if", "c1<c2") in flat:
                branch = 2
            elif ("else", "c1<c2") in flat:
                branch = 3
            else:
                raise TranslateError("different cells: call outside `if (c1 < c2) … else …`")
        guard = 0
        for k, c in flat:
            if k == "if" and c == "m_acts_on.first":
                guard = 1
            elif k == "if" and c == "m_acts_on.second":
                guard = 2
            elif k == "else" and c.startswith("m_acts_on"):
                raise TranslateError("else-branch of an acts-on test")
        known = {"m_first==m_second", "cp->needPairs()", "c1<c2", "m_acts_on.first", "m_acts_on.second"}
        for k, c in flat:
            if k in ("if", "else") and c not in known:
                raise TranslateError("unexpected condition `%s` around a call" % c)
        a = split_args(m.group(2))
        lst = {"cp->freePairs()": "false", "cp->frozenPairs()": "true"}.get(a[0].replace(" ", ""))
        if lst is None or a[1].replace(" ", "") != "cutoff_sq":
            raise TranslateError("target list / cutoff argument not recognised in `%s`" % t[:80])
        if m.group(1) == "createDistancesForSame":
            if len(a) not in (6, 7) or a[5].replace(" ", "") != "m_cell_dist":
                raise TranslateError("createDistancesForSame: arguments not recognised")
            rows.append((branch, guard, "true", lst, int(a[2]), cell(a[3]), cell(a[3]), plist(a[4]), plist(a[4]), 1, 1))
        else:
            if len(a) not in (10, 11) or a[9].replace(" ", "") != "m_cell_dist":
                raise TranslateError("createDistancesForDifferent: arguments not recognised")
            rows.append((branch, guard, "false", lst, int(a[2]), cell(a[3]), cell(a[4]), plist(a[5]), plist(a[6]), ao(a[7]), ao(a[8])))
    walk(nodes, [], visit)
    if not rows:
        raise TranslateError("no call sites found")
    return rows


def fmt(rows):
    return ",\n".join("  { branch := %d, guard := %d, same := %s, frozenList := %s, dir := %d, cellA := %d, cellB := %d, la := %s, lb := %s, aoF := %d, aoS := %d }" % r for r in rows)


def generate(repo):
    from t_threads import with_openmp
    raw = strip_guarded(strip_comments(open(os.path.join(repo, "source/src/basic/cell.cpp")).read()))
    rows = rows_of(no_openmp(raw), r"void\s+CellLink::createDistances\s*\(\s*\)\s*\{")
    rows_omp = rows_of(with_openmp(raw), r"void\s+CellLink::createDistances\s*\(\s*int\s+thread_no\s*\)\s*\{")
    body_txt, omp_txt = fmt(rows), fmt(rows_omp)
    return """/- GENERATED by /verif/translate/t_createdist.py from /repo/source/src/basic/cell.cpp (CellLink::createDistances, serial branch).
   Do not edit: rewritten on every check run. -/
namespace Sympler.Gen.CreateDist

/-- one call of `createDistancesForSame` / `createDistancesForDifferent`:
`branch` 0 = same cell, pair (c1,c1); 1 = same cell, c1 < c2; 2 = different cells, c1 < c2; 3 = different cells, otherwise;
`guard`  0 = none, 1 = `if (m_acts_on.first)`, 2 = `if (m_acts_on.second)`;
`frozenList` = the target is `cp->frozenPairs()`;  `cellA/B` 0 = `m_first`, 1 = `m_second`;
`la`, `lb` = (cell, frozen list?, colour variable 1 | 2) of the two particle lists;
`aoF`, `aoS` 0 = false, 1 = true, 2 = `m_acts_on.first`, 3 = `m_acts_on.second` -/
structure Site where
  branch : Nat
  guard : Nat
  same : Bool
  frozenList : Bool
  dir : Int
  cellA : Nat
  cellB : Nat
  la : Nat × Bool × Nat
  lb : Nat × Bool × Nat
  aoF : Nat
  aoS : Nat
deriving DecidableEq, Repr

/-- all call sites in source order -/
def sites : List Site := [
%s]

/-- the call sites of the OpenMP version `CellLink::createDistances(int thread_no)` -/
def sitesOmp : List Site := [
%s]

end Sympler.Gen.CreateDist
""" % (body_txt, omp_txt)


if __name__ == "__main__":
    import sys
    print(generate(sys.argv[1] if len(sys.argv) > 1 else "/repo"), end="")
