"""T2 for C02: VerletCreator::setup / createDistances -> lean/Sympler/Gen/VerletGen.lean
   (scan loop body, counter-mode decision, counter updates, refresh wrap, list cutoff)."""
import os
import re
from cexpr import (strip_comments, strip_guarded, function_body, match_brace, parse_block, parse_expr, Emitter, ssa_block, TranslateError)


def macro_code_arg(src, macro, start=0):
    """last argument (code) of the first call of a FOR_EACH-style macro after `start`"""
    m = re.compile(r"\b%s\s*\(" % macro).search(src, start)
    if not m:
        raise TranslateError("macro %s not found" % macro)
    i = m.end() - 1
    j = match_brace(src, i)
    inner = src[i + 1:j - 1]
    # split top-level commas: phase, c, this, code...   (code may contain commas inside parentheses only)
    depth = 0
    parts, cur = [], ""
    for ch in inner:
        if ch in "([{":
            depth += 1
        if ch in ")]}":
            depth -= 1
        if ch == "," and depth == 0 and len(parts) < 3:
            parts.append(cur)
            cur = ""
        else:
            cur += ch
    parts.append(cur)
    return parts[-1], j


def generate(repo):
    src = strip_guarded(strip_comments(open(os.path.join(repo, "source/src/basic/verlet_creator.cpp")).read()))
    body = function_body(src, r"void\s+VerletCreator::createDistances\s*\(\s*\)\s*\{")
    setup = function_body(src, r"void\s+VerletCreator::setup\s*\(\s*\)\s*\{")
    # --- scan loop: first particle macro inside the `else` of `if(m_every)`
    i_every = re.search(r"if\s*\(\s*m_every\s*\)", body)
    if not i_every:
        raise TranslateError("if(m_every) not found")
    code, _ = macro_code_arg(body, "FOR_EACH_FREE_PARTICLE_C__PARALLEL", i_every.end())
    stmts = parse_block(code)
    # expected prologue: point_t dispNow = ...; double tempDisp = dispNow.abs();
    core = []
    seen_temp = False
    for s in stmts:
        if s[0] == "decl" and s[2] == "dispNow":
            continue
        if s[0] == "decl" and s[2] == "tempDisp":
            if not (s[3][0] == "call" and s[3][1] == ("mem", ("id", "dispNow"), "abs", False)):
                raise TranslateError("tempDisp is not dispNow.abs()")
            seen_temp = True
            continue
        if s[0] == "if" and s[1] == ("id", "newList") and s[2] == ("break",):
            continue                                   # the early exit is modelled by the loop in Sympler/Verlet.lean
        core.append(s)
    if not seen_temp:
        raise TranslateError("scan loop: declaration of tempDisp not found")
    em = Emitter("Rat", {"max_disp": "max_disp", "max2": "max2", "tempDisp": "tempDisp", "m_skin_size": "m_skin_size", "newList": "newList"})
    scan = ssa_block(em, core, ["max_disp", "max2", "newList"], bool_vars=("newList",))
    # --- scope and initial value of the scan state: declared (= 0) before the loop over colours, so that the two largest
    #     displacements are taken over ALL species
    scope_txt = body[i_every.end():]
    mloop = re.search(r"for\s*\(\s*size_t\s+c\s*=\s*0", scope_txt)
    md1 = re.search(r"double\s+max_disp\s*=\s*([^;]*);", scope_txt)
    md2 = re.search(r"double\s+max2\s*=\s*([^;]*);", scope_txt)
    if not (mloop and md1 and md2):
        raise TranslateError("declarations of max_disp / max2 or the colour loop not found")
    outside = md1.start() < mloop.start() and md2.start() < mloop.start()
    init1 = Emitter("Rat", {}).emit(parse_expr(md1.group(1)))
    init2 = Emitter("Rat", {}).emit(parse_expr(md2.group(1)))
    # --- counter mode decision
    m = re.search(r"newList\s*=\s*([^;]*m_counter[^;]*);", body[i_every.end():])
    if not m:
        raise TranslateError("counter-mode decision not found")
    dec = parse_expr(m.group(1))

    def bexpr(e):
        if e[0] == "bin" and e[1] == "||":
            return "(%s || %s)" % (bexpr(e[2]), bexpr(e[3]))
        if e[0] == "bin" and e[1] == "&&":
            return "(%s && %s)" % (bexpr(e[2]), bexpr(e[3]))
        if e[0] == "un" and e[1] == "!" and e[2] == ("id", "m_counter"):
            return "(m_counter == 0)"
        if e[0] == "bin" and e[1] in ("==", "!=", "<", ">", "<=", ">="):
            def nat(x):
                if x[0] == "cast":
                    return nat(x[2])
                if x[0] == "id" and x[1] in ("m_counter", "m_every"):
                    return x[1]
                if x[0] == "num" and x[2]:
                    return x[1]
                if x[0] == "bin" and x[1] in "+-":
                    return "(%s %s %s)" % (nat(x[2]), x[1], nat(x[3]))
                raise TranslateError("counter expression %r" % (x,))
            return "(%s %s %s)" % (nat(e[2]), e[1], nat(e[3]))
        raise TranslateError("counter-mode decision too complex: %r" % (e,))
    every = bexpr(dec)
    # --- counter updates
    mr = None
    for m1 in re.finditer(r"if\s*\(\s*newList\s*\)\s*\{", body):
        jb = match_brace(body, m1.end() - 1)
        rebuild_blk = body[m1.end():jb]
        mr = re.search(r"m_counter\s*=\s*(\d+)\s*;", rebuild_blk)
        if mr:
            break
    if not mr:
        raise TranslateError("m_counter assignment in the rebuild branch not found")
    rest = body[jb:]
    # the increment must be INSIDE the else-branch of `if (newList)` (the refresh branch), and nowhere else: an increment after the
    # if/else would also run after a rebuild (counter 2 instead of 1)
    me = re.match(r"\s*else\s*\{", rest)
    if not me:
        raise TranslateError("else-branch of `if (newList)` not found")
    je = match_brace(rest, me.end() - 1)
    refresh_blk, tail = rest[me.end():je], rest[je:]
    inc = r"\+\+\s*m_counter\s*;|m_counter\s*\+\+\s*;|m_counter\s*\+=\s*1\s*;"
    if len(re.findall(inc, refresh_blk)) == 1 and not re.search(inc, tail) and not re.search(inc, rebuild_blk):
        refresh_counter = "m_counter + 1"
    else:
        raise TranslateError("exactly one counter increment, inside the refresh branch, expected (found %d there, %d after the if/else, %d in the rebuild branch)"
                             % (len(re.findall(inc, refresh_blk)), len(re.findall(inc, tail)), len(re.findall(inc, rebuild_blk))))
    # --- refresh wrap (first occurrence in the else-branch)
    wraps = re.findall(r"if\s*\(\s*cartesian\[dir\]\s*([<>]=?)\s*(-?)\s*([0-9.]+)\s*\*\s*size\s*\)\s*cartesian\[dir\]\s*([-+])=\s*size\s*;", rest)
    if len(wraps) < 2 or len(wraps) % 2 != 0:
        raise TranslateError("refresh wrap statements not recognised: %r" % (wraps,))
    first = wraps[:2]
    for k in range(0, len(wraps), 2):
        if wraps[k:k + 2] != first:
            raise TranslateError("the refresh branches wrap differently: %r vs %r" % (wraps[k:k + 2], first))
    guarded = bool(re.search(r"periodic\w*\s*\[\s*dir\s*\]", rest))
    emr = Emitter("Rat", {})

    def wrapline(w):
        op, neg, fac, sign = w
        f = emr.lit(fac)
        thr = "(%s * size)" % f if not neg else "(-(%s * size))" % f
        return "  let c := if c %s %s then c %s size else c" % (op, thr, sign)
    # --- the rebuild branch: snapshot of the displacements, tested quantity of the scan
    snap = bool(re.search(r"if\s*\(\s*m_needDisp\s*\[\s*c\s*\]\s*\)\s*\{\s*FOR_EACH_FREE_PARTICLE_C__PARALLEL\s*\(\s*phase\s*,\s*c\s*,\s*this\s*,\s*\(?\s*i->tag\.pointByOffset\(\s*this->m_displacementOld_o\[c\]\s*\)\s*\)?\s*=\s*\(?\s*i->tag\.pointByOffset\(\s*this->m_displacement_o\[c\]\s*\)\s*\)?\s*;", " ".join(body.split())))
    scanned = bool(re.search(r"dispNow\s*=\s*\(?\s*\w+->tag\.pointByOffset\(\s*(?:this->)?m_displacement_o\[\w+\]\s*\)\s*\)?\s*-\s*\(?\s*\w+->tag\.pointByOffset\(\s*(?:this->)?m_displacementOld_o\[\w+\]\s*\)", " ".join(body.split())))
    # --- list cutoff
    mc = re.search(r"cp->setCutoff\s*\(([^;]*)\)\s*;", setup)
    if not mc:
        raise TranslateError("cp->setCutoff not found in setup")
    lc = Emitter("Rat", {"cp->cutoff()": "cutoff", "m_skin_size": "m_skin_size"}).emit(parse_expr(mc.group(1)))
    return """/- GENERATED by /verif/translate/t_verlet.py from /repo/source/src/basic/verlet_creator.cpp
   (VerletCreator::setup, VerletCreator::createDistances).  Do not edit: rewritten on every check run. -/
namespace Sympler.Gen.Verlet

/-- body of the particle loop of the displacement scan (`tempDisp = dispNow.abs()`); returns `(max_disp, max2, newList)` -/
def scanBody (m_skin_size : Rat) (max_disp max2 : Rat) (tempDisp : Rat) : Rat × Rat × Bool :=
%s

/-- are `max_disp` and `max2` declared before the loop over colours (state shared by all species)? -/
def scanStateSharedByAllColours : Bool := %s
/-- initial values `double max_disp = …; double max2 = …;` -/
def scanInit : Rat × Rat := (%s, %s)

/-- `newList = %s` (counter mode, `m_every > 0`) -/
def everyDecision (m_counter m_every : Nat) : Bool :=
  %s

/-- counter after a rebuild: `m_counter = %s` -/
def counterAfterRebuild : Nat := %s
/-- counter after a refresh: `++m_counter` -/
def counterAfterRefresh (m_counter : Nat) : Nat := %s

/-- refresh of one cartesian component of a stored pair -/
def refreshWrap (size : Rat) (c : Rat) : Rat :=
%s
%s
  c

/-- is the wrap in the refresh branch guarded by the periodicity of the direction? -/
def refreshWrapGuardedByPeriodicity : Bool := %s

/-- on a rebuild every free particle's `displacement__Old` is set to its current `displacement` (for every colour that needs it) -/
def rebuildSnapshotsDisplacement : Bool := %s
/-- the scan tests `dispNow = displacement − displacement__Old` of every particle -/
def scanTestsDisplacementSinceSnapshot : Bool := %s

/-- `cp->setCutoff(%s)` for colour pairs that need pairs -/
def listCutoff (cutoff m_skin_size : Rat) : Rat := %s

end Sympler.Gen.Verlet
""" % (scan, "true" if outside else "false", init1, init2, m.group(1).strip(), every, mr.group(1), mr.group(1), refresh_counter, wrapline(first[0]), wrapline(first[1]),
       "true" if guarded else "false", "true" if snap else "false", "true" if scanned else "false", mc.group(1).strip(), lc)


if __name__ == "__main__":
    import sys
    print(generate(sys.argv[1] if len(sys.argv) > 1 else "/repo"))
