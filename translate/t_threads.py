"""T2/T3 for C20 (OpenMP branch of the sources): link -> thread assignment and the merge of the per-thread copies
   manager_cell.cpp (thread_counter, ManagerCell::activateCellLink), integrator_velocity_verlet.cpp (mergeCopies),
   pair_particle_scalar.cpp / pair_particle_vector.cpp (mergeCopies)  ->  lean/Sympler/Gen/ThreadsGen.lean"""
import os
import re
from cexpr import strip_comments, strip_guarded, function_body, match_brace, TranslateError


def with_openmp(src):
    """keep the branch of `#if(n)def _OPENMP` conditionals compiled WITH OpenMP"""
    out, stack = [], []
    for line in src.split("\n"):
        s = line.strip()
        m = re.match(r"#\s*(ifdef|ifndef|if|else|elif|endif)\b(.*)", s)
        if m:
            d, rest = m.group(1), m.group(2).strip()
            if d in ("ifdef", "ifndef") and rest.split()[:1] == ["_OPENMP"]:
                stack.append(["omp", d == "ifdef"]); continue
            if d in ("ifdef", "ifndef") and rest.split()[:1] == ["TRACK_PARTICLE"]:
                stack.append(["omp", d == "ifndef"]); continue
            if d in ("ifdef", "ifndef", "if"):
                stack.append(["other", True])
            elif d == "else" and stack and stack[-1][0] == "omp":
                stack[-1][1] = not stack[-1][1]; continue
            elif d == "endif":
                if not stack:
                    raise TranslateError("unbalanced #endif")
                if stack.pop()[0] == "omp":
                    continue
        if all(a for _, a in stack):
            out.append(line)
    return "\n".join(out)


def read(repo, rel):
    return with_openmp(strip_guarded(strip_comments(open(os.path.join(repo, rel)).read())))


def merge_site(body, colour, slot, copy, vec):
    """`FOR_EACH_PARTICLE_C(M_PHASE, cp-><colour>Colour(), real(slot) += copy(copySlot)[vecSlot]; copy(copySlot)[vecSlot] = 0;)`
    -> (index added, index zeroed) as 'first' / 'second' labels of the vector slots actually used"""
    m = re.search(r"FOR_EACH_PARTICLE_C\s*\(\s*M_PHASE\s*,\s*cp->%sColour\(\)\s*," % colour, body)
    if not m:
        raise TranslateError("mergeCopies: loop over the %s colour not found" % colour)
    i = body.index("(", m.start())
    code = " ".join(body[m.end():match_brace(body, i) - 1].split())
    ma = re.search(r"__iSLFE->tag\.\w+\((\w+)\)(?:\[\w+\])?\s*\+=\s*\(\*__iSLFE->tag\.vectorDoubleByOffset\((\w+)\)\)\[(\w+)(?:\s*\+\s*\w+)?\]\s*;", code)
    mz = re.search(r"\(\*__iSLFE->tag\.vectorDoubleByOffset\((\w+)\)\)\[(\w+)(?:\s*\+\s*\w+)?\]\s*=\s*0\s*;", code)
    if not ma or not mz:
        raise TranslateError("mergeCopies (%s colour): `real += copy[..]; copy[..] = 0;` not recognised in `%s`" % (colour, code[:200]))
    return (ma.group(1), ma.group(2), ma.group(3)), (mz.group(1), mz.group(2))


def generate(repo):
    mc = read(repo, "source/src/basic/manager_cell.cpp")
    m0 = re.search(r"size_t\s+ManagerCell::thread_counter\s*=\s*(\d+)\s*;", mc)
    if not m0:
        raise TranslateError("initial value of ManagerCell::thread_counter not found")
    b = function_body(mc, r"void\s+ManagerCell::activateCellLink\s*\(\s*CellLink\s*\*\s*c\s*\)\s*\{")
    if not re.search(r"c->mThread\(\)\s*=\s*thread_counter\s*;", b):
        raise TranslateError("activateCellLink: c->mThread() = thread_counter not found")
    if not re.search(r"c->next\s*=\s*m_first_link\[thread_counter\]\s*;.*m_first_link\[thread_counter\]\s*=\s*c\s*;", b, re.S):
        raise TranslateError("activateCellLink: push-front on m_first_link[thread_counter] not found")
    mi = re.search(r"\+\+\s*thread_counter\s*;\s*if\s*\(\s*thread_counter\s*(==|>=|>)\s*global::n_threads\s*\)\s*thread_counter\s*=\s*(\d+)\s*;", b)
    if not mi:
        raise TranslateError("activateCellLink: counter increment / wrap not recognised")
    if b.index("c->mThread()") > mi.start():
        raise TranslateError("activateCellLink: the thread is assigned after the counter moved")
    cmp_ = {"==": "=", ">=": "≥", ">": ">"}[mi.group(1)]
    rows = []
    for cls, rel in (("PairParticleScalar", "source/src/symbol/val_calculator_part/pair_particle_scalar.cpp"),
                     ("PairParticleVector", "source/src/symbol/val_calculator_part/pair_particle_vector.cpp")):
        src = read(repo, rel)
        body = function_body(src, r"void\s+%s::mergeCopies\s*\(\s*ColourPair\s*\*\s*cp\s*,\s*int\s+thread_no\s*\)\s*\{" % cls)
        names = {}
        for var, rhs in re.findall(r"size_t\s+(\w+)\s*=\s*([^;]*);", body):
            names[var] = "".join(rhs.split())
        want = {"first": ("m_slots.first", "m_copy_slots[thread_no].first", "m_vector_slots.first"),
                "second": ("m_slots.second", "m_copy_slots[thread_no].second", "m_vector_slots.second")}
        for colour in ("first", "second"):
            (slot, copy, vec), (zcopy, zvec) = merge_site(body, colour, None, None, None)
            got = (names.get(slot, slot), names.get(copy, copy), names.get(vec, vec), names.get(zcopy, zcopy), names.get(zvec, zvec))
            w = want[colour]
            rows.append((cls, colour, got[0] == w[0], got[1] == w[1], got[2] == w[2], got[3] == w[1], got[4] == w[2]))
    vv = read(repo, "source/src/integrator/integrator_velocity_verlet.cpp")
    body = function_body(vv, r"void\s+IntegratorVelocityVerlet::mergeCopies\s*\([^)]*\)\s*\{")
    code = " ".join(body.split())
    ma = re.search(r"p->force\[force_index\]\[i\]\s*\+=\s*\(\*p->tag\.vectorDoubleByOffset\(m_vec_offset\[thread_no\]\)\)\[m_vec_pos\s*\+\s*i\]\s*;\s*\(\*p->tag\.vectorDoubleByOffset\(m_vec_offset\[thread_no\]\)\)\[m_vec_pos\s*\+\s*i\]\s*=\s*0\s*;", code)
    table = ",\n  ".join('("%s", "%s", %s, %s, %s, %s, %s)' % (c, col, *("true" if x else "false" for x in fl)) for (c, col, *fl) in rows)
    return """/- GENERATED by /verif/translate/t_threads.py from the OpenMP branch of manager_cell.cpp, pair_particle_scalar.cpp,
   pair_particle_vector.cpp, integrator_velocity_verlet.cpp.  Do not edit: rewritten on every check run. -/
namespace Sympler.Gen.Threads

/-- `size_t ManagerCell::thread_counter = …` -/
def counterInit : Nat := %s
/-- `activateCellLink`: the link gets `thread_counter` (before it moves), is pushed on the front of that thread's list, then
`++thread_counter; if (thread_counter %s global::n_threads) thread_counter = %s;` -/
def nextCounter (T c : Nat) : Nat := if c + 1 %s T then %s else c + 1

/-- `mergeCopies` of the pair-sum calculators, per loop (first / second colour of the pair): does the statement use
(real slot, copy vector, position in the copy vector) of THAT partner, and zero the same cell?
`(class, loop, realSlotOk, copyVectorOk, positionOk, zeroedCopyVectorOk, zeroedPositionOk)` -/
def mergeSites : List (String × String × Bool × Bool × Bool × Bool × Bool) := [
  %s]

/-- `IntegratorVelocityVerlet::mergeCopies`: `force[force_index][i] += copy[thread][pos+i]; copy[thread][pos+i] = 0` -/
def forceMergeAddsAndZeroesSameCell : Bool := %s

end Sympler.Gen.Threads
""" % (m0.group(1), mi.group(1), mi.group(2), cmp_, mi.group(2), table, "true" if ma else "false")


if __name__ == "__main__":
    import sys
    print(generate(sys.argv[1] if len(sys.argv) > 1 else "/repo"), end="")
