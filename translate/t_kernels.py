"""T2 for C16: Lucy/Square/Linear::{setup, interpolate, weight} -> Lean definitions
   PropsR/Gen/KernelsReal.lean (over ℝ, subject of the theorems) and Sympler/Gen/KernelsFloat.lean (Float, for the
   sampled differential validation of this translator against the real functions).

The function bodies are parsed with cexpr and *symbolically executed* twice: once for `r == NULL` (self
contribution) and once for `r != NULL`; `r->abs()` becomes the variable r, `m_cutoff` becomes rc, members
`m_factor*` assigned in setup() become `<K>_factor* rc`.  C typing is respected (int/int stays truncating).
"""
import os
import re
from cexpr import (strip_comments, strip_guarded, parse_block, function_body, Emitter, TranslateError)

KERNELS = [("Lucy", "wf_lucy"), ("Square", "wf_square"), ("Linear", "wf_linear")]


class Throws(Exception):
    pass


def subst(e, env):
    """replace local variables by their current symbolic value"""
    k = e[0]
    if k == "id":
        return env.get(e[1], e)
    if k in ("num", "str"):
        return e
    if k == "mem":
        return ("mem", subst(e[1], env), e[2], e[3])
    if k == "idx":
        return ("idx", subst(e[1], env), subst(e[2], env))
    if k == "call":
        return ("call", e[1], [subst(a, env) for a in e[2]])
    if k == "un":
        return ("un", e[1], subst(e[2], env))
    if k == "bin":
        return ("bin", e[1], subst(e[2], env), subst(e[3], env))
    if k == "cast":
        return ("cast", e[1], subst(e[2], env))
    if k == "tern":
        return ("tern", subst(e[1], env), subst(e[2], env), subst(e[3], env))
    raise TranslateError("subst: %r" % (e,))


def cond_on_r(c, r_is_null):
    """evaluate a condition that only tests the pointer r; None if it is something else"""
    if c == ("id", "r"):
        return not r_is_null
    if c == ("un", "!", ("id", "r")):
        return r_is_null
    if c[0] == "bin" and c[1] in ("==", "!=") and c[2] == ("id", "r") and c[3] in (("id", "NULL"), ("num", "0", True)):
        return r_is_null if c[1] == "==" else not r_is_null
    return None


def symexec(stmts, r_is_null):
    """-> (result expression, [guards under which the code throws]) ; raises Throws if it throws unconditionally"""
    env = {}
    guards = []

    def run(ss):
        for s in ss:
            k = s[0]
            if k == "block":
                res = run(s[1])
                if res is not None:
                    return res
            elif k == "decl":
                if s[3] is not None:
                    env[s[2]] = subst(s[3], env)
            elif k == "assign":
                if s[1][0] != "id":
                    raise TranslateError("assignment to non-local %r" % (s[1],))
                name = s[1][1]
                rhs = subst(s[3], env)
                if s[2] == "=":
                    env[name] = rhs
                else:
                    if name not in env:
                        raise TranslateError("compound assignment to unknown local %s" % name)
                    env[name] = ("bin", s[2][0], env[name], rhs)
            elif k == "if":
                v = cond_on_r(s[1], r_is_null)
                if v is None:
                    # only "if (cond) throw" guards are supported for data-dependent conditions
                    body = s[2][1] if s[2][0] == "block" else [s[2]]
                    if len(body) == 1 and body[0][0] == "throw" and s[3] is None:
                        guards.append(subst(s[1], env))
                        continue
                    raise TranslateError("data-dependent branch not supported: %r" % (s[1],))
                br = s[2] if v else s[3]
                if br is not None:
                    res = run([br])
                    if res is not None:
                        return res
            elif k == "return":
                return subst(s[1], env)
            elif k == "throw":
                raise Throws()
            elif k == "expr":
                pass
            else:
                raise TranslateError("statement %s not supported" % k)
        return None
    res = run(stmts)
    if res is None:
        raise TranslateError("no return reached")
    return res, guards


def member_name(kernel, m):
    assert m.startswith("m_")
    return "%s_%s" % (kernel, m[2:])


def emit_all(carrier, repo):
    """returns list of (kernel, defname, params, lean expr text, comment)"""
    out = []
    for K, base in KERNELS:
        h = strip_guarded(strip_comments(open(os.path.join(repo, "source/include/weighting_function/%s.h" % base)).read()))
        c = strip_guarded(strip_comments(open(os.path.join(repo, "source/src/weighting_function/%s.cpp" % base)).read()))
        setup = parse_block(function_body(c, r"void\s+%s::setup\s*\(\s*\)\s*\{" % K))
        factors = []
        pi = {"Real": "π", "Float": "(3.14159265358979323846 : Float)"}[carrier]
        env0 = {"m_cutoff": "rc", "M_PI": pi}
        for s in setup:
            if s[0] == "assign" and s[1][0] == "id" and s[1][1].startswith("m_") and s[2] == "=":
                em = Emitter(carrier, dict(env0))
                out.append((K, member_name(K, s[1][1]), ["rc"], em.emit(s[3]), "`%s::setup`: %s" % (K, s[1][1])))
                factors.append(s[1][1])
            elif s[0] in ("expr", "block"):
                continue
            else:
                raise TranslateError("%s::setup: unexpected statement %r" % (K, s[0]))
        env = dict(env0)
        for m in factors:
            env[m] = "%s rc" % member_name(K, m)
        env["r->abs()"] = "r"
        for fn in ("interpolate", "weight"):
            body = parse_block(function_body(h, r"virtual\s+double\s+%s\s*\([^)]*\)\s*const\s*\{" % fn))
            for null in (True, False):
                name = "%s_%s%s" % (K, fn, "_self" if null else "")
                try:
                    e, guards = symexec(body, null)
                except Throws:
                    out.append((K, None, None, None, "`%s::%s` throws for r %s NULL: no definition" % (K, fn, "==" if null else "!=")))
                    continue
                em = Emitter(carrier, dict(env))
                txt = em.emit(e)
                g = ""
                if guards:
                    g = "; throws when " + " or ".join(Emitter(carrier, dict(env)).cond(x) for x in guards)
                out.append((K, name, ["rc"] if null else ["rc", "r"], txt, "`%s::%s`, r %s NULL%s" % (K, fn, "==" if null else "!=", g)))
    return out


def generate_real(repo):
    defs = emit_all("Real", repo)
    s = """/- GENERATED by /verif/translate/t_kernels.py from /repo/source/{include,src}/weighting_function/wf_{lucy,square,linear}.{h,cpp}.
   Do not edit: rewritten on every check run. -/
import Mathlib.Analysis.SpecialFunctions.Trigonometric.Basic

namespace Sympler.Gen.KernelsReal
noncomputable section
open Real

"""
    for K, name, params, txt, comment in defs:
        if name is None:
            s += "/- %s -/\n" % comment
        else:
            s += "/-- %s -/\ndef %s %s : ℝ := %s\n" % (comment, name, " ".join("(%s : ℝ)" % p for p in params), txt)
    s += "\nend\nend Sympler.Gen.KernelsReal\n"
    return s


def generate_float(repo):
    defs = emit_all("Float", repo)
    s = """/- GENERATED by /verif/translate/t_kernels.py (Float carrier: used only to validate the translator against the real C++ functions). -/
namespace Sympler.Gen.KernelsFloat

"""
    names = []
    for K, name, params, txt, comment in defs:
        if name is None:
            continue
        s += "def %s %s : Float := %s\n" % (name, " ".join("(%s : Float)" % p for p in params), txt)
        names.append((name, len(params)))
    s += "\n/-- evaluate a generated kernel by name -/\ndef eval (name : String) (rc r : Float) : Option Float :=\n  match name with\n"
    for n, k in names:
        s += '  | "%s" => some (%s %s)\n' % (n, n, "rc" if k == 1 else "rc r")
    s += "  | _ => none\n\ndef names : List String := [%s]\n" % ", ".join('"%s"' % n for n, _ in names)
    s += "\nend Sympler.Gen.KernelsFloat\n"
    return s


if __name__ == "__main__":
    import sys
    repo = sys.argv[1] if len(sys.argv) > 1 else "/repo"
    print(generate_real(repo))
    print(generate_float(repo))
