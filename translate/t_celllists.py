"""T2 for C09: the intrusive doubly linked active lists of manager_cell.cpp (serial branch)
   ManagerCell::activateCell / deactivateCell / activateCellLink / deactivateCellLink
   ->  lean/Sympler/Gen/CellListsGen.lean   (symbolic execution of the pointer statements over `first`, `next`, `prev`, `count`)

Statements understood (anything else is a TranslateError):
   X = E;   X = Y = E;   if (P) S [else S]   { ... }   ++count; --count;   assert(...);
   X, Y in { c->next, c->prev, c->next->prev, c->prev->next, <first> }      E in { X, NULL, c }      P in { c->next, c->prev }"""
import os
import re
from cexpr import strip_comments, strip_guarded, function_body, TranslateError
from t_dyn import no_openmp, split_statements
from t_stages import drop_calls

FUNCS = [("activateCell", r"void\s+ManagerCell::activateCell\s*\(\s*Cell\s*\*\s*c\s*\)\s*\{", "m_first_cell", "m_n_active_cells"),
         ("deactivateCell", r"void\s+ManagerCell::deactivateCell\s*\(\s*Cell\s*\*\s*c\s*\)\s*\{", "m_first_cell", "m_n_active_cells"),
         ("activateCellLink", r"void\s+ManagerCell::activateCellLink\s*\(\s*CellLink\s*\*\s*c\s*\)\s*\{", "m_first_link", "m_n_active_links"),
         ("deactivateCellLink", r"void\s+ManagerCell::deactivateCellLink\s*\(\s*CellLink\s*\*\s*c\s*\)\s*\{", "m_first_link", "m_n_active_links")]


class Sym:
    """emits a chain of `let s := …` over the record (first, next, prev, count)"""

    def __init__(self, first, count):
        self.first, self.count = first, count
        self.lines = []

    def rd(self, e):
        """Lean term of type Option Nat for a pointer expression, read in the CURRENT state `s`"""
        e = e.replace(" ", "")
        if e == "NULL" or e == "0":
            return "none"
        if e == "c":
            return "(some c)"
        if e == self.first:
            return "s.first"
        if e == "c->next":
            return "(s.next.get c)"
        if e == "c->prev":
            return "(s.prev.get c)"
        raise TranslateError("pointer expression `%s` not supported on the right-hand side" % e)

    def assign(self, lhs, rhs_term, ind):
        lhs = lhs.replace(" ", "")
        if lhs == self.first:
            return ["%slet s := { s with first := %s }" % (ind, rhs_term)]
        if lhs == "c->next":
            return ["%slet s := { s with next := s.next.set c %s }" % (ind, rhs_term)]
        if lhs == "c->prev":
            return ["%slet s := { s with prev := s.prev.set c %s }" % (ind, rhs_term)]
        if lhs in ("c->next->prev", "c->prev->next"):
            via, fld = lhs.split("->")[1], lhs.split("->")[2]
            # dereferences c->via, which the enclosing `if (c->via)` has bound to `x`
            return ["%slet s := { s with %s := s.%s.set x %s }" % (ind, fld, fld, rhs_term)]
        raise TranslateError("assignment to `%s` not supported" % lhs)

    def block(self, nodes, ind, bound=None):
        out = []
        for n in nodes:
            if n[0] == "stmt":
                t = n[1].strip()
                if not t or t.startswith("assert"):
                    continue
                m = re.fullmatch(r"(\+\+|--)\s*%s" % re.escape(self.count), t) or re.fullmatch(r"%s\s*(\+\+|--)" % re.escape(self.count), t)
                if m:
                    out.append("%slet s := { s with count := s.count %s 1 }" % (ind, "+" if "++" in t else "-"))
                    continue
                parts = [p.strip() for p in t.split("=")]
                if len(parts) < 2 or any("==" in t for _ in [0]) and "==" in t:
                    raise TranslateError("statement `%s` not supported" % t)
                rhs = parts[-1]
                # the right-hand side is evaluated once, before any of the (chained) assignments
                if "->" in rhs.replace(" ", "") and rhs.replace(" ", "") in ("c->next->prev", "c->prev->next"):
                    raise TranslateError("right-hand side `%s` not supported" % rhs)
                term = self.rd(rhs)
                out.append("%slet v := %s" % (ind, term))
                for lhs in reversed(parts[:-1]):
                    l = lhs.replace(" ", "")
                    if l in ("c->next->prev", "c->prev->next") and bound != l.split("->")[1]:
                        raise TranslateError("`%s` dereferenced outside `if (c->%s)`" % (l, l.split("->")[1]))
                    out += self.assign(lhs, "v", ind)
            elif n[0] == "if":
                c = n[1].replace(" ", "")
                if c not in ("c->next", "c->prev"):
                    raise TranslateError("condition `%s` not supported" % n[1])
                fld = c.split("->")[1]
                out.append("%slet s := match s.%s.get c with" % (ind, fld))
                out.append("%s  | some x =>" % ind)
                out += self.block(n[2], ind + "    ", bound=fld) + ["%s    s" % ind]
                out.append("%s  | none =>" % ind)
                out += (self.block(n[3], ind + "    ") if n[3] else []) + ["%s    s" % ind]
            else:
                raise TranslateError("statement kind %s not supported" % n[0])
        return out


def generate(repo):
    src = no_openmp(strip_guarded(strip_comments(open(os.path.join(repo, "source/src/basic/manager_cell.cpp")).read())))
    src = drop_calls(src, "MSG_DEBUG")
    out = """/- GENERATED by /verif/translate/t_celllists.py from /repo/source/src/basic/manager_cell.cpp (serial branch):
   ManagerCell::activateCell, deactivateCell, activateCellLink, deactivateCellLink, statement by statement.
   Do not edit: rewritten on every check run. -/
import Sympler.Store
namespace Sympler.Gen.CellLists

/-- an intrusive doubly linked list: `m_first_…`, the per-object `next` / `prev` pointers, `m_n_active_…` -/
structure PL where
  first : Option Nat
  next : Store (Option Nat)
  prev : Store (Option Nat)
  count : Nat

"""
    for name, rx, first, count in FUNCS:
        body = function_body(src, rx)
        nodes = split_statements(body)
        lines = Sym(first, count).block(nodes, "  ")
        out += "/-- `ManagerCell::%s(c)` -/\ndef %s (s : PL) (c : Nat) : PL :=\n%s\n  s\n\n" % (name, name, "\n".join(lines))
    out += "end Sympler.Gen.CellLists\n"
    return out


if __name__ == "__main__":
    import sys
    print(generate(sys.argv[1] if len(sys.argv) > 1 else "/repo"), end="")
