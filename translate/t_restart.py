"""T1 for C18: the character class of ParticleCreatorFile::readNext (pc_file.cpp) -> lean/Sympler/Gen/RestartGen.lean

The accumulating loop of `readNext` is
    while (level > 0 || isalnum(c) || c == '-' || ... ) {
The disjuncts after `level > 0` are translated one by one, in source order:
    isalnum(c)   ->  c.isAlphanum
    c == 'X'     ->  c == 'X'
Anything else (another loop shape, another kind of disjunct, a second candidate loop) is a TranslateError.
"""
import os
import re
from cexpr import strip_comments, TranslateError

SRC = "source/src/particle_creator/pc_file.cpp"


def generate(repo):
    src = strip_comments(open(os.path.join(repo, SRC)).read())
    m = re.search(r"string\s+ParticleCreatorFile::readNext\s*\([^)]*\)\s*\{", src)
    if not m:
        raise TranslateError("pc_file.cpp: ParticleCreatorFile::readNext not found")
    # body of the function: up to the matching brace
    i, depth = m.end(), 1
    while depth and i < len(src):
        depth += {"{": 1, "}": -1}.get(src[i], 0)
        i += 1
    body = src[m.end():i]
    loops = re.findall(r"while\s*\(\s*level\s*>\s*0\s*\|\|(.*?)\)\s*\{", body, flags=re.S)
    if len(loops) != 1:
        raise TranslateError("readNext: expected exactly one `while (level > 0 || ...) {`, found %d" % len(loops))
    cond = " ".join(loops[0].split())
    parts = [p.strip() for p in cond.split("||")]
    out = []
    for p in parts:
        if re.fullmatch(r"isalnum\s*\(\s*c\s*\)", p):
            out.append("c.isAlphanum")
            continue
        mm = re.fullmatch(r"c\s*==\s*'(\\?.)'", p)
        if mm and mm.group(1) not in ("\\", "'") and (len(mm.group(1)) == 1):
            out.append("c == '%s'" % mm.group(1))
            continue
        raise TranslateError("readNext: cannot translate the disjunct %r of %r" % (p, cond))
    if not re.search(r"if\s*\(\s*c\s*==\s*'\('\s*\)\s*level\+\+\s*;\s*else\s+if\s*\(\s*c\s*==\s*'\)'\s*\)\s*level--\s*;", body):
        raise TranslateError("readNext: the parenthesis counter `if (c == '(') level++; else if (c == ')') level--;` changed")
    # ---- the writer: stream precision of Phase::writeRestartFile, sprintf formats of Data::toStringByIndex
    ph = strip_comments(open(os.path.join(repo, "source/src/basic/phase.cpp")).read())
    mw = re.search(r"void\s+Phase::writeRestartFile\s*\([^)]*\)\s*\{", ph)
    if not mw:
        raise TranslateError("Phase::writeRestartFile not found")
    mp = re.search(r"pos\s*\.\s*precision\s*\(\s*(\d+)\s*\)\s*;", ph[mw.end():mw.end() + 3000])
    if not mp:
        raise TranslateError("writeRestartFile: pos.precision(N) not found")
    df = strip_comments(open(os.path.join(repo, "source/src/basic/data_format.cpp")).read())
    mt = re.search(r"string\s+Data::toStringByIndex\s*\([^)]*\)[^{]*\{", df)
    if not mt:
        raise TranslateError("Data::toStringByIndex not found")
    body = df[mt.end():mt.end() + 4000]
    fi = re.search(r"case\s+DataFormat::INT\s*:\s*sprintf\s*\(\s*s\s*,\s*\"([^\"]*)\"", body)
    fd = re.search(r"case\s+DataFormat::DOUBLE\s*:\s*sprintf\s*\(\s*s\s*,\s*\"([^\"]*)\"", body)
    if not fi or not fd:
        raise TranslateError("toStringByIndex: sprintf formats of INT / DOUBLE not found")
    if re.search(r"strstr\s*\.\s*precision|setprecision", body):
        raise TranslateError("toStringByIndex: the stream precision of POINT / TENSOR is no longer the default")
    # ---- the column layout: header, free particles, frozen particles of the writer; fixed columns of the reader
    wbody = ph[mw.end():]
    depth, k = 1, 0
    while depth and k < len(wbody):
        depth += {"{": 1, "}": -1}.get(wbody[k], 0)
        k += 1
    wbody = " ".join(wbody[:k].split())
    secs = []
    # header: one line per colour with the names of the persistent attributes
    mh = re.search(r"for \(size_t (\w+) = 0; \1 < Particle::s_tag_format\[c\]\.rows\(\); \1\+\+\) \{ DataFormat::attribute_t attr = Particle::s_tag_format\[c\]\.attrByIndex\(\1\); if \((.*?)\) pos << attr\.name << \" \"; \}", wbody)
    secs.append(("header", bool(mh), bool(mh) and mh.group(2).strip() == "attr.persistent", "names"))
    for kind, macro in (("free", "FOR_EACH_FREE_PARTICLE"), ("frozen", "FOR_EACH_FROZEN_PARTICLE_ALL_C")):
        ms = re.search(re.escape(macro) + r" \( ?this, pos << m_manager->species\(__iSLFE->c\) << \" \" << \"(\w+)\" << \" \" << (.*?); for \(size_t (\w+) = 0; \3 < Particle::s_tag_format\[c\]\.rows\(\); \3\+\+\) \{ if \((.*?)\) pos << \" \" << __iSLFE->tag\.toStringByIndex\(\3\); \} pos << endl; \);", wbody)
        if not ms:
            secs.append((kind, False, False, "?"))
            continue
        cols = re.findall(r"__iSLFE->([rv])\.([xyz])", ms.group(2))
        filt = ms.group(4).strip() == "Particle::s_tag_format[c].attrByIndex(%s).persistent" % ms.group(3)
        secs.append((kind, ms.group(1) == kind, filt, " ".join("%s.%s" % c for c in cols)))
    rp = re.search(r"void\s+ParticleCreatorFile::readParticle\s*\([^)]*\)\s*\{", src)
    rcols = "?"
    if rp:
        rb = " ".join(src[rp.end():rp.end() + 1200].split())
        m1 = re.search(r"if \(freeOrFrozen == \"free\" \|\| freeOrFrozen == \"frozen\"\) \{ pos >> skipws >> (.*?); \}", rb)
        if m1:
            rcols = " ".join("%s.%s" % c for c in re.findall(r"p\.([rv])\.([xyz])", m1.group(1)))
    layout = """
/-- the three sections of `Phase::writeRestartFile`: `(section, the loop runs over ALL rows of the species' format (and the word written
after the species name is the section's), the filter is exactly `persistent`, fixed columns in the order written)` -/
def writerSections : List (String × Bool × Bool × String) := [%s]
/-- fixed columns in the order `ParticleCreatorFile::readParticle` extracts them after the species and free / frozen words -/
def readerColumns : String := "%s"
""" % (", ".join('("%s", %s, %s, "%s")' % (a, "true" if b else "false", "true" if c else "false", d) for a, b, c, d in secs), rcols)
    writer = layout + """
/-- `pos.precision(%s)` in `Phase::writeRestartFile` (positions and velocities) -/
def writerPrecision : Nat := %s
/-- `sprintf` formats of `Data::toStringByIndex` for INT and DOUBLE; POINT / TENSOR go through a string stream of default precision (6) -/
def intFormat : String := "%s"
def doubleFormat : String := "%s"
""" % (mp.group(1), mp.group(1), fi.group(1), fd.group(1))
    return ("""/- GENERATED by /verif/translate/t_restart.py from /repo/source/src/particle_creator/pc_file.cpp
   (`ParticleCreatorFile::readNext`, the condition of the accumulating `while`).
   Do not edit: rewritten on every check run. -/
namespace Sympler.Gen.Restart

/-- `while (level > 0 || %s)`
    — the disjuncts after `level > 0`, in source order. -/
def readNextAccepts (c : Char) : Bool :=
  %s
WRITER
end Sympler.Gen.Restart
""" % (cond, " || ".join(out))).replace("WRITER", writer)


if __name__ == "__main__":
    import sys
    print(generate(sys.argv[1] if len(sys.argv) > 1 else "/repo"), end="")
