"""T2/T3 for C08: the decisions of the collision loop that the model `Sympler/Collide.lean` transcribes
   cell.cpp (Cell::doCollision), cell.h (Cell::checkForHit), wall_triangle.h (WallTriangle::hit), wall_triangle.cpp (constants,
   reallyInPlane), integrator_velocity_verlet.cpp (solveHitTimeEquation, hitPos), reflector_*.cpp (displacement constants)
   ->  lean/Sympler/Gen/CollideGen.lean"""
import os
import re
from fractions import Fraction
from cexpr import strip_comments, strip_guarded, function_body, match_brace, parse_expr, Emitter, TranslateError
from t_dyn import no_openmp

CMP = {"<": "<", "<=": "≤", ">": ">", ">=": "≥"}


def read(repo, rel):
    return no_openmp(strip_guarded(strip_comments(open(os.path.join(repo, rel)).read())))


def const(src, name):
    m = re.search(r"\bdouble\s+%s\s*=\s*(-?[0-9.eE+-]+)\s*;" % name, src)
    if not m:
        raise TranslateError("constant %s not found" % name)
    f = Fraction(m.group(1))
    return "(%d / %d : Rat)" % (f.numerator, f.denominator) if f.denominator != 1 else "(%d : Rat)" % f.numerator


def generate(repo):
    cell = read(repo, "source/src/basic/cell.cpp")
    cellh = read(repo, "source/include/basic/cell.h")
    wth = read(repo, "source/include/geometry/wall_triangle.h")
    wtc = read(repo, "source/src/geometry/wall_triangle.cpp")
    vv = read(repo, "source/src/integrator/integrator_velocity_verlet.cpp")
    # ---- doCollision
    b = function_body(cell, r"void\s+Cell::doCollision\s*\([^)]*\)\s*\{")
    mw = re.search(r"while\s*\(\s*hit\s*\)\s*\{", b)
    if not mw:
        raise TranslateError("doCollision: `while (hit)` not found")
    loop = b[mw.end():match_brace(b, mw.end() - 1) - 1]
    mi = re.search(r"\+\+\s*iterations\s*;\s*if\s*\(\s*iterations\s*(>=?)\s*(\d+)\s*\)\s*throw", loop)
    if not mi or not re.search(r"size_t\s+iterations\s*=\s*0\s*;", b[:mw.start()]):
        raise TranslateError("doCollision: iteration counter / bound not recognised")
    max_passes = int(mi.group(2)) if mi.group(1) == ">" else int(mi.group(2)) - 1
    reset_in_loop = bool(re.search(r"t_travelled\s*=\s*HUGE_VAL\s*;", loop))
    hit_reset = bool(re.search(r"hit\s*=\s*false\s*;", loop))
    if not re.search(r"checkForHit\s*\(\s*p\s*,\s*force\s*,\s*hit\s*,\s*t_travelled\s*,\s*hit_pos\s*,\s*wall\s*,\s*integratorP\s*\)", loop):
        raise TranslateError("doCollision: call of checkForHit not recognised")
    mr = re.search(r"reflect\s*\(\s*p\s*,\s*r\s*,\s*v\s*,\s*hit_pos\s*,\s*wall->normal\(\)\s*,\s*wall->inPlane\(\)\s*\)\s*;\s*p->dt\s*-=\s*t_travelled\s*;\s*if\s*\(\s*p->dt\s*<\s*0\s*\)\s*p->dt\s*=\s*0\s*;", loop)
    if not mr:
        raise TranslateError("doCollision: reflect; p->dt -= t_travelled; clamp  not recognised")
    # ---- checkForHit
    c = function_body(cellh, r"void\s+checkForHit\s*\([^)]*\)\s*\{")
    mc = re.search(r"if\s*\(\s*\(\*i\)->hit\s*\(\s*p\s*,\s*force\s*,\s*t\s*,\s*h\s*,\s*integratorP\s*\)\s*\)\s*\{\s*if\s*\(\s*t\s*(<=?|>=?)\s*t_travelled\s*\)\s*\{\s*hit\s*=\s*true\s*;\s*t_travelled\s*=\s*t\s*;\s*hit_pos\s*=\s*h\s*;\s*wall\s*=\s*\*i\s*;", c)
    if not mc:
        raise TranslateError("checkForHit: selection of the earliest hit not recognised")
    # ---- WallTriangle::hit
    h = function_body(wth, r"virtual\s+bool\s+hit\s*\([^)]*\)\s*\{")
    m1 = re.search(r"if\s*\(\s*results\[i\]\s*(<=?|>=?)\s*p->dt\s*\)\s*return\s+false\s*;", h)
    m2 = re.search(r"if\s*\(\s*results\[i\]\s*(<=?|>=?)\s*c_wt_time_eps\s*\)", h)
    if not (m1 and m2 and re.search(r"hitPos\s*\(\s*results\[i\]\s*,\s*p\s*,\s*hit_pos\s*,\s*force\s*\)", h) and re.search(r"if\s*\(\s*reallyInPlane\s*\(\s*hit_pos\s*\)\s*\)", h)):
        raise TranslateError("WallTriangle::hit not recognised")
    # ---- solveHitTimeEquation, linear branch, and hitPos
    s = function_body(vv, r"void\s+IntegratorVelocityVerlet::solveHitTimeEquation\s*\([^)]*\)\s*\{")
    if not (re.search(r"b\s*=\s*surface_normal\s*\*\s*p->v\s*;", s) and re.search(r"c\s*=\s*surface_normal\s*\*\s*p->r\s*-\s*wallTriangle->nDotR\(\)\s*;", s)):
        raise TranslateError("solveHitTimeEquation: b, c not recognised")
    ml = re.search(r"else\s*\{\s*t0\s*=\s*([^;]*);\s*if\s*\(\s*t0\s*(<=?|>=?)\s*c_wt_time_eps\s*\)", s)
    if not ml:
        raise TranslateError("solveHitTimeEquation: linear branch not recognised")
    t0 = Emitter("Rat", {"b": "b", "c": "c"}).emit(parse_expr(ml.group(1)))
    hp = function_body(vv, r"void\s+IntegratorVelocityVerlet::hitPos\s*\([^)]*\)\s*\{")
    mh = re.search(r"hit_pos\s*=\s*([^;]*);", hp)
    if not mh:
        raise TranslateError("hitPos not recognised")
    hpe = Emitter("Rat", {"p->r": "r", "p->v": "v", "dt": "t", "force": "f", "m_mass": "m"}).emit(parse_expr(mh.group(1)))
    # ---- reallyInPlane: side tests against c_wt_dist_eps
    rp = function_body(wtc, r"bool\s+WallTriangle::reallyInPlane\s*\([^)]*\)\s*const\s*\{")
    mp = re.search(r"if\s*\(\s*m_side_normals\[i\]\s*\*\s*\(\s*s\s*-\s*m_corners\[i\]\s*\)\s*(<=?|>=?)\s*c_wt_dist_eps\s*\)\s*\{?\s*return\s+false", " ".join(rp.split()))
    if not mp:
        raise TranslateError("reallyInPlane: side test not recognised")
    rm = read(repo, "source/src/reflector/reflector_mirror.cpp")
    rs = read(repo, "source/src/reflector/reflector_stochastic.cpp")
    return """/- GENERATED by /verif/translate/t_collide.py from cell.cpp (Cell::doCollision), cell.h (Cell::checkForHit), wall_triangle.h/.cpp
   (WallTriangle::hit, reallyInPlane, constants), integrator_velocity_verlet.cpp (solveHitTimeEquation, hitPos), reflector_*.cpp.
   Do not edit: rewritten on every check run. -/
namespace Sympler.Gen.Collide

/-- passes of `while (hit)` before "More than … wall collisions" is thrown -/
def maxPasses : Nat := %d
/-- is `t_travelled = HUGE_VAL` (and `hit = false`) executed at the START OF EVERY PASS? -/
def earliestResetEveryPass : Bool := %s
/-- `Cell::checkForHit`: a wall replaces the current candidate iff -/
def earlier (t t_travelled : Rat) : Bool := decide (t %s t_travelled)
/-- `WallTriangle::hit`: `return false` iff -/
def beyondStep (t dtLeft : Rat) : Bool := decide (t %s dtLeft)
/-- `c_wt_time_eps`, `c_wt_dist_eps` (wall_triangle.cpp), `c_rm_disp_eps`, `c_rs_disp_eps` -/
def timeEps : Rat := %s
def distEps : Rat := %s
def mirrorDispEps : Rat := %s
def stochasticDispEps : Rat := %s
/-- `WallTriangle::hit`: a root is taken as a hit only if -/
def acceptTime (t : Rat) : Bool := decide (t %s timeEps)
/-- `solveHitTimeEquation`, branch `a == 0`: `t0 = …` (with `b = n·v`, `c = n·r − nDotR`); no result iff `solverRejects t0` -/
def linearRoot (b c : Rat) : Rat := %s
def solverRejects (t0 : Rat) : Bool := decide (t0 %s timeEps)
/-- `IntegratorVelocityVerlet::hitPos`, one component -/
def hitPos (r v t f m : Rat) : Rat := %s
/-- `WallTriangle::reallyInPlane`: outside a side iff (signed side distance `s`) -/
def outsideSide (s : Rat) : Bool := decide (s %s distEps)
/-- after a reflection: `p->dt -= t_travelled; if (p->dt < 0) p->dt = 0;` -/
def remaining (dtLeft t : Rat) : Rat := if dtLeft - t < 0 then 0 else dtLeft - t

end Sympler.Gen.Collide
""" % (max_passes, "true" if (reset_in_loop and hit_reset) else "false", CMP[mc.group(1)], CMP[m1.group(1)], const(wtc, "c_wt_time_eps"), const(wtc, "c_wt_dist_eps"),
       const(rm, "c_rm_disp_eps"), const(rs, "c_rs_disp_eps"), CMP[m2.group(1)], t0, CMP[ml.group(2)], hpe, CMP[mp.group(1)])


if __name__ == "__main__":
    import sys
    print(generate(sys.argv[1] if len(sys.argv) > 1 else "/repo"), end="")
