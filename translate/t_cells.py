"""T1/T2 for C01 and C09: the neighbour tables and the per-direction kernels of the cell machinery
   cell.h (NUM_NEIGHBORS, INV_NEIGHBOR, OFFSET2NEIGHBOR, addPair), cell.cpp (Cell::c_offsets, cellDist,
   Cell::checkNewPosition), manager_cell.h (TOCELLINDEX)   ->   lean/Sympler/Gen/CellTablesGen.lean

Anything the translator does not recognise raises TranslateError ("the tie no longer checks")."""
import os
import re
from cexpr import strip_comments, strip_guarded, function_body, match_brace, parse_expr, parse_block, Emitter, TranslateError


def read(repo, rel):
    return strip_guarded(strip_comments(open(os.path.join(repo, rel)).read()))


def macro(src, name):
    """text of a #define (continuation lines joined), and its parameter list"""
    m = re.search(r"^[ \t]*#[ \t]*define[ \t]+%s(\(([^)]*)\))?[ \t]+((?:[^\n\\]|\\\n|\\.)*)" % re.escape(name), src, re.M)
    if not m:
        raise TranslateError("macro %s not found" % name)
    params = [p.strip() for p in (m.group(2) or "").split(",") if p.strip()]
    return params, m.group(3).replace("\\\n", " ").strip()


class IntEm:
    """C `int` expression -> Lean `Int` text.  env: path -> Lean text."""

    def __init__(self, env):
        self.env = env
        self.p = Emitter("Rat", {})

    def emit(self, e):
        k = e[0]
        if k == "num":
            if not e[2]:
                raise TranslateError("non-integer literal %s in an int expression" % e[1])
            return e[1]
        if k in ("id", "mem", "idx"):
            p = self.p.path(e)
            if p not in self.env:
                raise TranslateError("unknown name %s in an int expression" % p)
            return self.env[p]
        if k == "un" and e[1] == "-":
            return "(-%s)" % self.emit(e[2])
        if k == "bin" and e[1] in ("+", "-", "*"):
            return "(%s %s %s)" % (self.emit(e[2]), e[1], self.emit(e[3]))
        if k == "bin" and e[1] == "/":
            # C truncating division; only accepted for literal non-negative operands, where it equals Nat division
            a, b = e[2], e[3]
            ta, tb = self.emit(a), self.emit(b)
            if not (re.fullmatch(r"\(?[A-Za-z0-9_ :]+\)?", ta) and tb.isdigit() and int(tb) > 0):
                raise TranslateError("integer division with non-literal operands: %s / %s" % (ta, tb))
            return "((%s / %s : Nat) : Int)" % (self.env.get("__nat__" + ta, ta), tb)
        raise TranslateError("int expression not supported: %r" % (e,))


def gen_offsets(cpp):
    m = re.search(r"const\s+int_point_t\s+Cell::c_offsets\s*\[\s*NUM_NEIGHBORS\s*\]\s*=\s*\{", cpp)
    if not m:
        raise TranslateError("Cell::c_offsets initialiser not found")
    j = match_brace(cpp, m.end() - 1)
    inner = cpp[m.end():j - 1]
    triples = re.findall(r"\{\s*(-?\d+)\s*,\s*(-?\d+)\s*,\s*(-?\d+)\s*\}", inner)
    rest = re.sub(r"\{\s*(-?\d+)\s*,\s*(-?\d+)\s*,\s*(-?\d+)\s*\}", "", inner)
    if rest.replace(",", "").strip():
        raise TranslateError("unrecognised text in the c_offsets initialiser: %r" % rest.strip()[:60])
    return [(int(a), int(b), int(c)) for a, b, c in triples]


def generate(repo):
    cell_h = read(repo, "source/include/basic/cell.h")
    cell_cpp = read(repo, "source/src/basic/cell.cpp")
    mc_h = read(repo, "source/include/basic/manager_cell.h")
    # ---- NUM_NEIGHBORS
    _, nn = macro(cell_h, "NUM_NEIGHBORS")
    if not nn.isdigit():
        raise TranslateError("NUM_NEIGHBORS is not a literal: %r" % nn)
    # ---- c_offsets
    offs = gen_offsets(cell_cpp)
    # ---- INV_NEIGHBOR
    ps, body = macro(cell_h, "INV_NEIGHBOR")
    if len(ps) != 1:
        raise TranslateError("INV_NEIGHBOR: one parameter expected")
    inv = IntEm({"NUM_NEIGHBORS": "(numNeighbors : Int)", ps[0]: "n"}).emit(parse_expr(body))
    # ---- OFFSET2NEIGHBOR(off, n):  n = e; if (n > c) n--; while(0)
    ps, body = macro(cell_h, "OFFSET2NEIGHBOR")
    if len(ps) != 2:
        raise TranslateError("OFFSET2NEIGHBOR: two parameters expected")
    o, n = ps
    body = re.sub(r"while\s*\(\s*0\s*\)\s*$", "", body).strip()
    st = parse_block(body)
    env = {"NUM_NEIGHBORS": "numNeighbors", "%s[0]" % o: "off.1", "%s[1]" % o: "off.2.1", "%s[2]" % o: "off.2.2", n: "n"}
    iem = IntEm(env)
    if not (len(st) == 2 and st[0][0] == "assign" and st[0][1] == ("id", n) and st[0][2] == "=" and st[1][0] == "if" and st[1][3] is None):
        raise TranslateError("OFFSET2NEIGHBOR: expected `n = e; if (c) n--;`, got %r" % (st,))
    o2n_e = iem.emit(st[0][3])
    c = st[1][1]
    if not (c[0] == "bin" and c[1] in ("<", ">", "<=", ">=", "==", "!=") and c[2] == ("id", n)):
        raise TranslateError("OFFSET2NEIGHBOR: condition %r" % (c,))
    o2n_c = "n %s %s" % ({"==": "=", "!=": "≠", "<=": "≤", ">=": "≥"}.get(c[1], c[1]), iem.emit(c[3]))
    then = st[1][2]
    if then[0] == "block" and len(then[1]) == 1:
        then = then[1][0]
    if then[0] == "assign" and then[1] == ("id", n) and then[2] in ("--", "-=") :
        o2n_t = "n - 1" if then[2] == "--" else "n - %s" % iem.emit(then[3])
    elif then[0] == "assign" and then[1] == ("id", n) and then[2] in ("++", "+="):
        o2n_t = "n + 1" if then[2] == "++" else "n + %s" % iem.emit(then[3])
    else:
        raise TranslateError("OFFSET2NEIGHBOR: then-branch %r" % (then,))
    # ---- TOCELLINDEX(p, n)
    ps, body = macro(mc_h, "TOCELLINDEX")
    if len(ps) != 2:
        raise TranslateError("TOCELLINDEX: two parameters expected")
    env = {}
    for v, l in ((ps[0], "p"), (ps[1], "n")):
        env["%s.x" % v] = "%s.1" % l
        env["%s.y" % v] = "%s.2.1" % l
        env["%s.z" % v] = "%s.2.2" % l
    tci = IntEm(env).emit(parse_expr(body))
    # ---- cellDist
    cd = function_body(cell_cpp, r"\bvoid\s+cellDist\s*\([^)]*\)\s*\{")
    if not (re.search(r"width1\s*=\s*first\s*->\s*corner2\s*-\s*first\s*->\s*corner1\s*;", cd)
            and re.search(r"width2\s*=\s*second\s*->\s*corner2\s*-\s*second\s*->\s*corner1\s*;", cd)
            and re.search(r"off\s*=\s*Cell::c_offsets\s*\[\s*alignment\s*\]\s*;", cd)):
        raise TranslateError("cellDist: width1/width2/off prologue not recognised")
    m = re.search(r"for\s*\(\s*int\s+(\w+)\s*=\s*0\s*;\s*\1\s*<\s*SPACE_DIMS\s*;\s*(\1\s*\+\+|\+\+\s*\1)\s*\)\s*\{", cd)
    if not m:
        raise TranslateError("cellDist: loop over the directions not found")
    s = m.group(1)
    loop = parse_block(cd[m.end():match_brace(cd, m.end() - 1) - 1])
    rem = Emitter("Rat", {"width1[%s]" % s: "width1", "width2[%s]" % s: "width2"})

    def cd_chain(stm):
        if stm[0] == "block" and len(stm[1]) == 1:
            stm = stm[1][0]
        if stm[0] == "assign" and stm[2] == "=" and rem.path(stm[1]) == "dist[%s]" % s:
            return rem.emit(stm[3])
        if stm[0] == "if" and stm[3] is not None:
            c = stm[1]
            if not (c[0] == "bin" and c[1] == "==" and rem.path(c[2]) == "off[%s]" % s):
                raise TranslateError("cellDist: condition %r" % (c,))
            v = IntEm({}).emit(c[3])
            return "if off = %s then %s else %s" % (v.strip("()") if v.startswith("(-") else v, cd_chain(stm[2]), cd_chain(stm[3]))
        raise TranslateError("cellDist: statement %r" % (stm,))
    if len(loop) != 1:
        raise TranslateError("cellDist: one if-chain expected in the loop")
    cdist = cd_chain(loop[0])
    # ---- addPair (shared tail of both signatures)
    i0 = cell_h.find("inline void addPair")
    if i0 < 0:
        raise TranslateError("addPair not found")
    i1 = cell_h.find("dist_t d;", i0)
    tail = cell_h[i1:cell_h.find("newPair()", i1)]
    m = re.search(r"d\.cartesian\[(\w+)\]\s*=\s*([^;]*);", tail)
    if not m:
        raise TranslateError("addPair: assignment of d.cartesian not found")
    ix = m.group(1)
    aem = Emitter("Rat", {"cell_dist[%s]" % ix: "cell_dist", "first_p->r[%s]" % ix: "r1", "first_c->corner1[%s]" % ix: "corner1_1",
                          "second_p->r[%s]" % ix: "r2", "second_c->corner1[%s]" % ix: "corner1_2", "dir": "(dir : Rat)"})
    addp = aem.emit(parse_expr(m.group(2)))
    if not re.search(r"d\.abs_square\s*=\s*0\s*;", tail) or not re.search(r"d\.abs_square\s*\+=\s*d\.cartesian\[%s\]\s*\*\s*d\.cartesian\[%s\]\s*;" % (ix, ix), tail):
        raise TranslateError("addPair: abs_square is not the sum of the squared components")
    m = re.search(r"if\s*\(\s*d\.abs_square\s*(<=?|>=?)\s*cutoff_sq\s*\)", tail)
    if not m:
        raise TranslateError("addPair: cutoff comparison not found")
    keep = "decide (abs_square %s cutoff_sq)" % {"<=": "≤", ">=": "≥"}.get(m.group(1), m.group(1))
    # ---- Cell::checkNewPosition
    cnp = function_body(cell_cpp, r"Cell::checkNewPosition\s*\([^)]*\)\s*\{")
    m = re.search(r"if\s*\(\s*!\s*isInsideEps\s*\(\s*p\s*->\s*r\s*,\s*g_geom_eps\s*\)\s*\)", cnp)
    if not m:
        raise TranslateError("checkNewPosition: the isInsideEps(g_geom_eps) test was not found")
    m = re.search(r"for\s*\(\s*int\s+(\w+)\s*=\s*0\s*;\s*\1\s*<\s*SPACE_DIMS\s*;\s*(\1\s*\+\+|\+\+\s*\1)\s*\)\s*(if[^;]*;\s*else\s+if[^;]*;)", cnp)
    if not m or not re.search(r"int_point_t\s+off\s*=\s*\{\s*0\s*,\s*0\s*,\s*0\s*\}\s*;", cnp):
        raise TranslateError("checkNewPosition: loop computing the leave offset not recognised")
    j = m.group(1)
    oem = Emitter("Rat", {"p->r[%s]" % j: "r", "corner1[%s]" % j: "corner1", "corner2[%s]" % j: "corner2"})

    def off_chain(stm):
        if stm is None:
            return "0"
        if stm[0] == "assign" and stm[2] == "=" and oem.path(stm[1]) == "off[%s]" % j:
            v = IntEm({}).emit(stm[3])
            return v.strip("()") if v.startswith("(-") else v
        if stm[0] == "if":
            return "if %s then %s else %s" % (oem.cond(stm[1]), off_chain(stm[2]), off_chain(stm[3]))
        raise TranslateError("checkNewPosition: %r" % (stm,))
    offc = off_chain(parse_block(m.group(3))[0])
    m = re.search(r"new_p\s*->\s*r\s*=\s*([^;]*);", cnp)
    if not m:
        raise TranslateError("checkNewPosition: new position assignment not found")
    wem = Emitter("Rat", {"old_r": "old_r", "TARGET->corner1": "target_corner1", "corner1": "corner1", "dist": "dist"})
    wrap = wem.emit(parse_expr(re.sub(r"\(\s*\*\s*c\s*\)", "TARGET", m.group(1))))
    if not re.search(r"cellDist\s*\(\s*this\s*,\s*\*c\s*,\s*n\s*,\s*dist\s*\)\s*;", cnp):
        raise TranslateError("checkNewPosition: cellDist(this, *c, n, dist) not found")
    rows = ",\n  ".join(", ".join("(%d, %d, %d)" % t for t in offs[k:k + 6]) for k in range(0, len(offs), 6))
    return """/- GENERATED by /verif/translate/t_cells.py from /repo/source/include/basic/cell.h, /repo/source/src/basic/cell.cpp,
   /repo/source/include/basic/manager_cell.h.  Do not edit: rewritten on every check run. -/
namespace Sympler.Gen.CellTables

/-- `#define NUM_NEIGHBORS` (cell.h) -/
def numNeighbors : Nat := %s

/-- `const int_point_t Cell::c_offsets[NUM_NEIGHBORS]` (cell.cpp), in array order -/
def offsets : List (Int × Int × Int) := [
  %s]

/-- `#define INV_NEIGHBOR(n)` (cell.h); C `int` arithmetic -/
def invNeighbor (n : Int) : Int := %s

/-- `#define OFFSET2NEIGHBOR(off, n)` (cell.h); C `int` arithmetic -/
def offset2neighbor (off : Int × Int × Int) : Int :=
  let n := %s
  if %s then %s else n

/-- `#define TOCELLINDEX(p, n)` (manager_cell.h); arguments are `(x, y, z)` triples -/
def toCellIndex (p n : Int × Int × Int) : Int :=
  %s

/-- `cellDist` (cell.cpp), one direction -/
def cellDistComponent (off : Int) (width1 width2 : Rat) : Rat :=
  %s

/-- `addPair` (cell.h), one direction of `d.cartesian` -/
def addPairComponent (dir : Int) (cell_dist r1 corner1_1 r2 corner1_2 : Rat) : Rat :=
  %s

/-- `addPair` (cell.h): the pair is stored iff this holds (`abs_square` = sum of the squared components) -/
def addPairKeeps (abs_square cutoff_sq : Rat) : Bool := %s

/-- `Cell::checkNewPosition` (cell.cpp), one direction of the leave offset (`off` starts as 0) -/
def offComponent (r corner1 corner2 : Rat) : Int :=
  %s

/-- `Cell::checkNewPosition` (cell.cpp), one direction of the re-entry position `new_p->r` -/
def wrapComponent (old_r target_corner1 corner1 dist : Rat) : Rat :=
  %s

end Sympler.Gen.CellTables
""" % (nn, rows, inv, o2n_e, o2n_c, o2n_t, tci, cdist, addp, keep, offc, wrap)


if __name__ == "__main__":
    import sys
    print(generate(sys.argv[1] if len(sys.argv) > 1 else "/repo"))
