"""T2/T3 for C04, C05, C07, C10: the kernels the shared model `Sympler/Dyn.lean` transcribes  ->  lean/Sympler/Gen/DynGen.lean

* pair kernels  FPairVels / FPairScalar / FPairVector ::computeForces(Pairdist*, ...)  and  PairParticleScalar / PairParticleVector ::compute(Pairdist*)
  (serial branch of the `_OPENMP` conditionals): the own-cutoff comparison, and for the write to the first and to the second partner:
  the guard (`actsOnFirst()` / `actsOnSecond()`), the operator and the increment as a function of the atoms
      e = value of the pair expression (one component),  fi / fj = value of particleFactor_i / _j,  sym = m_symmetry,
      wFirst / wSecond = m_wf->weight(pair, firstPart()->r / secondPart()->r)   (FPairScalar / FPairVector only)
  obtained by symbolic execution of the statements in between (`fi[i] *= temp[i]`, ...).
* integrator kernels  IntegratorVelocityVerlet::integratePosition / integrateVelocity / integrateStep2 and
  IntegratorScalar / IntegratorVector ::integrateStep1 as functions of (r, v, dt, force/m, lambda, ...), per component.
* Controller::integrate: the order of the calls that make up one time step, and the `other_force_index` expression.
Everything unrecognised raises TranslateError (the tie no longer checks)."""
import os
import re
from cexpr import strip_comments, strip_guarded, function_body, match_brace, parse_expr, Emitter, TranslateError


UNDEFINED = ("_OPENMP", "TRACK_PARTICLE")


def no_openmp(src):
    """keep the branch of `#if(n)def _OPENMP` (and TRACK_PARTICLE) conditionals that is compiled with the macro UNDEFINED; other
    conditionals are kept as they are"""
    out, stack = [], []          # stack of (kind, active) ; kind 'omp' or 'other'
    for line in src.split("\n"):
        s = line.strip()
        m = re.match(r"#\s*(ifdef|ifndef|if|else|elif|endif)\b(.*)", s)
        if m:
            d, rest = m.group(1), m.group(2).strip()
            if d in ("ifdef", "ifndef") and rest.split()[:1] and rest.split()[0] in UNDEFINED:
                stack.append(["omp", d == "ifndef"])
                continue
            if d in ("ifdef", "ifndef", "if"):
                stack.append(["other", True])
            elif d == "else" and stack and stack[-1][0] == "omp":
                stack[-1][1] = not stack[-1][1]
                continue
            elif d == "endif":
                if not stack:
                    raise TranslateError("unbalanced #endif")
                k = stack.pop()
                if k[0] == "omp":
                    continue
        if all(a for _, a in stack):
            out.append(line)
    return "\n".join(out)


def read(repo, rel):
    return no_openmp(strip_guarded(strip_comments(open(os.path.join(repo, rel)).read())))


# ------------------------------------------------------------------ tiny structural statement parser

def split_statements(txt):
    """-> list of nodes ('if', cond, then, else|None) | ('for', header, body) | ('stmt', text)"""
    nodes, i, n = [], 0, len(txt)
    while i < n:
        while i < n and txt[i] in " \t\n;":
            i += 1
        if i >= n:
            break
        m = re.match(r"(if|for|while)\s*\(", txt[i:])
        if m:
            j = match_brace(txt, i + m.end() - 1)
            head = txt[i + m.end():j - 1]
            body, k = take_body(txt, j)
            if m.group(1) == "if":
                els = None
                m2 = re.match(r"\s*else\b", txt[k:])
                if m2:
                    els, k = take_body(txt, k + m2.end())
                nodes.append(("if", " ".join(head.split()), body, els))
            else:
                nodes.append(("for", " ".join(head.split()), body))
            i = k
        elif txt[i] == "{":
            j = match_brace(txt, i)
            nodes += split_statements(txt[i + 1:j - 1])
            i = j
        else:
            depth, j = 0, i
            while j < n and not (txt[j] == ";" and depth == 0):
                depth += txt[j] in "([{"
                depth -= txt[j] in ")]}"
                j += 1
            nodes.append(("stmt", " ".join(txt[i:j].split())))
            i = j + 1
    return nodes


def take_body(txt, i):
    while i < len(txt) and txt[i] in " \t\n":
        i += 1
    if i < len(txt) and txt[i] == "{":
        j = match_brace(txt, i)
        return split_statements(txt[i + 1:j - 1]), j
    nodes = split_statements_one(txt, i)
    return nodes


def split_statements_one(txt, i):
    """one statement starting at i -> (nodes, index after it)"""
    m = re.match(r"(if|for|while)\s*\(", txt[i:])
    if m:
        j = match_brace(txt, i + m.end() - 1)
        head = txt[i + m.end():j - 1]
        body, k = take_body(txt, j)
        if m.group(1) == "if":
            els = None
            m2 = re.match(r"\s*else\b", txt[k:])
            if m2:
                els, k = take_body(txt, k + m2.end())
            return [("if", " ".join(head.split()), body, els)], k
        return [("for", " ".join(head.split()), body)], k
    depth, j = 0, i
    while j < len(txt) and not (txt[j] == ";" and depth == 0):
        depth += txt[j] in "([{"
        depth -= txt[j] in ")]}"
        j += 1
    return [("stmt", " ".join(txt[i:j].split()))], j + 1


# ------------------------------------------------------------------ pair kernels

FUNCTORS = {"m_pairFactor": "e", "m_function": "e", "m_1stparticleFactor": "fi", "m_2ndparticleFactor": "fj"}
ATOMS = ["e", "fi", "fj", "sym", "wFirst", "wSecond"]


def pair_kernel(src, header_rx, cls):
    body = function_body(src, header_rx)
    m = re.search(r"\(\s*Pairdist\s*\*\s*(\w+)", re.search(header_rx, src).group(0))
    pd = m.group(1)
    body = body.replace("this->", "")
    body = re.sub(r"&\s*\(\s*\*\s*%s\s*\)" % pd, pd, body)
    nodes = split_statements(body)
    top = [x for x in nodes if not (x[0] == "stmt" and re.match(r"^(double|point_t|tensor_t|int|size_t)\s+\w+$", x[1]))]
    if len(top) != 1 or top[0][0] != "if" or top[0][3] is not None:
        raise TranslateError("%s: the kernel is not a single `if (cutoff test) { ... }`" % cls)
    cond = top[0][1].replace(" ", "")
    mc = re.fullmatch(r"m_cutoff(>=?|<=?)%s->abs\(\)" % pd, cond)
    if mc:
        op = {">": "<", ">=": "≤", "<": ">", "<=": "≥"}[mc.group(1)]        # abs OP cutoff
    else:
        mc = re.fullmatch(r"%s->abs\(\)(>=?|<=?)m_cutoff" % pd, cond)
        if not mc:
            raise TranslateError("%s: cutoff test %r not recognised" % (cls, top[0][1]))
        op = {"<": "<", "<=": "≤", ">": ">", ">=": "≥"}[mc.group(1)]
    env = {}                      # local variable -> Lean text
    alias = {}                    # local Particle* -> 'first' | 'second'
    writes = []

    def designator(lhs):
        t = lhs.replace(" ", "")
        for a, w in alias.items():
            if re.search(r"\b%s->" % a, t):
                return w
        if "%s->firstPart()" % pd in t:
            return "first"
        if "%s->secondPart()" % pd in t:
            return "second"
        return None

    def expr(txt):
        t = txt
        t = re.sub(r"m_wf\s*->\s*weight\s*\(\s*%s\s*,\s*%s\s*->\s*secondPart\(\)\s*->\s*r\s*\)" % (pd, pd), "W_SECOND", t)
        t = re.sub(r"m_wf\s*->\s*weight\s*\(\s*%s\s*,\s*%s\s*->\s*firstPart\(\)\s*->\s*r\s*\)" % (pd, pd), "W_FIRST", t)
        t = re.sub(r"\[\s*_?i\s*\]", "", t)
        e = parse_expr(t)
        names = dict(env)
        names.update({"m_symmetry": "sym", "W_SECOND": "wSecond", "W_FIRST": "wFirst"})
        return Emitter("Rat", names).emit(e)

    def walk(ns, guards):
        for x in ns:
            if x[0] == "for":
                if not re.match(r"(size_t|int)\s+_?i\s*=\s*0\s*;\s*_?i\s*<\s*SPACE_DIMS\s*;", x[1]):
                    raise TranslateError("%s: loop `for (%s)` is not a loop over the components" % (cls, x[1]))
                walk(x[2], guards)
            elif x[0] == "if":
                c = x[1].replace(" ", "")
                if c == "%s->actsOnFirst()" % pd:
                    g = "ao1"
                elif c == "%s->actsOnSecond()" % pd:
                    g = "ao2"
                else:
                    raise TranslateError("%s: condition `%s` inside the kernel not recognised" % (cls, x[1]))
                if x[3] is not None:
                    raise TranslateError("%s: else branch inside the kernel" % cls)
                walk(x[2], guards + [g])
            else:
                s = x[1]
                if not s:
                    continue
                if re.match(r"^(double|point_t|tensor_t)\s+\w+$", s):
                    continue
                m = re.match(r"^Particle\s*\*\s*(\w+)\s*=\s*%s\s*->\s*(first|second)Part\(\)$" % pd, s)
                if m:
                    alias[m.group(1)] = m.group(2)
                    continue
                m = re.match(r"^(\w+)\s*\(\s*&\s*(\w+)\s*,\s*%s\s*\)$" % pd, s)
                if m and m.group(1) in FUNCTORS:
                    env[m.group(2)] = FUNCTORS[m.group(1)]
                    continue
                m = re.match(r"^(.*?)(\+=|-=|\*=|/=|=)(?!=)(.*)$", s)
                if not m:
                    raise TranslateError("%s: statement `%s` not recognised" % (cls, s))
                lhs, aop, rhs = m.group(1).strip(), m.group(2), m.group(3).strip()
                who = designator(lhs)
                if who:
                    if not re.search(r"force\s*\[|tag\s*\.", lhs):
                        raise TranslateError("%s: write to `%s` is neither a force buffer nor a tag attribute" % (cls, lhs))
                    writes.append((who, aop, expr(rhs), list(guards)))
                    continue
                var = re.sub(r"\[\s*_?i\s*\]", "", lhs)
                if not re.fullmatch(r"\w+", var) or var not in env:
                    raise TranslateError("%s: assignment to `%s` not recognised" % (cls, lhs))
                r = expr(rhs)
                env[var] = r if aop == "=" else "(%s %s %s)" % (env[var], aop[0], r)
    walk(top[0][2], [])
    res = {"cut": op}
    for who in ("first", "second"):
        w = [x for x in writes if x[0] == who]
        if len(w) != 1:
            raise TranslateError("%s: %d writes to the %s partner" % (cls, len(w), who))
        res[who] = w[0]
    return res


PAIR_KERNELS = [
    ("FPairVels", "source/include/force/f_pair_vels.h", r"void\s+computeForces\s*\(\s*Pairdist\s*\*\s*\w+\s*,\s*int\s+force_index\s*\)\s*\{"),
    ("FPairScalar", "source/src/force/f_pair_scalar.cpp", r"void\s+FPairScalar::computeForces\s*\(\s*Pairdist\s*\*\s*\w+\s*,\s*int\s+force_index\s*\)\s*\{"),
    ("FPairVector", "source/src/force/f_pair_vector.cpp", r"void\s+FPairVector::computeForces\s*\(\s*Pairdist\s*\*\s*\w+\s*,\s*int\s+force_index\s*\)\s*\{"),
    ("PairParticleScalar", "source/include/symbol/val_calculator_part/pair_particle_scalar.h", r"virtual\s+void\s+compute\s*\(\s*Pairdist\s*\*\s*\w+\s*\)\s*\{"),
    ("PairParticleVector", "source/include/symbol/val_calculator_part/pair_particle_vector.h", r"virtual\s+void\s+compute\s*\(\s*Pairdist\s*\*\s*\w+\s*\)\s*\{"),
]


# ------------------------------------------------------------------ integrators

def macro_body(src, start_rx):
    """code argument of the FOR_EACH_FREE_PARTICLE_C__PARALLEL(phase, colour, data, code) after start_rx"""
    m = re.search(start_rx, src)
    if not m:
        raise TranslateError("not found: %s" % start_rx)
    i = src.index("(", m.end() - 1) if src[m.end() - 1] != "(" else m.end() - 1
    j = match_brace(src, i)
    inner = src[i + 1:j - 1]
    depth, parts, cur = 0, [], ""
    for ch in inner:
        depth += ch in "([{"
        depth -= ch in ")]}"
        if ch == "," and depth == 0 and len(parts) < 3:
            parts.append(cur)
            cur = ""
        else:
            cur += ch
    parts.append(cur)
    return parts[-1].strip().rstrip(";").strip(), j


def upd(stmt, lhs_rx, names):
    """`LHS += RHS` -> Lean text of RHS over the given names"""
    m = re.match(r"^\s*%s\s*\+=\s*(.*)$" % lhs_rx, " ".join(stmt.split()), re.S)
    if not m:
        raise TranslateError("update `%s` not of the form %s += ..." % (stmt, lhs_rx))
    return Emitter("Rat", names).emit(parse_expr(m.group(1)))


def integrators(repo):
    vv = read(repo, "source/src/integrator/integrator_velocity_verlet.cpp")
    out = {}
    b = function_body(vv, r"void\s+IntegratorVelocityVerlet::integratePosition\s*\([^)]*\)\s*\{")
    if not re.search(r"point_t\s+accel\s*=\s*p\s*->\s*force\s*\[\s*force_index\s*\]\s*/\s*m_mass\s*;", b):
        raise TranslateError("integratePosition: accel = force[force_index]/m_mass not found")
    if not re.search(r"force_index\s*=\s*\(\(Controller\*\)\s*m_parent\)\s*->\s*forceIndex\(\)\s*;", b):
        raise TranslateError("integratePosition: force_index is not the controller's force index")
    ic, ir = b.find("doCollision"), b.find("p->r +=")
    if ic < 0 or ir < 0 or ir < ic:
        raise TranslateError("integratePosition: doCollision must precede the position update")
    st = [s for s in b.split(";") if "p->r +=" in s][0]
    out["pos"] = upd(st, r"p\s*->\s*r", {"p->dt": "dt", "p->v": "v", "accel": "(f / m)"})
    b = function_body(vv, r"void\s+IntegratorVelocityVerlet::integrateVelocity\s*\([^)]*\)\s*\{")
    st = [s for s in b.split(";") if "p->v +=" in s][0]
    out["vel"] = upd(st, r"p\s*->\s*v", {"p->dt": "dt", "m_lambda": "lambda", "p->force[force_index]": "f", "m_mass": "m"})
    b = function_body(vv, r"void\s+IntegratorVelocityVerlet::integrateStep2\s*\(\s*\)\s*\{")
    if not re.search(r"other_force_index\s*=\s*\(\s*force_index\s*\+\s*1\s*\)\s*&\s*\(\s*FORCE_HIST_SIZE\s*-\s*1\s*\)\s*;", b):
        raise TranslateError("integrateStep2: other_force_index = (force_index+1)&(FORCE_HIST_SIZE-1) not found")
    mg = re.search(r"if\s*\(\s*m_lambda\s*!=\s*0\.5\s*\)\s*\{", b)
    if not mg:
        raise TranslateError("integrateStep2: `if (m_lambda != 0.5)` not found")
    jg = match_brace(b, mg.end() - 1)
    c1, _ = macro_body(b[mg.end():jg], r"FOR_EACH_FREE_PARTICLE_C__PARALLEL\s*\(")
    c2, _ = macro_body(b[jg:], r"FOR_EACH_FREE_PARTICLE_C__PARALLEL\s*\(")
    out["step2corr"] = upd(c1, r"i\s*->\s*v", {"i->dt": "dt", "m_lambda_diff": "lambdaDiff", "i->force[other_force_index]": "fOld", "m_mass": "m"})
    out["step2"] = upd(c2, r"i\s*->\s*v", {"i->dt": "dt", "i->force[force_index]": "fNew", "m_mass": "m"})
    ld = re.search(r"m_lambda_diff\s*=\s*([^;]*);", vv) or re.search(r"m_lambda_diff\s*=\s*([^;]*);", read(repo, "source/src/integrator/integrator_position.cpp"))
    if not ld:
        raise TranslateError("definition of m_lambda_diff not found")
    out["lambdaDiff"] = Emitter("Rat", {"m_lambda": "lambda"}).emit(parse_expr(ld.group(1)))
    for cls, rel, acc in (("Scalar", "source/src/integrator/integrator_scalar.cpp", "doubleByOffset"), ("Vector", "source/src/integrator/integrator_vector.cpp", "pointByOffset")):
        src = read(repo, rel)
        b = function_body(src, r"void\s+Integrator%s::integrateStep1\s*\(\s*\)\s*\{" % cls)
        if not re.search(r"force_index\s*=\s*M_CONTROLLER\s*->\s*forceIndex\(\)\s*;", b):
            raise TranslateError("Integrator%s::integrateStep1: force_index is not the controller's force index" % cls)
        c, _ = macro_body(b, r"FOR_EACH_FREE_PARTICLE_C__PARALLEL\s*\(")
        c = re.sub(r"\(\(Integrator%s\*\)\s*data\)\s*->\s*" % cls, "", " ".join(c.split()))
        ml = re.match(r"^for\s*\(\s*size_t\s+(\w+)\s*=\s*0\s*;\s*\1\s*<\s*SPACE_DIMS\s*;\s*\+\+\s*\1\s*\)\s*\{\s*(.*?);?\s*\}$", c)
        if ml:                                   # loop over the components: one component
            c = ml.group(2).replace("[%s]" % ml.group(1), "")
        m = re.match(r"^i->tag\.%s\(m_%s_offset\)\s*\+=\s*(.*)$" % (acc, cls.lower()), c)
        if not m:
            raise TranslateError("Integrator%s::integrateStep1: update `%s` not recognised" % (cls, c))
        rhs = m.group(1).replace("i->tag.%s(m_force_offset[force_index])" % acc, "FCUR")
        out["euler" + cls] = Emitter("Rat", {"m_dt": "dt", "FCUR": "f"}).emit(parse_expr(rhs))
    return out


# ------------------------------------------------------------------ Controller::integrate

STEP_CALLS = [("step1", r"->\s*integrateStep1\s*\(\s*\)"), ("otherIndex", r"other_force_index\s*=\s*\(\s*m_force_index\s*\+\s*1\s*\)\s*&\s*\(\s*FORCE_HIST_SIZE\s*-\s*1\s*\)"),
              ("clearForce", r"__iSLFE\s*->\s*clear\s*\(\s*other_force_index\s*\)"), ("unprotect", r"->\s*unprotect\s*\(\s*other_force_index\s*\)"),
              ("clearParticleData", r"phase\s*->\s*clearParticleData\s*\(\s*\)"), ("neighbourUpdate", r"\btriggerNeighbourUpdate\s*\(\s*\)"),
              ("runSymbols", r"\brunSymbols\s*\(\s*\)"), ("pairForces", r"->\s*computeForces\s*\(\s*pair\s*,\s*other_force_index\s*\)"),
              ("flipIndex", r"\(\s*\+\+\s*m_force_index\s*\)\s*&=\s*\(\s*FORCE_HIST_SIZE\s*-\s*1\s*\)"), ("step2", r"->\s*integrateStep2\s*\(\s*\)")]


def controller_order(repo):
    src = read(repo, "source/src/basic/controller.cpp")
    b = function_body(src, r"void\s+Controller::integrate\s*\(\s*\)\s*\{")
    pos = []
    for name, rx in STEP_CALLS:
        ms = list(re.finditer(rx, b))
        if not ms:
            raise TranslateError("Controller::integrate: %s (%s) not found" % (name, rx))
        pos.append((ms[0].start(), name))
    # particle forces and other forces: computeForces(particle, other_force_index) / computeForces(other_force_index)
    for name, rx in (("particleForces", r"->\s*computeForces\s*\(\s*\w+\s*,\s*other_force_index\s*\)"), ("otherForces", r"->\s*computeForces\s*\(\s*other_force_index\s*\)")):
        ms = [m for m in re.finditer(rx, b) if "pair" not in m.group(0)]
        if ms:
            pos.append((ms[0].start(), name))
    pos.sort()
    hist = re.search(r"#\s*define\s+FORCE_HIST_SIZE\s+(\d+)", open(os.path.join(repo, "source/include/basic/particle.h")).read())
    if not hist:
        raise TranslateError("FORCE_HIST_SIZE not found")
    return [n for _, n in pos], int(hist.group(1))


# ------------------------------------------------------------------ output

def generate(repo):
    ks = []
    for cls, rel, rx in PAIR_KERNELS:
        ks.append((cls, pair_kernel(read(repo, rel), rx, cls)))
    ig = integrators(repo)
    order, hist = controller_order(repo)
    s = """/- GENERATED by /verif/translate/t_dyn.py from the pair kernels (f_pair_vels.h, f_pair_scalar.cpp, f_pair_vector.cpp,
   pair_particle_scalar.h, pair_particle_vector.h), the integrators (integrator_velocity_verlet.cpp, integrator_scalar.cpp,
   integrator_vector.cpp) and Controller::integrate (controller.cpp).  Do not edit: rewritten on every check run. -/
namespace Sympler.Gen.Dyn

/-- guard of a write inside a pair kernel -/
inductive Guard where
  | actsOnFirst
  | actsOnSecond
deriving DecidableEq, Repr

"""
    for cls, k in ks:
        s += "/-- `%s`: the kernel runs iff `pair->abs() %s m_cutoff` -/\ndef %s_inCut (abs cutoff : Rat) : Bool := decide (abs %s cutoff)\n\n" % (cls, k["cut"], cls, k["cut"])
        for who in ("first", "second"):
            _, aop, rhs, guards = k[who]
            g = "[" + ", ".join({"ao1": ".actsOnFirst", "ao2": ".actsOnSecond"}[x] for x in guards) + "]"
            s += "/-- `%s`: write to the %s partner: `target %s …` under the guards below; one component of the increment -/\n" % (cls, who, aop)
            s += "def %s_%s (e fi fj sym wFirst wSecond : Rat) : Rat := %s%s\n" % (cls, who, "-" if aop == "-=" else "", rhs)
            s += "def %s_%sGuards : List Guard := %s\n" % (cls, who, g)
            s += "def %s_%sAccumulates : Bool := %s\n\n" % (cls, who, "true" if aop in ("+=", "-=") else "false")
    s += """/-! integrators, one component; `f` = force buffer entry, `m` = mass -/

/-- `IntegratorVelocityVerlet::integratePosition`: `p->r += …` with `accel = force[force_index]/m_mass` (after `doCollision`) -/
def vvPosIncr (dt v f m : Rat) : Rat := %s
/-- `IntegratorVelocityVerlet::integrateVelocity`: `p->v += …` -/
def vvVelIncr (dt lambda f m : Rat) : Rat := %s
/-- `m_lambda_diff` -/
def vvLambdaDiff (lambda : Rat) : Rat := %s
/-- `integrateStep2`, first loop (only `if (m_lambda != 0.5)`): `i->v += …` with the OTHER force index -/
def vvStep2Corr (dt lambdaDiff fOld m : Rat) : Rat := %s
/-- `integrateStep2`, second loop: `i->v += …` with the current force index -/
def vvStep2Incr (dt fNew m : Rat) : Rat := %s
/-- `IntegratorScalar::integrateStep1`: `scalar += …` -/
def eulerScalarIncr (dt f : Rat) : Rat := %s
/-- `IntegratorVector::integrateStep1`: `vector += …` -/
def eulerVectorIncr (dt f : Rat) : Rat := %s

/-- `FORCE_HIST_SIZE` (particle.h) -/
def forceHistSize : Nat := %d
/-- order of the calls of `Controller::integrate` (first occurrence of each) -/
def integrateOrder : List String := [%s]

end Sympler.Gen.Dyn
""" % (ig["pos"], ig["vel"], ig["lambdaDiff"], ig["step2corr"], ig["step2"], ig["eulerScalar"], ig["eulerVector"], hist, ", ".join('"%s"' % x for x in order))
    return s


if __name__ == "__main__":
    import sys
    print(generate(sys.argv[1] if len(sys.argv) > 1 else "/repo"), end="")
