"""T for C12: table of entropy sites of /repo/source (getpid, time, clock, srand, rand, random_device, gettimeofday) with the
enclosing function and the randomize-guard under which each is reached -> lean/Sympler/Gen/EntropyGen.lean"""
import os
import re
from cexpr import strip_comments, strip_guarded, TranslateError

PAT = re.compile(r"\b(getpid|time|clock|srand|rand|gettimeofday|random_device|clock_gettime|getenv)\s*\(")
FUNC = re.compile(r"^[A-Za-z_][\w:<>\*&\s,~]*?\b([A-Za-z_]\w*(?:::[~\w]+)+|main)\s*\([^;{}]*\)\s*(?:const\s*)?(?::[^{;]*)?\{", re.M)


def guard_of(body_before):
    """classify by the innermost enclosing if/else whose condition mentions randomize"""
    # brace-less forms:  if (cond) <site>;   /   if (cond) stmt; else <site>;
    k = max(body_before.rfind(";"), body_before.rfind("{"), body_before.rfind("}"))
    stmt_head = body_before[k + 1:]
    m = re.match(r"\s*if\s*\((.*)\)\s*[\w.>\-(\s=*+]*$", stmt_head, flags=re.S)
    if m and "andomize" in m.group(1):
        return "not-randomize" if re.match(r"\s*!", m.group(1)) else "randomize"
    if re.match(r"\s*else\s*[\w.>\-(\s=*+]*$", stmt_head) and k >= 0 and body_before[k] == ";":
        prev = body_before[:k]
        k2 = max(prev.rfind(";"), prev.rfind("{"), prev.rfind("}"))
        m2 = re.match(r"\s*if\s*\((.*?)\)\s*\S", prev[k2 + 1:], flags=re.S)
        if m2 and "andomize" in m2.group(1):
            return "randomize" if re.match(r"\s*!", m2.group(1)) else "not-randomize"
    # walk backwards tracking brace depth to find enclosing blocks
    depth = 0
    i = len(body_before) - 1
    while i >= 0:
        ch = body_before[i]
        if ch == "}":
            depth += 1
        elif ch == "{":
            if depth == 0:
                # an enclosing block opens here: what precedes it?
                head = body_before[max(0, i - 200):i]
                m = re.search(r"if\s*\(([^{};]*)\)\s*$", head)
                if m and "andomize" in m.group(1):
                    neg = bool(re.match(r"\s*!", m.group(1)))
                    return "not-randomize" if neg else "randomize"
                if re.search(r"else\s*$", head):
                    # find the matching if of this else
                    j = i - 1
                    k = head.rfind("else")
                    before_else = body_before[:max(0, i - 200) + k].rstrip()
                    if before_else.endswith("}"):
                        # skip the if-block
                        d2, p = 0, len(before_else) - 1
                        while p >= 0:
                            if before_else[p] == "}":
                                d2 += 1
                            elif before_else[p] == "{":
                                d2 -= 1
                                if d2 == 0:
                                    break
                            p -= 1
                        head2 = before_else[max(0, p - 200):p]
                        m2 = re.search(r"if\s*\(([^{};]*)\)\s*$", head2)
                        if m2 and "andomize" in m2.group(1):
                            neg = bool(re.match(r"\s*!", m2.group(1)))
                            return "randomize" if neg else "not-randomize"
            else:
                depth -= 1
        i -= 1
    return "none"


def classify(name, line):
    l = line.strip()
    if name == "getpid":
        if re.search(r"setSeed\s*\(|\bseed\s*=", l):
            return "pid-seed"
        if "<<" in l:
            return "pid-name"
        return "pid-other"
    if name == "time":
        if re.search(r"setSeed\s*\(|srand\s*\(|\bseed\s*=", l):
            return "time-seed"
        return "time-stamp"
    if name == "clock":
        return "clock-stamp"
    if name == "srand":
        if re.search(r"srand\s*\(\s*\(?\s*(unsigned\s*\)?\s*)?time", l):
            return "time-seed"
        return "const-srand"
    if name == "rand":
        return "rand-draw"
    if name == "getenv":
        return "getenv"
    return name


def generate(repo):
    sites = []
    base = os.path.join(repo, "source")
    for sub in ("src", "include"):
        for root, dirs, files in os.walk(os.path.join(base, sub)):
            for fn in sorted(files):
                if not fn.endswith((".cpp", ".h")):
                    continue
                path = os.path.join(root, fn)
                src = strip_guarded(strip_comments(open(path, errors="replace").read()))
                funcs = [(m.start(), m.group(1)) for m in FUNC.finditer(src)]
                for m in PAT.finditer(src):
                    name = m.group(1)
                    ls = src.rfind("\n", 0, m.start()) + 1
                    le = src.find("\n", m.end())
                    line = src[ls:le]
                    if name == "time" and re.search(r"[\w>.]\s*time\s*\($", src[max(0, m.start() - 3):m.end()].replace("\n", "")) and not re.search(r"\(\s*time\s*\(|=\s*time\s*\(|[ (,]time\s*\(", line):
                        continue
                    if re.search(r"(->|\.|::)\s*%s\s*\($" % name, src[max(0, m.start() - 4):m.end()]):
                        continue          # a member function of that name (e.g. controller->time())
                    if re.search(r"\b(double|int|void|size_t|virtual)\s+%s\s*\($" % name, src[max(0, m.start() - 12):m.end()]):
                        continue          # a declaration
                    f = "?"
                    fstart = 0
                    for (pos, nm) in funcs:
                        if pos < m.start():
                            f, fstart = nm, pos
                    kind = classify(name, line)
                    if kind == "getenv":
                        continue
                    g = guard_of(src[fstart:m.start()])
                    rel = os.path.relpath(path, base)
                    sites.append((rel, f, kind, g))
    # the table is a set of (file, function, kind, guard): line numbers are deliberately not part of it
    uniq = sorted(set(sites))
    rows = ",\n  ".join('⟨"%s", "%s", "%s", "%s"⟩' % s for s in uniq)
    return """/- GENERATED by /verif/translate/t_entropy.py: every call of getpid/time/clock/srand/rand/gettimeofday/random_device in
   /repo/source/{src,include} with its enclosing function and the `randomize` guard under which it is reached.
   Do not edit: rewritten on every check run. -/
namespace Sympler.Gen.Entropy

structure Site where
  file : String
  func : String
  kind : String
  guard : String
  deriving DecidableEq, Repr

def sites : List Site := [
  %s
]

end Sympler.Gen.Entropy
""" % rows


if __name__ == "__main__":
    import sys
    print(generate(sys.argv[1] if len(sys.argv) > 1 else "/repo"))
