"""C19 correspondence: bonded lists on the real binary.

Scenarios: chains, rings, random bonds, several lists per colour pair, mixed-colour bonds, bonds across periodic faces, bonds
longer than the non-bonded cutoff / than a cell / than half the box in WALLED directions; both pair creators; the bonded force
ConnectBasic with pairFactor [rij] (force = separation vector) moves the particles (exact arithmetic).
Observed per step: every bonded list entry with its separation vector (VBOND), forces.
Compared: the Lean driver `bonds` (refresh of every listed bond from the current positions).
Oracle (property, independent of the model): listed bonds = connector file (each once), vector = minimum image in periodic
directions / plain difference in walled ones, force on each particle = sum over its bonds.
"""
import os
import sys
from fractions import Fraction

sys.path.insert(0, os.path.dirname(os.path.abspath(__file__)))
import symlib  # noqa: E402

F = Fraction


def gen_case(r):
    periodic = [r.random() < 0.6 for _ in range(3)]
    L = [F(r.choice([4, 5, 6, 8])) for _ in range(3)]
    two = r.random() < 0.4
    species = ["A", "B"] if two else ["A"]
    n = r.randrange(3, 9)
    parts = []
    for k in range(n):
        sp = r.choice(species)
        pos = []
        for a in range(3):
            lo, hi = (F(1), L[a] - 1) if not periodic[a] else (F(0), L[a] - F(1, 8))
            pos.append(lo + F(r.randrange(0, int((hi - lo) * 8) + 1), 8))
        v = [F(r.randrange(-4, 5), 8) if periodic[a] else F(0) for a in range(3)]
        parts.append(dict(species=sp, r=pos, v=v))
    if two and not any(p["species"] == "B" for p in parts):
        parts[-1]["species"] = "B"
    if two and not any(p["species"] == "A" for p in parts):
        parts[0]["species"] = "A"
    # bond lists
    lists = []
    topo = r.choice(["chain", "ring", "random", "two-lists", "long"])
    idx = list(range(n))
    def lname(k, sa, sb):
        return "b%d%s%s" % (k, sa, sb)
    pairs = []
    if topo in ("chain", "ring", "two-lists"):
        pairs = [(idx[k], idx[k + 1]) for k in range(n - 1)]
        if topo == "ring" and n > 2:
            pairs.append((idx[-1], idx[0]))
    elif topo == "random":
        allp = [(i, j) for i in range(n) for j in range(i + 1, n)]
        pairs = r.sample(allp, min(len(allp), r.randrange(1, 6)))
    else:
        far = sorted([(i, j) for i in range(n) for j in range(i + 1, n)], key=lambda p: -sum((a - b) ** 2 for a, b in zip(parts[p[0]]["r"], parts[p[1]]["r"])))
        pairs = far[:r.randrange(1, 4)]
    if r.random() < 0.5:
        pairs = [(j, i) if r.random() < 0.5 else (i, j) for (i, j) in pairs]
    # one connected list per (species pair, list number)
    bylist = {}
    for k, (i, j) in enumerate(pairs):
        sa, sb = parts[i]["species"], parts[j]["species"]
        key = tuple(sorted([sa, sb]))
        num = 0 if topo != "two-lists" else k % 2
        bylist.setdefault((key, num), []).append((i, j))
    connectors = []
    mods = []
    staged = r.random() < 0.6          # chains of derived symbols: bonded stage 0 -> bonded stage 1 (-> 2), and a non-bonded chain
    deep = staged and r.random() < 0.4
    chains = []
    for (key, num), pl in sorted(bylist.items()):
        name = lname(num, key[0], key[1])
        connectors.append(dict(name=name, species=list(key), pairs=pl))
        mods.append(["ConnectBasic", {"forceName": name, "species1": key[0], "species2": key[1], "pairFactor": "[rij]"}])
        mods.append(["BondedPairParticleVector", {"species1": key[0], "species2": key[1], "listName": name, "symbol": "s" + name, "expression": "[rij]", "symmetry": "-1"}])
        if staged:
            # u = sum over the listed bonds of [rij]:[s_first]  (stage 1: reads the bonded sum s of stage 0), symmetric
            mods.append(["BondedPairParticleScalar", {"species1": key[0], "species2": key[1], "listName": name, "symbol": "u" + name,
                                                      "expression": "[rij]:[s%si]" % name, "symmetry": "1"}])
            chains.append((name, key))
            if deep:
                # w = sum over the listed bonds of u_first + u_second  (stage 2)
                mods.append(["BondedPairParticleScalar", {"species1": key[0], "species2": key[1], "listName": name, "symbol": "w" + name,
                                                          "expression": "u%si+u%sj" % (name, name), "symmetry": "1"}])
    nb_chain = r.choice([0, 1, 2, 3]) if staged else 0     # depth of the NON-bonded symbol chain of every colour pair
    for sa in species:
        for sb in species:
            if sa <= sb:
                mods.append(["FPairVels", {"species1": sa, "species2": sb, "cutoff": "1", "pairFactor": "0*[rij]"}])
    # non-bonded chain n0 (stage 0), n1 = sum of n0i+n0j (stage 1), ... on the pair (first species, first species)
    for k in range(nb_chain):
        expr = "1" if k == 0 else "n%di+n%dj" % (k - 1, k - 1)
        mods.append(["PairParticleScalar", {"species1": species[0], "species2": species[0], "symbol": "n%d" % k, "expression": expr, "cutoff": "1", "symmetry": "1"}])
    if staged and r.random() < 0.5:
        r.shuffle(mods)
    verlet = r.random() < 0.4
    integ = "IntegratorVelocityVerletDisp" if verlet else "IntegratorVelocityVerlet"
    integrators = []
    for sp in species:
        a = {"species": sp, "lambda": "1/2", "mass": "1"}
        if verlet:
            a.update({"displacement": "displacement", "symbol": "ds"})
        integrators.append([integ, a])
    sc = {"box": [symlib.rat(x) for x in L], "periodic": periodic,
          "controller": {"dt": "1/16", "timesteps": r.randrange(2, 6)},
          "integrators": integrators, "modules": mods,
          "pair_creator": ["VerletCreator", {"skinSize": "1/4", "displacement": "displacement"}] if verlet else ["LinkedListCreator", {}],
          "particles": [{"species": p["species"], "r": [symlib.rat(x) for x in p["r"]], "v": [symlib.rat(x) for x in p["v"]]} for p in parts],
          "species_order": species, "connectors": connectors}
    meta = dict(L=L, periodic=periodic, topology=topo, species=len(species), verlet=verlet, nbonds=len(pairs), staged=staged, deep=deep,
                nb_chain=nb_chain, chains=[c[0] for c in chains])
    return sc, meta


def minimg(d, L, periodic):
    out = []
    for x, l, p in zip(d, L, periodic):
        if p:
            while x > l / 2:
                x -= l
            while x < -l / 2:
                x += l
        out.append(x)
    return out


def expected_bonds(sc):
    """(c1, c2, list, slot1, slot2) multiset from the connector file; partners ordered by colour"""
    sl = symlib.slots(sc)
    col = {s: i for i, s in enumerate(sc["species_order"])}
    exp = []
    for con in sc["connectors"]:
        for (i, j) in con["pairs"]:
            ci, cj = col[sc["particles"][i]["species"]], col[sc["particles"][j]["species"]]
            if ci > cj:
                i, j, ci, cj = j, i, cj, ci
            exp.append((ci, cj, con["name"], sl[i], sl[j]))
    return sorted(exp)


TOL = F(1, 2 ** 36)      # rounding-level slack: bit growth over several steps leaves the exactly representable range


def close(a, b, scale=1):
    return all(abs(x - y) <= TOL * scale for x, y in zip(a, b))


def oracle_step(st, sc, meta):
    errs = []
    got = sorted((b["c1"], b["c2"], b["list"], b["s1"], b["s2"]) for b in st["bonds"])
    if got != expected_bonds(sc):
        errs.append("listed bonds %s differ from the connector file %s" % (got, expected_bonds(sc)))
        return errs
    pos = {(p["colour"], p["slot"]): p for p in st["particles"] if not p["frozen"]}
    force = {k: [F(0)] * 3 for k in pos}
    for b in st["bonds"]:
        a, c = pos[(b["c1"], b["s1"])], pos[(b["c2"], b["s2"])]
        d = minimg([x - y for x, y in zip(a["r"], c["r"])], meta["L"], meta["periodic"])
        if not close(b["d"], d, 16):
            errs.append("bond %s-%s of list %s has separation %s, the current minimum-image separation is %s" % (b["s1"], b["s2"], b["list"], [str(x) for x in b["d"]], [str(x) for x in d]))
        for k in range(3):
            force[(b["c1"], b["s1"])][k] += d[k]
            force[(b["c2"], b["s2"])][k] -= d[k]
    fi = st["forceidx"]
    for k, p in pos.items():
        f = p["f%d" % fi]
        if not close(f, force[k], 256):
            errs.append("force on particle %s is %s, the sum over its bonds is %s" % (k, [str(x) for x in f], [str(x) for x in force[k]]))
            break
    # derived bonded symbols: every listed bond evaluated exactly once per step by each bonded symbol of its list, in stage order
    def tag(p, n):
        t = p["tag"].get(n)
        return None if t is None else t[2]
    for name in meta.get("chains", []):
        s_exp = {k: [F(0)] * 3 for k in pos}
        u_exp = {k: F(0) for k in pos}
        w_exp = {k: F(0) for k in pos}
        bl = [b for b in st["bonds"] if b["list"] == name]
        for b in bl:
            ka, kc = (b["c1"], b["s1"]), (b["c2"], b["s2"])
            d = minimg([x - y for x, y in zip(pos[ka]["r"], pos[kc]["r"])], meta["L"], meta["periodic"])
            for k in range(3):
                s_exp[ka][k] += d[k]
                s_exp[kc][k] -= d[k]
        for b in bl:
            ka, kc = (b["c1"], b["s1"]), (b["c2"], b["s2"])
            d = minimg([x - y for x, y in zip(pos[ka]["r"], pos[kc]["r"])], meta["L"], meta["periodic"])
            val = sum(d[k] * s_exp[ka][k] for k in range(3))
            u_exp[ka] += val
            u_exp[kc] += val
        for b in bl:
            ka, kc = (b["c1"], b["s1"]), (b["c2"], b["s2"])
            val = u_exp[ka] + u_exp[kc]
            w_exp[ka] += val
            w_exp[kc] += val
        touched = {(b["c1"], b["s1"]) for b in bl} | {(b["c2"], b["s2"]) for b in bl}
        for k in sorted(touched):
            p = pos[k]
            got = tag(p, "s" + name)
            if got is not None and not close(got, s_exp[k], 256):
                errs.append("bonded sum s%s of particle %s is %s, the sum over its listed bonds is %s" % (name, k, [str(x) for x in got], [str(x) for x in s_exp[k]]))
                break
            got = tag(p, "u" + name)
            if got is not None and not close([got], [u_exp[k]], 2 ** 16):
                errs.append("bonded symbol u%s (stage 1) of particle %s is %s, the sum over its listed bonds is %s" % (name, k, got, u_exp[k]))
                break
            got = tag(p, "w" + name)
            if got is not None and not close([got], [w_exp[k]], 2 ** 20):
                errs.append("bonded symbol w%s (stage 2) of particle %s is %s, the sum over its listed bonds is %s" % (name, k, got, w_exp[k]))
                break
    return errs


def model_lines(st, meta):
    """protocol lines + expected output; bonds whose plain difference is not exactly representable as a double (bit growth)
    are left out of the exact comparison (returned count)"""
    lines = ["box %s %s" % (" ".join(symlib.rat(x) for x in meta["L"]), " ".join("1" if p else "0" for p in meta["periodic"]))]
    ids = {}
    pp = {}
    for p in st["particles"]:
        if p["frozen"]:
            continue
        ids[(p["colour"], p["slot"])] = len(ids)
        pp[(p["colour"], p["slot"])] = p
        lines.append("pos %d %s" % (ids[(p["colour"], p["slot"])], " ".join(symlib.rat(x) for x in p["r"])))
    exp = []
    skipped = 0
    for b in st["bonds"]:
        a, c = pp[(b["c1"], b["s1"])], pp[(b["c2"], b["s2"])]
        exact = all(F(float(x) - float(y)) == x - y for x, y in zip(a["r"], c["r"]))
        if not exact:
            skipped += 1
            continue
        i, j = ids[(b["c1"], b["s1"])], ids[(b["c2"], b["s2"])]
        lines.append("bond %d %d" % (i, j))
        exp.append("bond %d %d %s" % (i, j, ",".join(symlib.rat(x) for x in b["d"])))
    lines.append("end")
    return lines, exp, skipped
