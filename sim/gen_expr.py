#!/usr/bin/env python3
"""Generator for property C03 (expression language).

usage: gen_expr.py <seed> <n> <maxdepth> [--out PREFIX] [--exhaustive K] [--exsample N] [--malformed M] [--block B]
       (--exsample N: keep a random sample of N of the exhaustive cases; 0 = all)

Writes
  PREFIX.req          request stream for `symdrv` (model `expr`) and `/verif/.work/bin/h_parser`
                      (blocks: `reset`, `var …` lines, `expr …` lines)
  PREFIX.cases.jsonl  one JSON object per `expr` line, in order: text, category, reference value
                      (computed on the generator's OWN tree with exact rationals and the DOCUMENTED
                      meaning of the operators: `sympler --help expressions`), operators used
  PREFIX.hist.json    histogram of operators / functions / result types / categories / reference outcomes
(default PREFIX = ./c03_<seed>).

Streams
  typed       n type-directed random trees (scalar / vector / 3x3 matrix) over ALL documented operators
              and functions up to depth <maxdepth>, rendered with the USUAL precedence (sum < product <
              power, `-` and `/` left-associative, unary minus as the sign of the first term of a sum),
              only the parentheses this convention needs plus a random subset of redundant ones.
              Operands of the tensor operators `: ° @` are parenthesised unless atomic (there is no usual
              convention); category `symprec` renders with the levels of the parser table instead
              (one level per operator, `+ - * / : ° @ ^` from loose to tight).
  illtyped    trees with one deliberate type error
  exhaustive  every tree with <= K binary operators from + - * / ^ over the scalars a b c d, with EVERY
              subset of redundant parentheses
  malformed   unbalanced brackets, empty operands, exponent notation, sign after an operator, blanks,
              names clashing with function names, repeated powers, ...
Values: small dyadic rationals, negative, zero, tiny (2^-20) and large (2^20) so that + - * are exact in
double; divisors are drawn from expressions whose value is a power of two wherever possible.
"""
import sys, json, random, itertools
from fractions import Fraction as F

# ---------------------------------------------------------------- language tables (documentation)
LIBFN = ['sqrt', 'sin', 'cos', 'tan', 'asin', 'acos', 'atan', 'hsin', 'hcos', 'htan', 'exp']
EXACTFN = ['abs', 'round', 'step', 'stpVal']          # component-wise, exact in rationals
S, V, T = 'scalar', 'vector', 'tensor'

class Node:
    __slots__ = ('k', 'op', 'ch', 'ty', 'txt')
    def __init__(self, k, op=None, ch=(), ty=S, txt=None):
        self.k, self.op, self.ch, self.ty, self.txt = k, op, list(ch), ty, txt

def leafvar(name, ty): return Node('var', ty=ty, txt=name)
def const(txt): return Node('num', ty=S, txt=txt)

# ---------------------------------------------------------------- reference semantics (documented meaning)
class RefErr(Exception):
    pass

def size(ty): return {S: 1, V: 3, T: 9}[ty]

def is_double(x):
    if x == 0: return True
    d = x.denominator
    if d & (d - 1): return False
    m = abs(x.numerator)
    while m % 2 == 0: m //= 2
    return m < 2 ** 53

class Track:
    """exactness bookkeeping of one reference evaluation: are all intermediate values doubles?"""
    def __init__(self): self.exact, self.scale = True, F(0)
    def see(self, vals):
        for x in vals:
            if x.numerator.bit_length() > 3000 or x.denominator.bit_length() > 3000: raise RefErr('huge')
            if not is_double(x): self.exact = False
            if abs(x) > self.scale: self.scale = abs(x)

def tsum(tr, terms):
    """sum of `terms` left to right; every term and every partial sum is an intermediate double of the C++"""
    acc = F(0)
    for i, x in enumerate(terms):
        if tr is not None: tr.see([x])
        acc = acc + x
        if tr is not None: tr.see([acc])
    return acc

def tmul(tr, *xs):
    acc = xs[0]
    for x in xs[1:]:
        acc = acc * x
        if tr is not None: tr.see([acc])
    return acc

def ref_eval(n, env, tr=None):
    """returns (type, [Fractions]); raises RefErr('type'|'div0'|'opaque'|'random')"""
    t, vals = ref_eval1(n, env, tr)
    if tr is not None: tr.see(vals)
    return t, vals

def ref_eval1(n, env, tr):
    k = n.k
    if k == 'var':
        return env[n.txt]
    if k == 'num':
        return (S, [parse_decimal(n.txt)])
    if k == 'pi':
        raise RefErr('opaque')
    if k == 'neg':
        t, a = ref_eval(n.ch[0], env, tr)
        return (t, [-x for x in a])
    if k == 'bin':
        ta, a = ref_eval(n.ch[0], env, tr)
        tb, b = ref_eval(n.ch[1], env, tr)
        op = n.op
        if op in '+-':
            if ta != tb: raise RefErr('type')
            return (ta, [x + y if op == '+' else x - y for x, y in zip(a, b)])
        if op == '*':
            if ta == S: return (tb, [a[0] * y for y in b])
            if tb == S: return (ta, [x * b[0] for x in a])
            if ta != tb: raise RefErr('type')
            return (ta, [x * y for x, y in zip(a, b)])
        if op == '/':
            if tb == S:
                if b[0] == 0: raise RefErr('div0')
                return (ta, [x / b[0] for x in a])
            if ta != tb: raise RefErr('type')
            if any(y == 0 for y in b): raise RefErr('div0')
            return (ta, [x / y for x, y in zip(a, b)])
        if op == ':':
            if ta == tb and ta in (V, T): return (S, [tsum(tr, [x * y for x, y in zip(a, b)])])
            if ta == tb == S: raise RefErr('scalar-contraction')   # not documented
            if ta == T and tb == V:
                return (V, [tsum(tr, [a[3 * i + j] * b[j] for j in range(3)]) for i in range(3)])
            raise RefErr('type')
        if op == '°':
            if ta == tb == T:
                return (T, [tsum(tr, [a[3 * i + k] * b[3 * k + j] for k in range(3)]) for i in range(3) for j in range(3)])
            raise RefErr('type')
        if op == '@':
            if ta == tb == V: return (T, [a[i] * b[j] for i in range(3) for j in range(3)])
            raise RefErr('type')
        if op == '^':
            if ta != S or tb != S: raise RefErr('type')
            e = b[0]
            if e.denominator != 1: raise RefErr('opaque')
            e = int(e)
            if abs(e) > 4096 or (a[0] != 0 and abs(e) * max(a[0].numerator.bit_length(), a[0].denominator.bit_length()) > 6000):
                raise RefErr('huge')
            if e >= 0: return (S, [a[0] ** e])
            if a[0] == 0: raise RefErr('div0')
            return (S, [1 / a[0] ** (-e)])
        raise AssertionError(op)
    if k == 'fn':
        t, a = ref_eval(n.ch[0], env, tr)
        f = n.op
        if f in LIBFN: raise RefErr('opaque')
        if f == 'uran': raise RefErr('random')
        if f == 'abs': return (t, [abs(x) for x in a])
        if f == 'round':
            def rnd(x):
                s = -1 if x < 0 else 1
                return F(s * ((abs(x) + F(1, 2)).__floor__()))
            return (t, [rnd(x) for x in a])
        if f == 'step': return (t, [F(1) if x > 0 else F(0) for x in a])
        if f == 'stpVal': return (t, [x if x > 0 else F(0) for x in a])
        if f == 'Q': return (S, [tsum(tr, [x * x for x in a])])
        if f == 'det':
            if t != T: raise RefErr('type')
            m = [a[0:3], a[3:6], a[6:9]]
            def minor(p, q, r, s_):
                return tsum(tr, [tmul(tr, p, q), -tmul(tr, r, s_)])
            # same association as the C++: a2*(a3*a7-a4*a6) + a1*(a5*a6-a3*a8) + a0*(a4*a8-a5*a7)
            d = tsum(tr, [tmul(tr, a[2], minor(a[3], a[7], a[4], a[6])),
                          tmul(tr, a[1], minor(a[5], a[6], a[3], a[8])),
                          tmul(tr, a[0], minor(a[4], a[8], a[5], a[7]))])
            return (S, [d])
        if f == 'trace':
            if t != T: raise RefErr('type')
            return (S, [tsum(tr, [a[0], a[4], a[8]])])
        if f == 'T':
            if t != T: raise RefErr('type')
            return (T, [a[3 * j + i] for i in range(3) for j in range(3)])
        if f == 'xyMat':
            if t != T: raise RefErr('type')
            return (T, [a[3 * i + j] if i < 2 and j < 2 else F(0) for i in range(3) for j in range(3)])
        if f == 'diagMat':
            if t != V: raise RefErr('type')
            return (T, [a[i] if i == j else F(0) for i in range(3) for j in range(3)])
        if f in ('xCoord', 'yCoord', 'zCoord'):
            if t != V: raise RefErr('type')
            return (S, [a['xyz'.index(f[0])]])
        if f == 'idVec':
            if t != S: raise RefErr('type')
            return (V, [a[0]] * 3)
        if f == 'idMat':
            if t != S: raise RefErr('type')
            return (T, [a[0] if i == j else F(0) for i in range(3) for j in range(3)])
        if f == 'unitMat':
            if t != S: raise RefErr('type')
            return (T, [a[0]] * 9)
        if f in ('uVecX', 'uVecY', 'uVecZ'):
            if t != S: raise RefErr('type')
            i = 'XYZ'.index(f[-1])
            return (V, [a[0] if j == i else F(0) for j in range(3)])
        raise AssertionError(f)
    raise AssertionError(k)

def parse_decimal(txt):
    t = txt.strip().lower()
    if 'e' in t:
        m, e = t.split('e')
        return parse_decimal(m) * F(10) ** int(e)
    if '.' in t:
        i, f = t.split('.')
        return F(int(i or '0')) + (F(int(f), 10 ** len(f)) if f else 0)
    return F(int(t))

# ---------------------------------------------------------------- rendering with the usual precedence
LEVEL = {'+': 1, '-': 1, '*': 2, '/': 2, ':': 3, '°': 3, '@': 3, '^': 4}
SYMLEVEL = {'+': 1, '-': 2, '*': 3, '/': 4, ':': 5, '°': 6, '@': 7, '^': 8}   # table order, one level each
ATOM = 9

def render(n, rng, pextra, symprec=False, marks=None):
    """Text of the tree `n`.
    usual mode  : levels sum(1) < product(2) < tensor operator(3) < power(4) < atom(9); binary operators are
                  left-associative: the left operand may have the same level, the right one must be tighter;
                  operands of `: ° @` and of `^` must be atoms (bracketed otherwise); a unary minus is the
                  sign of a sum: it is written without brackets only as the very first term of a sum.
    symprec mode: the levels of the parser table, one level per operator `+ - * / : ° @ ^`.
    `pextra` = probability of (repeated) redundant brackets at every node; `marks` (exhaustive mode) maps
    id(node) -> bool: put exactly one redundant pair of brackets around this node."""
    def raw(n):
        """(text, level, starts with a sign)"""
        if n.k == 'var' or n.k == 'num': return (n.txt, ATOM, False)
        if n.k == 'pi': return ('pi', ATOM, False)
        if n.k == 'fn': return (n.op + '(' + go(n.ch[0], 0, True) + ')', ATOM, False)
        if n.k == 'neg':
            need = 3 if symprec else 2
            return ('-' + go(n.ch[0], need, False), 1, True)
        op = n.op
        if symprec:
            L = SYMLEVEL[op]
            a = go(n.ch[0], L, L <= 2)
            b = go(n.ch[1], L + 1, False)
            return (a + op + b, L, a.startswith('-'))
        L = LEVEL[op]
        if L >= 3:
            a = go(n.ch[0], ATOM, False)
            b = go(n.ch[1], ATOM, False)
            return (a + op + b, L, False)
        a = go(n.ch[0], L, L == 1)
        b = go(n.ch[1], L + 1, False)
        return (a + op + b, L, a.startswith('-'))
    def go(n, need, sign_ok):
        s, lvl, lead = raw(n)
        if marks is not None:
            if marks.get(id(n), False): s, lvl, lead = '(' + s + ')', ATOM, False
        else:
            while rng.random() < pextra: s, lvl, lead = '(' + s + ')', ATOM, False
        if lvl < need or (lead and not sign_ok): s = '(' + s + ')'
        return s
    return go(n, 0, True)

# ---------------------------------------------------------------- variables and values
SCAL = ['a', 'b', 'c', 'd', 'p2', 'q2', 'z0', 'big', 'tiny']
VECS = ['u', 'w', 'n3']
TENS = ['A', 'B', 'M']
SMALL = [F(1), F(2), F(3), F(-1), F(-2), F(1, 2), F(-1, 2), F(3, 2), F(-3, 4), F(5), F(1, 4), F(0), F(-3)]

def draw_value(rng, regime):
    r = rng.random()
    if r < 0.12: return F(0)
    if regime == 'mixed':
        if r < 0.22: return F(rng.choice([1, -1, 3, -3]), 2 ** 20)
        if r < 0.32: return F(rng.choice([1, -1, 3, -3]) * 2 ** 20)
    elif regime == 'tiny':
        if r < 0.6: return F(rng.choice([1, -1, 3, -3, 5]), 2 ** rng.choice([18, 20, 21]))
    elif regime == 'large':
        if r < 0.6: return F(rng.choice([1, -1, 3, -3, 5]) * 2 ** rng.choice([18, 20, 21]))
    return rng.choice(SMALL)

def draw_env(rng):
    """one block of variable values; regimes: small dyadics only (exact arithmetic), all tiny, all large,
    or tiny and large mixed (sums round)"""
    regime = rng.choice(['small', 'small', 'small', 'tiny', 'large', 'mixed'])
    _dv = draw_value
    def draw_value_(rng_): return _dv(rng_, regime)
    vals = {}
    for s in SCAL:
        vals[s] = [draw_value_(rng)]
    vals['p2'] = [F(rng.choice([1, -1])) * F(2) ** rng.choice([-3, -1, 0, 1, 2, 4])]
    vals['q2'] = [F(rng.choice([1, -1])) * F(2) ** rng.choice([-2, -1, 1, 3])]
    vals['z0'] = [F(0)]
    vals['big'] = [F(rng.choice([1, -1, 3]) * 2 ** 20)]
    vals['tiny'] = [F(rng.choice([1, -1, 3]), 2 ** 20)]
    for v in VECS: vals[v] = [draw_value_(rng) for _ in range(3)]
    for t in TENS: vals[t] = [draw_value_(rng) for _ in range(9)]
    return vals

def fr(x):
    return str(x.numerator) if x.denominator == 1 else '%d/%d' % (x.numerator, x.denominator)

def env_lines(vals):
    out = ['reset']
    for s in SCAL: out.append('var s %s %s' % (s, fr(vals[s][0])))
    for v in VECS: out.append('var v %s %s' % (v, ' '.join(fr(x) for x in vals[v])))
    for t in TENS: out.append('var t %s %s' % (t, ' '.join(fr(x) for x in vals[t])))
    return out

def ref_env(vals):
    env = {}
    for s in SCAL: env[s] = (S, vals[s])
    for v in VECS: env['[' + v + ']'] = (V, vals[v])
    for t in TENS: env['{' + t + '}'] = (T, vals[t])
    return env

# ---------------------------------------------------------------- type-directed random trees
CONSTS = ['2', '3', '0.5', '0.25', '1.5', '4', '1', '0', '10', '0.125', '2.50', '.5', '5.', '1e3', '8']
POW2CONST = ['2', '4', '0.5', '0.25', '8', '0.125', '1']

class Gen:
    def __init__(self, rng, maxdepth, hist):
        self.rng, self.maxdepth, self.hist = rng, maxdepth, hist
    def count(self, key, name):
        self.hist.setdefault(key, {})
        self.hist[key][name] = self.hist[key].get(name, 0) + 1
    def leaf(self, ty):
        r = self.rng
        if ty == S:
            if r.random() < 0.35:
                c = r.choice(CONSTS)
                if r.random() < 0.04:
                    self.count('leaf', 'pi'); return Node('pi', ty=S)
                self.count('leaf', 'const'); return const(c)
            self.count('leaf', 'scalar-var'); return leafvar(r.choice(SCAL), S)
        if ty == V:
            self.count('leaf', 'vector-var'); return leafvar('[' + r.choice(VECS) + ']', V)
        self.count('leaf', 'tensor-var'); return leafvar('{' + r.choice(TENS) + '}', T)
    def pow2(self, depth):
        """a scalar expression whose value is +-2^k"""
        r = self.rng
        x = r.random()
        if depth <= 0 or x < 0.5:
            if r.random() < 0.5: return const(r.choice(POW2CONST))
            return leafvar(r.choice(['p2', 'q2']), S)
        if x < 0.8:
            self.count('op', '*')
            return Node('bin', '*', [self.pow2(depth - 1), self.pow2(depth - 1)], S)
        self.count('op', 'neg')
        return Node('neg', None, [self.pow2(depth - 1)], S)
    def bin(self, op, a, b, ty):
        self.count('op', op); return Node('bin', op, [a, b], ty)
    def fn(self, f, a, ty):
        self.count('fn', f); return Node('fn', f, [a], ty)
    def gen(self, ty, depth):
        r = self.rng
        if depth <= 0 or r.random() < 0.12:
            return self.leaf(ty)
        d = depth - 1
        g = self.gen
        anyty = lambda: r.choice([S, V, T])
        if ty == S:
            c = r.choice(['+', '-', '*', '/', '^', 'neg', 'vv', 'tt', 'det', 'trace', 'Q', 'coord',
                          'lib', 'exact', 'uran', '+', '-', '*', '/', '^'])
            if c in '+-*': return self.bin(c, g(S, d), g(S, d), S)
            if c == '/':
                den = self.pow2(d) if r.random() < 0.8 else g(S, d)
                return self.bin('/', g(S, d), den, S)
            if c == '^':
                x = r.random()
                if x < 0.75:
                    e = r.choice(['2', '3', '0', '1', '(-1)', '(-2)', '4'])
                    if e.startswith('('):
                        self.count('op', 'neg')
                        en = Node('neg', None, [const(e[2:-1])], S)
                    else:
                        en = const(e)
                elif x < 0.9:
                    en = self.bin('+', const('1'), const(r.choice(['1', '2'])), S)
                else:
                    en = g(S, min(d, 1))
                return self.bin('^', g(S, d), en, S)
            if c == 'neg': self.count('op', 'neg'); return Node('neg', None, [g(S, d)], S)
            if c == 'vv': return self.bin(':', g(V, d), g(V, d), S)
            if c == 'tt': return self.bin(':', g(T, d), g(T, d), S)
            if c == 'det': return self.fn('det', g(T, d), S)
            if c == 'trace': return self.fn('trace', g(T, d), S)
            if c == 'Q': return self.fn('Q', g(anyty(), d), S)
            if c == 'coord': return self.fn(r.choice(['xCoord', 'yCoord', 'zCoord']), g(V, d), S)
            if c == 'lib': return self.fn(r.choice(LIBFN), g(S, d), S)
            if c == 'exact': return self.fn(r.choice(EXACTFN), g(S, d), S)
            if c == 'uran': return self.fn('uran', g(S, d), S) if r.random() < 0.3 else self.fn('step', g(S, d), S)
        if ty == V:
            c = r.choice(['+', '-', 's*v', 'v*s', 'v*v', 'v/s', 'v/v', 'tv', 'neg', 'idVec', 'uVec', 'lib', 'exact'])
            if c in '+-': return self.bin(c, g(V, d), g(V, d), V)
            if c == 's*v': return self.bin('*', g(S, d), g(V, d), V)
            if c == 'v*s': return self.bin('*', g(V, d), g(S, d), V)
            if c == 'v*v': return self.bin('*', g(V, d), g(V, d), V)
            if c == 'v/s': return self.bin('/', g(V, d), self.pow2(d) if r.random() < 0.8 else g(S, d), V)
            if c == 'v/v': return self.bin('/', g(V, d), self.fn('idVec', self.pow2(d), V) if r.random() < 0.7 else g(V, d), V)
            if c == 'tv': return self.bin(':', g(T, d), g(V, d), V)
            if c == 'neg': self.count('op', 'neg'); return Node('neg', None, [g(V, d)], V)
            if c == 'idVec': return self.fn('idVec', g(S, d), V)
            if c == 'uVec': return self.fn(r.choice(['uVecX', 'uVecY', 'uVecZ']), g(S, d), V)
            if c == 'lib': return self.fn(r.choice(LIBFN), g(V, d), V)
            if c == 'exact': return self.fn(r.choice(EXACTFN), g(V, d), V)
        if ty == T:
            c = r.choice(['+', '-', 's*t', 't*s', 't*t', 't/s', 't/t', 'dot', 'outer', 'neg', 'T', 'diagMat',
                          'idMat', 'unitMat', 'xyMat', 'lib', 'exact', 'dot', 'outer'])
            if c in '+-': return self.bin(c, g(T, d), g(T, d), T)
            if c == 's*t': return self.bin('*', g(S, d), g(T, d), T)
            if c == 't*s': return self.bin('*', g(T, d), g(S, d), T)
            if c == 't*t': return self.bin('*', g(T, d), g(T, d), T)
            if c == 't/s': return self.bin('/', g(T, d), self.pow2(d) if r.random() < 0.8 else g(S, d), T)
            if c == 't/t': return self.bin('/', g(T, d), self.fn('unitMat', self.pow2(d), T) if r.random() < 0.7 else g(T, d), T)
            if c == 'dot': return self.bin('°', g(T, d), g(T, d), T)
            if c == 'outer': return self.bin('@', g(V, d), g(V, d), T)
            if c == 'neg': self.count('op', 'neg'); return Node('neg', None, [g(T, d)], T)
            if c == 'T': return self.fn('T', g(T, d), T)
            if c == 'diagMat': return self.fn('diagMat', g(V, d), T)
            if c == 'idMat': return self.fn('idMat', g(S, d), T)
            if c == 'unitMat': return self.fn('unitMat', g(S, d), T)
            if c == 'xyMat': return self.fn('xyMat', g(T, d), T)
            if c == 'lib': return self.fn(r.choice(LIBFN), g(T, d), T)
            if c == 'exact': return self.fn(r.choice(EXACTFN), g(T, d), T)
        raise AssertionError((ty, c))
    def illtyped(self, depth):
        """a tree with one deliberate type error near the root"""
        r = self.rng
        g = self.gen
        d = max(depth - 1, 0)
        c = r.choice(['s+v', 'v-t', 'v*t', 's/v', 'v:t', 's:v', 's:s', 't°v', 's@v', 'v^s', 'det(v)', 'T(v)',
                      'diagMat(t)', 'idVec(v)', 'xCoord(t)', 'trace(s)', 'uVecX(v)', 'xyMat(v)', 'unitMat(t)'])
        self.count('illtyped', c)
        def b(op, ta, tb): return Node('bin', op, [g(ta, d), g(tb, d)], S)
        def f(fn, ta): return Node('fn', fn, [g(ta, d)], S)
        return {'s+v': lambda: b('+', S, V), 'v-t': lambda: b('-', V, T), 'v*t': lambda: b('*', V, T),
                's/v': lambda: b('/', S, V), 'v:t': lambda: b(':', V, T), 's:v': lambda: b(':', S, V),
                's:s': lambda: b(':', S, S), 't°v': lambda: b('°', T, V), 's@v': lambda: b('@', S, V),
                'v^s': lambda: b('^', V, S), 'det(v)': lambda: f('det', V), 'T(v)': lambda: f('T', V),
                'diagMat(t)': lambda: f('diagMat', T), 'idVec(v)': lambda: f('idVec', V),
                'xCoord(t)': lambda: f('xCoord', T), 'trace(s)': lambda: f('trace', S),
                'uVecX(v)': lambda: f('uVecX', V), 'xyMat(v)': lambda: f('xyMat', V),
                'unitMat(t)': lambda: f('unitMat', T)}[c]()

def ops_of(n, acc=None):
    acc = acc if acc is not None else []
    if n.k == 'bin': acc.append(n.op)
    elif n.k == 'neg': acc.append('neg')
    elif n.k == 'fn': acc.append(n.op)
    for c in n.ch: ops_of(c, acc)
    return acc

def ref_of(n, env):
    tr = Track()
    try:
        t, vals = ref_eval(n, env, tr)
        # `exact`: every intermediate value of the reference evaluation is a double, hence (up to the
        # products inside contractions / determinants) the double computation does not round
        return {'type': t, 'values': [fr(x) for x in vals], 'exact': tr.exact, 'scale': fr(tr.scale)}
    except RefErr as e:
        return {'err': str(e)}

# ---------------------------------------------------------------- exhaustive small trees
def small_trees(k, names):
    """all binary trees with exactly k operators from + - * / ^ over scalar leaves (names taken in order, cyclically);
    the exponent of `^` is the constant 2 and its base is not a power (`a^b^c` has no usual reading)"""
    def build(k):
        if k == 0:
            yield ('leaf',)
            return
        for op in '+-*/':
            for l in range(k):
                for a in build(l):
                    for b in build(k - 1 - l):
                        yield (op, a, b)
        for a in build(k - 1):
            if a[0] != '^':
                yield ('^', a, ('two',))
    for sh in build(k):
        cnt = [0]
        def mk(s):
            if s[0] == 'leaf':
                v = leafvar(names[cnt[0] % len(names)], S); cnt[0] += 1
                return v
            if s[0] == 'two': return const('2')
            return Node('bin', s[0], [mk(s[1]), mk(s[2])], S)
        yield mk(sh)

def internal_nodes(n, acc=None):
    acc = acc if acc is not None else []
    acc.append(n)
    for c in n.ch: internal_nodes(c, acc)
    return acc

# ---------------------------------------------------------------- malformed stream
MALFORMED = [
    '((a', '(a', 'a)', '(a))', '((a)', ')(', '()', '(())', '(()', 'a+()', '()+a', '(a)+(b', 'a+(b))',
    'a+', '+a', 'a++b', 'a--b', 'a+-b', 'a-+b', 'a*-b', 'a/-b', 'a^-2', 'a**b', 'a*/b', '*a', 'a*', '-', '--a', '-(-a)',
    '1e-5', '1e+5', '2e+06', '1E-3', '1e5', '1e', '1.5e2', '1.2.3', '.5', '5.', '.', '0x10', '0x1p3', 'inf', 'nan', 'infinity',
    '1 + 2', ' 2', '2 ', 'a + b', 'a +b', ' a',
    'Temp', 'T', 'Ta', 'TT', 'aT', 'det', 'deta', 'expo', 'exp', 'sinus', 'sina', 'asina', 'abs', 'absa', 'Q', 'Qa', 'aQ',
    'step', 'stepa', 'round', 'rounda', 'sqrt', 'sqrta', 'uran', 'pi', 'pia', 'api', 'trace', 'xCoord',
    'sin', 'sin()', 'sin(', 'sin)', 'sin a', 'sin(a)cos(a)', 'sin(a)(b)', '(a)(b)', 'a(b)', '2a', 'a2', '2(a)',
    'sin2', 'sin-1', 'T{A}', 'det{A}', 'Q[u]', 'sina+b', 'cosa*b',
    '2^3^2', 'a^b^c', '2^(3^2)', '(2^3)^2', '-2^2', '(-2)^2', '-a^2', 'a^2^0.5',
    'a-b-c', 'a/b/c', 'a-b+c', 'a+b-c', 'a/b*c', 'a*b/c', 'a-b-c-d', 'a/b/c/d', 'a/b*c/d', 'a-(b-c)', 'a/(b/c)',
    '[u]:[w]:[n3]', '[u]@[w]:[n3]', '[u]:[w]@[n3]', '{A}°{B}:{M}', '{A}:{B}°{M}', '[u]*[w]:[n3]', '[u]:[w]*[n3]',
    'a/{A}:{B}', '{A}:{B}/a', '{A}°{B}°{M}', '{A}:[u]:[w]', '[u]@[w]°{A}', '{A}°[u]@[w]',
    '[u', 'u]', '[u]]', '{A', '[x]', '{X}', '[a]', '{a}', 'u', 'A',
    'a:b', 'a:2', '2:3', 'Q(a)', 'a@b', 'a°b',
    'step(a)/step(b)', 'step(a)/(step(b)+step(c))', 'step(c)/(step(a)+step(b))', 'step(1)/(step(1)+step(1))',
    '(step(1)+step(1)+step(1))/(step(1)+step(1))', 'a^0/(step(1)+step(1))', 'idMat(1)/idMat(2)', 'step([u])/(step([w])+step([n3]))',
    'a^([u]:[w])', 'a^xCoord([u])', 'a^trace({A})', 'a^(b+[u]:[w])', 'a^([u]:[w]+b)', 'a^b', 'a^(b)', 'a^(1+1)', 'a^(2*1.5)',
    'a^sqrt(4)', 'a^0.5', 'a^(1/2)', 'a^(4/2)', 'a^2147483648', 'a^1e10', 'a^5000', 'a^100', '1e400', '1e4000', 'a^(0-0)',
    '4000000000/3000000000', '2147483647+1', '2147483646/2', '2147483648/2', '1e10/4', '0.1+0.2', '1/3', '1/8', '3/2',
    '((((a))))', '((a)+(b))', '(a)+(b)', '((a)+b)', '(a+(b))', '-(a)', '(-a)', '-(-(a))', '(((a)))*((b))',
    '', ' ', '()', '( )', '(a', 'a,b', 'a;b', 'a=b', 'a<b', 'a>b', 'a?b', 'a%b', 'a&b', 'a|b', 'a!', 'a\\b', '"a"', 'a#',
    'a°b', '{A}°{B}', 'T({A})°{B}', 'det(T({A})°{B})',
    'uran(1)', 'uran([u])', 'uran({A})', 'a^uran(1)',
]

# ---------------------------------------------------------------- main
def main():
    args = sys.argv[1:]
    if len(args) < 3:
        print(__doc__); sys.exit(2)
    seed, n, maxdepth = int(args[0]), int(args[1]), int(args[2])
    opt = {'--out': './c03_%d' % seed, '--exhaustive': '0', '--malformed': '1', '--block': '25', '--illtyped': '0.06',
           '--symprec': '0.08', '--exsample': '0'}
    i = 3
    while i < len(args):
        opt[args[i]] = args[i + 1]; i += 2
    rng = random.Random(seed)
    hist = {}
    G = Gen(rng, maxdepth, hist)
    block = int(opt['--block'])
    req, cases = [], []
    state = {'vals': None, 'inblock': block}
    def new_block():
        state['vals'] = draw_env(rng)
        req.extend(env_lines(state['vals']))
        state['inblock'] = 0
    def emit(text, cat, tree=None, extra=None):
        if state['inblock'] >= block: new_block()
        state['inblock'] += 1
        req.append('expr ' + text)
        c = {'id': len(cases), 'text': text, 'cat': cat}
        if tree is not None:
            c['ref'] = ref_of(tree, ref_env(state['vals']))
            c['ops'] = ops_of(tree)
            c['rtype'] = tree.ty
        if extra: c.update(extra)
        cases.append(c)
        hist.setdefault('category', {}); hist['category'][cat] = hist['category'].get(cat, 0) + 1
        if tree is not None:
            key = c['ref'].get('err', 'value')
            hist.setdefault('reference', {}); hist['reference'][key] = hist['reference'].get(key, 0) + 1
            hist.setdefault('result-type', {}); hist['result-type'][tree.ty] = hist['result-type'].get(tree.ty, 0) + 1
            dk = 'depth'
    # typed / illtyped / tensorprec streams
    p_ill = float(opt['--illtyped']); p_tp = float(opt['--symprec'])
    for _ in range(n):
        x = rng.random()
        depth = rng.randint(1, maxdepth)
        if x < p_ill:
            t = G.illtyped(depth); cat = 'illtyped'; tp = False
        else:
            ty = rng.choice([S, S, S, V, T])
            t = G.gen(ty, depth); cat = 'typed'; tp = False
            if rng.random() < p_tp:
                cat = 'symprec'; tp = True
        pextra = rng.choice([0.0, 0.0, 0.1, 0.3])
        text = render(t, rng, pextra, symprec=tp)
        emit(text, cat, t)
    # exhaustive small trees
    K = int(opt['--exhaustive'])
    if K > 0:
        leaves = ['a', 'b', 'c', 'd', 'p2']
        seen = set()
        cap = int(opt['--exsample'])
        pool = []
        for k in range(1, K + 1):
            for t in small_trees(k, leaves):
                nodes = [x for x in internal_nodes(t)]
                for bits in itertools.product([False, True], repeat=len(nodes)):
                    marks = {id(nd): b for nd, b in zip(nodes, bits)}
                    text = render(t, rng, 0.0, marks=marks)
                    if text in seen: continue
                    seen.add(text)
                    pool.append((text, t))
        if cap and len(pool) > cap:
            pool = [pool[i] for i in sorted(rng.sample(range(len(pool)), cap))]
        for text, t in pool:
            emit(text, 'exhaustive', t)
    # malformed stream
    for _ in range(int(opt['--malformed'])):
        for m in MALFORMED:
            emit(m, 'malformed')
    out = opt['--out']
    open(out + '.req', 'w').write('\n'.join(req) + '\n')
    with open(out + '.cases.jsonl', 'w') as f:
        for c in cases: f.write(json.dumps(c, ensure_ascii=False) + '\n')
    hist['total'] = len(cases)
    json.dump(hist, open(out + '.hist.json', 'w'), indent=1, sort_keys=True, ensure_ascii=False)
    print(json.dumps({'cases': len(cases), 'out': out, 'category': hist.get('category')}))

if __name__ == '__main__':
    main()
