#!/usr/bin/env python3
"""Differential check of the Lean model (symdrv, model `dataformat`) against the real classes
(h_dataformat) on one case stream.

usage: diff_dataformat.py <cases.txt> --symdrv PATH --harness PATH [--noguard] [--noalign]
                          [--json OUT] [--show N]

Both outputs are split at their `case <id>` lines and compared line by line after reducing every
rational `p/q` to lowest terms.  With --noguard the harness executes operations the model calls
undefined: a model line `ub:<kind>` must then be followed by `crash` (or `survived`, which is
reported per kind) in the harness output.  Exit status 0 iff there is no disagreement.
"""
import argparse
import json
import re
import subprocess
import sys
from collections import Counter
from fractions import Fraction

RAT = re.compile(r"-?\d+/\d+")


def norm(line):
    def f(m):
        p, q = m.group(0).split("/")
        if int(q) == 0:
            return m.group(0)
        fr = Fraction(int(p), int(q))
        return str(fr.numerator) if fr.denominator == 1 else "%d/%d" % (fr.numerator, fr.denominator)
    return RAT.sub(f, line)


def split_cases(lines):
    cases, cur = [], None
    for l in lines:
        if l.startswith("case "):
            cur = [l]
            cases.append(cur)
        elif cur is not None:
            cur.append(l)
        else:
            cases.append([l])
    return cases


def kind_of(line):
    if line.startswith("err:") or line.startswith("ub:"):
        return line
    return line.split(" ", 1)[0]


def main():
    ap = argparse.ArgumentParser()
    ap.add_argument("cases")
    ap.add_argument("--symdrv", required=True)
    ap.add_argument("--harness", required=True)
    ap.add_argument("--noguard", action="store_true")
    ap.add_argument("--noalign", action="store_true")
    ap.add_argument("--json")
    ap.add_argument("--show", type=int, default=5)
    a = ap.parse_args()

    data = open(a.cases, "rb").read()
    m = subprocess.run([a.symdrv], input=b"model dataformat\n" + data, stdout=subprocess.PIPE, check=True)
    hargs = [a.harness] + (["--noguard"] if a.noguard else []) + (["--noalign"] if a.noalign else [])
    h = subprocess.run(hargs, input=data, stdout=subprocess.PIPE, stderr=subprocess.DEVNULL, check=True)
    mc = split_cases(m.stdout.decode("utf-8", "replace").split("\n")[:-1])
    hc = split_cases(h.stdout.decode("utf-8", "replace").split("\n")[:-1])

    outcomes = Counter()
    ub_exec = Counter()
    bad = []
    nlines = 0
    if len(mc) != len(hc):
        bad.append(("(stream)", "number of cases differs: model %d harness %d" % (len(mc), len(hc)), ""))
    for cm, ch in zip(mc, hc):
        cid = cm[0]
        for l in cm[1:]:
            outcomes[kind_of(l)] += 1
        nlines += len(cm)
        if a.noguard and cm and cm[-1].startswith("ub:"):
            # harness: same lines, then `crash` or `survived`
            tail = ch[len(cm):]
            ub_exec[cm[-1] + " -> " + (tail[0] if tail else "nothing")] += 1
            ch = ch[:len(cm)]
            if not tail or tail[0] not in ("crash", "survived"):
                bad.append((cid, "after " + cm[-1] + " the harness printed " + repr(tail), ""))
                continue
        nm, nh = [norm(x) for x in cm], [norm(x) for x in ch]
        # a harness built without AddressSanitizer cannot answer `leakcheck`
        for k in range(min(len(nm), len(nh))):
            if nh[k] == "lsan unavailable" and nm[k].startswith("lsan "):
                nh[k] = nm[k]
                outcomes["(lsan not compared)"] += 1
            # LeakSanitizer is conservative: a leaked block that a stale stack slot or register still points to counts as reachable.
            # "harness saw no leak" therefore does not contradict "model predicts a leak" (counted); a leak SEEN by the harness and not
            # predicted by the model stays a disagreement
            elif nm[k] == "lsan leaks=1" and nh[k] == "lsan leaks=0":
                nh[k] = nm[k]
                outcomes["(leak predicted, not observed by LeakSanitizer)"] += 1
        if nm != nh:
            k = 0
            while k < min(len(nm), len(nh)) and nm[k] == nh[k]:
                k += 1
            bad.append((cid, "line %d: model   %r" % (k, nm[k] if k < len(nm) else None),
                        "         harness %r" % (nh[k] if k < len(nh) else None)))
    rep = {"cases": len(mc), "lines_compared": nlines, "disagreements": len(bad),
           "model_outcomes": dict(sorted(outcomes.items())),
           "mode": "noguard" if a.noguard else "guard"}
    if a.noguard:
        rep["ub_executed"] = dict(sorted(ub_exec.items()))
    print(json.dumps(rep, indent=1))
    for cid, x, y in bad[:a.show]:
        print("DISAGREE", cid)
        print("  " + x)
        if y:
            print("  " + y)
    if a.json:
        json.dump(rep, open(a.json, "w"), indent=1)
    sys.exit(1 if bad else 0)


if __name__ == "__main__":
    main()
