#!/usr/bin/env python3
"""Correspondence check + violation search for the shared `Dyn` model (properties C04, C05, C07, C10).

usage: corr_dyn.py <seed> <ncases> [--keep DIR] [--sympler BIN] [--verbose]
       (symdrv path from env SYMDRV, default /verif/lean/.lake/build/bin/symdrv)

For every generated scenario (see `gen_scenario`) the REAL hooked binary is run (VerifObserver dump after
the initial force computation = step -1 and after every time step) and the Lean model `Sympler.Dyn`
(`model dyn` of symdrv) is run on the same scenario.  Compared per step, EXACTLY (rationals):
force index, and for every particle r, v, force[0], force[1], every tag attribute (value, persistence flag).
Besides, independent oracles are evaluated on the DUMP alone (violation search):
  momentum    fully periodic, all particles free, only reciprocal pair forces: sum m v is the same after every step
  frozen      every frozen particle is bit-identical to step -1 (r, v, forces, every tag value), count constant
  pairsum     every pair-summed symbol of every free particle = brute-force re-summation (minimum image,
              the module's own cutoff, CURRENT positions, partner free or frozen)
  constforce  species driven only by constant one-particle forces follow r0 + n dt v0 + (n dt)^2/2m F (mod box)
              and integrated scalars/vectors driven only by constant forces follow s0 + n dt R
  lambda      (metamorphic) same scenario with another lambda gives identical r, v after every step
              when no expression reads a velocity
  reverse     (metamorphic) position-only pair forces, fully periodic, lambda=1/2: run N steps, flip velocities,
              run N steps: initial positions (mod box) and negated initial velocities are recovered
Exact-arithmetic regime: all inputs are small dyadic rationals, expressions are polynomials; a step is compared
only as long as the model's numbers (exact) fit into doubles with room for the intermediate products
(`exact_horizon`); later steps are compared approximately (rel 1e-9) and never counted as disagreement.
Prints a JSON summary; exit status 1 on any disagreement / oracle violation.
"""
import sys, os, json, random, subprocess, shutil
from fractions import Fraction as F
sys.path.insert(0, os.path.dirname(os.path.abspath(__file__)))
import symlib

SYMPLER = '/verif/.work/build-hooks/sympler'
SYMDRV = os.environ.get('SYMDRV', '/verif/lean/.lake/build/bin/symdrv')

# ------------------------------------------------------------------ expressions
# AST: ('num', F) ('vec', (F,F,F)) ('rij',) ('pos', w) ('vel', w) ('tag', w, name, ty)
#      ('add', a, b) ('sub', a, b) ('neg', a) ('mul', a, b) ('smul', a, b) ('dot', a, b) ('comp', k, a)
# w in 'i', 'j'; ty in 'S', 'V'

def ety(e):
    k = e[0]
    if k == 'num': return 'S'
    if k in ('vec', 'rij', 'pos', 'vel'): return 'V'
    if k == 'tag': return e[3]
    if k in ('add', 'sub', 'mul'): return ety(e[1])
    if k == 'neg': return ety(e[1])
    if k == 'smul': return 'V'
    if k in ('dot', 'comp'): return 'S'
    raise ValueError(e)

def numtxt(q):
    q = F(q)
    return symlib.dec(q) if q >= 0 else '(0-%s)' % symlib.dec(-q)

def render(e, pair):
    """sympler syntax; pair context or particle context"""
    k = e[0]
    if k == 'num': return numtxt(e[1])
    if k == 'vec': return '(uVecX(%s)+uVecY(%s)+uVecZ(%s))' % tuple(numtxt(c) for c in e[1])
    if k == 'rij': return '[rij]'
    if k == 'pos': return '[r%s]' % (e[1] if pair else '')
    if k == 'vel': return '[v%s]' % (e[1] if pair else '')
    if k == 'tag':
        n = e[2] + (e[1] if pair else '')
        return n if e[3] == 'S' else '[%s]' % n
    if k == 'add': return '(%s+%s)' % (render(e[1], pair), render(e[2], pair))
    if k == 'sub': return '(%s-%s)' % (render(e[1], pair), render(e[2], pair))
    if k == 'neg':
        return '(0-%s)' % render(e[1], pair) if ety(e[1]) == 'S' else '((0-1)*%s)' % render(e[1], pair)
    if k in ('mul', 'smul'): return '(%s*%s)' % (render(e[1], pair), render(e[2], pair))
    if k == 'dot': return '(%s:%s)' % (render(e[1], pair), render(e[2], pair))
    if k == 'comp': return '%sCoord(%s)' % ('xyz'[e[1]], render(e[2], pair))
    raise ValueError(e)

def prefix(e):
    k = e[0]
    if k == 'num': return ['num', symlib.rat(e[1])]
    if k == 'vec': return ['vec'] + [symlib.rat(c) for c in e[1]]
    if k == 'rij': return ['rij']
    if k == 'pos': return ['r' + e[1]]
    if k == 'vel': return ['v' + e[1]]
    if k == 'tag': return ['t' + e[1], e[2]]
    if k in ('add', 'sub', 'mul', 'smul', 'dot'): return [k] + prefix(e[1]) + prefix(e[2])
    if k == 'neg': return ['neg'] + prefix(e[1])
    if k == 'comp': return ['comp', str(e[1])] + prefix(e[2])
    raise ValueError(e)

def degree(e, symdeg):
    """polynomial degree in the state variables (symbols count with the degree of their definition)"""
    k = e[0]
    if k in ('num', 'vec'): return 0
    if k in ('rij', 'pos', 'vel'): return 1
    if k == 'tag': return symdeg.get(e[2], 1)
    if k in ('add', 'sub'): return max(degree(e[1], symdeg), degree(e[2], symdeg))
    if k in ('neg',): return degree(e[1], symdeg)
    if k == 'comp': return degree(e[2], symdeg)
    return degree(e[1], symdeg) + degree(e[2], symdeg)

def uses_vel(e):
    return e[0] == 'vel' or any(uses_vel(x) for x in e[1:] if isinstance(x, tuple) and x and isinstance(x[0], str) and x[0] in
                                ('num', 'vec', 'rij', 'pos', 'vel', 'tag', 'add', 'sub', 'neg', 'mul', 'smul', 'dot', 'comp'))

def reads(e):
    if e[0] == 'tag': return {e[2]}
    s = set()
    for x in e[1:]:
        if isinstance(x, tuple) and x and isinstance(x[0], str) and x[0] in ('tag', 'add', 'sub', 'neg', 'mul', 'smul', 'dot', 'comp'):
            s |= reads(x)
    return s

# python evaluation (for the ORACLES only; the comparison uses the Lean model)
def vadd(a, b): return tuple(x + y for x, y in zip(a, b))
def vsub(a, b): return tuple(x - y for x, y in zip(a, b))
def vscale(c, a): return tuple(c * x for x in a)

def evalx(e, env):
    k = e[0]
    if k == 'num': return e[1]
    if k == 'vec': return tuple(e[1])
    if k == 'rij': return env['rij']
    if k == 'pos': return env['r' + e[1]]
    if k == 'vel': return env['v' + e[1]]
    if k == 'tag': return env['t' + e[1]][e[2]]
    a = evalx(e[1], env) if k != 'comp' else None
    if k == 'neg': return -a if ety(e[1]) == 'S' else vscale(-1, a)
    if k == 'comp': return evalx(e[2], env)[e[1]]
    b = evalx(e[2], env)
    if k == 'add': return a + b if ety(e) == 'S' else vadd(a, b)
    if k == 'sub': return a - b if ety(e) == 'S' else vsub(a, b)
    if k == 'mul': return a * b if ety(e) == 'S' else tuple(x * y for x, y in zip(a, b))
    if k == 'smul': return vscale(a, b)
    if k == 'dot': return sum(x * y for x, y in zip(a, b))
    raise ValueError(e)

# ------------------------------------------------------------------ scenario description (generator level)
# gs = dict(box, periodic, dt, steps, species: [names in colour order], integrators: [...], modules: [...], particles: [...])
# integrator: ('vv', species, lambda, mass) | ('euler', species, name, ty)
# module:  ('pforce', sp1, sp2, dof, cutoff, sym, expr, fi, fj)      sp1/sp2 as written in the input (may be swapped)
#          ('partforce', sp, dof, expr)
#          ('cache', sp, name, ty, expr)
#          ('psum', sp1, sp2, name, ty, cutoff, sym, expr, fi, fj)
# dof: 'vel' or name of an euler quantity.  Pair expressions are ALWAYS written for (i = lower colour, j = higher colour).

ONE = {'S': ('num', F(1)), 'V': ('vec', (F(1), F(1), F(1)))}

def dof_ty(gs, dof):
    if dof == 'vel': return 'V'
    for ig in gs['integrators']:
        if ig[0] == 'euler' and ig[2] == dof: return ig[3]
    raise KeyError(dof)

def stages(gs):
    """stage of every symbol module: longest path in 'reads a symbol produced by another module' (as Symbol::findStage)"""
    syms = [m for m in gs['modules'] if m[0] in ('cache', 'psum')]
    name = lambda m: m[2] if m[0] == 'cache' else m[3]
    exprs = lambda m: [m[4]] if m[0] == 'cache' else [m[7], m[8], m[9]]
    st = {}
    def stage(m, depth=0):
        key = id(m)
        if key in st: return st[key]
        if depth > 50: raise ValueError('cycle')
        used = set()
        for e in exprs(m): used |= reads(e)
        s = 0
        for o in syms:
            if o is not m and name(o) in used:
                s = max(s, stage(o, depth + 1) + 1)
        st[key] = s
        return s
    return {id(m): stage(m) for m in syms}

def to_symlib(gs):
    """scenario dict for symlib.write_case"""
    integ = []
    for ig in gs['integrators']:
        if ig[0] == 'vv':
            integ.append(['IntegratorVelocityVerlet', {'species': ig[1], 'lambda': ig[2], 'mass': ig[3]}])
        else:
            tagname = 'IntegratorScalar' if ig[3] == 'S' else 'IntegratorVector'
            attr = 'scalar' if ig[3] == 'S' else 'vector'
            integ.append([tagname, {'species': ig[1], attr: ig[2], 'symbol': ig[2]}])
    mods = []
    wfs = {}
    allpairs_done = set()
    for m in gs['modules']:
        if m[0] == 'pforce':
            _, s1, s2, dof, rc, sym, e, fi, fj = m
            if dof == 'vel':
                mods.append(['FPairVels', {'species1': s1, 'species2': s2, 'cutoff': rc, 'symmetry': int(sym),
                                           'pairFactor': render(e, True), 'particleFactor_i': render(fi, True),
                                           'particleFactor_j': render(fj, True)}])
            else:
                ty = dof_ty(gs, dof)
                wf = 'wf%s' % symlib.rat(rc).replace('/', '_')
                wfs[wf] = rc
                tagname = 'FPairScalar' if ty == 'S' else 'FPairVector'
                attr = 'scalar' if ty == 'S' else 'vector'
                mods.append([tagname, {'species1': s1, 'species2': s2, 'weightingFunction': wf, 'symmetry': int(sym), attr: dof,
                                       'pairFactor': render(e, True), 'particleFactor_i': render(fi, True),
                                       'particleFactor_j': render(fj, True)}])
        elif m[0] == 'partforce':
            _, sp, dof, e = m
            if dof == 'vel':
                mods.append(['FParticleVels', {'species': sp, 'expression': render(e, False)}])
            else:
                ty = dof_ty(gs, dof)
                mods.append(['FParticleScalar' if ty == 'S' else 'FParticleVector',
                             {'species': sp, ('scalar' if ty == 'S' else 'vector'): dof, 'expression': render(e, False)}])
        elif m[0] == 'cache':
            _, sp, name, ty, e = m
            mods.append(['ParticleScalar' if ty == 'S' else 'ParticleVector', {'species': sp, 'symbol': name, 'expression': render(e, False)}])
        elif m[0] == 'psum':
            _, s1, s2, name, ty, rc, sym, e, fi, fj = m[:10]
            if len(m) > 10:
                # member of an allPairs group: ONE module in the input for all colour pairs
                if name in allpairs_done: continue
                allpairs_done.add(name)
                mods.append(['PairParticleScalar' if ty == 'S' else 'PairParticleVector',
                             {'allPairs': 'yes', 'symbol': name, 'cutoff': rc, 'symmetry': int(sym),
                              'expression': render(e, True), 'particleFactor_i': render(fi, True), 'particleFactor_j': render(fj, True)}])
                continue
            mods.append(['PairParticleScalar' if ty == 'S' else 'PairParticleVector',
                         {'species1': s1, 'species2': s2, 'symbol': name, 'cutoff': rc, 'symmetry': int(sym),
                          'expression': render(e, True), 'particleFactor_i': render(fi, True), 'particleFactor_j': render(fj, True)}])
    wfmods = [['InputWF', {'name': n, 'cutoff': rc, 'interpolation': '1', 'selfContribution': '1', 'weight': '1'}] for n, rc in wfs.items()]
    sc = {'box': [symlib.rat(x) for x in gs['box']], 'periodic': list(gs['periodic']),
          'controller': {'dt': gs['dt'], 'timesteps': gs['steps']},
          'integrators': integ, 'modules': wfmods + mods, 'boundary_children': [['ReflectorMirror', {}]],
          'particles': [], 'species_order': list(gs['species']), 'tag_columns': {}}
    if gs.get('random_pairs'):
        sc['phase_attrs'] = {'randomPairs': 'yes'}      # the pair loops run over a randomly permuted copy of the lists (same results in exact arithmetic)
    cols = {}
    for p in gs['particles']:
        for n in p.get('tags', {}):
            cols.setdefault(p['species'], [])
            if n not in cols[p['species']]: cols[p['species']].append(n)
    sc['tag_columns'] = cols
    for p in gs['particles']:
        q = {'species': p['species'], 'frozen': bool(p.get('frozen')), 'r': list(p['r']), 'v': list(p['v'])}
        if p.get('tags'):
            q['tags'] = {n: (list(v) if isinstance(v, (tuple, list)) else v) for n, v in p['tags'].items()}
        sc['particles'].append(q)
    return sc

def canon_order(gs):
    """indices of gs['particles'] in canonical order (colour, free first, slot) and their slots"""
    sc_slots = symlib.slots({'particles': [{'species': p['species'], 'frozen': bool(p.get('frozen'))} for p in gs['particles']]})
    col = {s: i for i, s in enumerate(gs['species'])}
    idx = sorted(range(len(gs['particles'])), key=lambda i: (col[gs['particles'][i]['species']], bool(gs['particles'][i].get('frozen')), sc_slots[i]))
    return idx, sc_slots

def to_model(gs):
    """input lines for `symdrv` (model dyn)"""
    col = {s: i for i, s in enumerate(gs['species'])}
    st = stages(gs)
    L = ['model dyn', 'box %s %s %s %d %d %d' % (tuple(symlib.rat(x) for x in gs['box']) + tuple(int(b) for b in gs['periodic'])),
         'dt ' + symlib.rat(gs['dt'])]
    for ig in gs['integrators']:
        if ig[0] == 'vv': L.append('integ vv %d %s %s' % (col[ig[1]], symlib.rat(ig[2]), symlib.rat(ig[3])))
        else: L.append('integ euler %d %s %s' % (col[ig[1]], ig[2], ig[3]))
    def orient(s1, s2):
        c1, c2 = col[s1], col[s2]
        return (c1, c2) if c1 <= c2 else (c2, c1)
    for m in gs['modules']:
        if m[0] == 'pforce':
            _, s1, s2, dof, rc, sym, e, fi, fj = m
            c1, c2 = orient(s1, s2)
            L.append('pforce %d %d %s %s %s | %s | %s | %s' % (c1, c2, dof, symlib.rat(rc), symlib.rat(sym),
                                                                ' '.join(prefix(e)), ' '.join(prefix(fi)), ' '.join(prefix(fj))))
        elif m[0] == 'partforce':
            L.append('partforce %d %s | %s' % (col[m[1]], m[2], ' '.join(prefix(m[3]))))
        elif m[0] == 'cache':
            L.append('cache %d %d %s %s | %s' % (col[m[1]], st[id(m)], m[2], m[3], ' '.join(prefix(m[4]))))
        elif m[0] == 'psum':
            _, s1, s2, name, ty, rc, sym, e, fi, fj = m[:10]
            L.append('%s %d %d %d %s %s %s %s | %s | %s | %s' % ('psumall' if len(m) > 10 else 'psum', col[s1], col[s2], st[id(m)], name, ty, symlib.rat(rc), symlib.rat(sym),
                                                                   ' '.join(prefix(e)), ' '.join(prefix(fi)), ' '.join(prefix(fj))))
    idx, slots = canon_order(gs)
    for i in idx:
        p = gs['particles'][i]
        tags = []
        for n, v in p.get('tags', {}).items():
            tags.append('%s=%s' % (n, ','.join(symlib.rat(x) for x in v) if isinstance(v, (tuple, list)) else symlib.rat(v)))
        L.append('p %d %d %s %s %s %s' % (col[p['species']], slots[i], 'frozen' if p.get('frozen') else 'free',
                                          ','.join(symlib.rat(x) for x in p['r']), ','.join(symlib.rat(x) for x in p['v']), ' '.join(tags)))
    L.append('run %d' % gs['steps'])
    return L

def parse_model(out):
    """-> [step dict] or ('err', kind)"""
    lines = [l for l in out.split('\n') if l.strip()]
    if lines and lines[0].startswith('err:'): return ('err', lines[0])
    steps = []
    cur = None
    vec = lambda s: [F(x) for x in s.split(',')]
    for l in lines:
        w = l.split()
        if w[0] == 'step':
            cur = {'step': int(w[1]), 'forceidx': int(w[3]), 'particles': []}
            steps.append(cur)
        elif w[0] == 'P':
            segs = l.split(' | ')
            h = segs[0].split()
            tag = {}
            for s in segs[1:]:
                t = s.split()
                tag[t[0]] = (t[1], t[2] == '1', F(t[3]) if t[1] == 'S' else vec(t[3]))
            cur['particles'].append({'colour': int(h[1]), 'slot': int(h[2]), 'frozen': h[3] == 'frozen', 'r': vec(h[4]), 'v': vec(h[5]),
                                     'f0': vec(h[6]), 'f1': vec(h[7]), 'tag': tag})
        elif w[0].startswith('err:'):
            return ('err', w[0])
        elif w[0] == 'end':
            break
    return steps

def run_model(gs):
    inp = '\n'.join(to_model(gs)) + '\n'
    p = subprocess.run([SYMDRV], input=inp.encode(), stdout=subprocess.PIPE, stderr=subprocess.PIPE, timeout=300)
    if p.returncode != 0:
        return ('err', 'symdrv rc=%d %s' % (p.returncode, p.stderr.decode()[:200]))
    return parse_model(p.stdout.decode())

def run_real(gs, d):
    if os.path.isdir(d): shutil.rmtree(d)
    sc = to_symlib(gs)
    symlib.write_case(d, sc)
    rc, out = symlib.run_sympler(d, SYMPLER)
    if rc != 0 or not os.path.exists(os.path.join(d, 'obs.txt')):
        return ('err', rc, out[-1500:])
    steps = symlib.parse_obs(os.path.join(d, 'obs.txt'))
    hits = [l for l in out.split('\n') if 'Total number of reflector hits' in l]
    nh = int(hits[-1].split(':')[-1]) if hits else -1
    return ('ok', steps, nh)

# ------------------------------------------------------------------ comparison
def bits(x):
    x = F(x)
    if x == 0: return 0
    n = abs(x.numerator)
    while n % 2 == 0: n //= 2
    d = x.denominator
    if d & (d - 1): return 10 ** 6
    return n.bit_length()

def state_bits(ms):
    b = 0
    for p in ms['particles']:
        for k in ('r', 'v', 'f0', 'f1'):
            b = max(b, max(bits(x) for x in p[k]))
        for n, (ty, pers, val) in p['tag'].items():
            b = max(b, bits(val) if ty == 'S' else max(bits(x) for x in val))
    return b

def real_particles(rs):
    ps = sorted(rs['particles'], key=lambda p: (p['colour'], p['frozen'], p['slot']))
    return ps

def real_tagval(t):
    ty, pers, v = t
    if ty == 'DOUBLE': return ('S', pers, v)
    if ty == 'POINT': return ('V', pers, list(v))
    return (ty, pers, v)

def compare_step(ms, rs, approx=False):
    """first differing field or None"""
    def eq(a, b):
        if not approx: return a == b
        return abs(a - b) <= F(1, 10 ** 9) * max(1, abs(a), abs(b))
    if ms['forceidx'] != rs['forceidx']: return 'forceidx model=%d real=%d' % (ms['forceidx'], rs['forceidx'])
    rp = real_particles(rs)
    if len(rp) != len(ms['particles']): return 'nparticles model=%d real=%d' % (len(ms['particles']), len(rp))
    for i, (a, b) in enumerate(zip(ms['particles'], rp)):
        if (a['colour'], a['slot'], a['frozen']) != (b['colour'], b['slot'], b['frozen']):
            return 'identity of particle %d' % i
        who = 'particle(c=%d,slot=%d,%s)' % (a['colour'], a['slot'], 'frozen' if a['frozen'] else 'free')
        for k in ('r', 'v', 'f0', 'f1'):
            for c in range(3):
                if not eq(a[k][c], b[k][c]):
                    return '%s %s[%d] model=%s real=%s' % (who, k, c, a[k][c], b[k][c])
        rt = {n: real_tagval(t) for n, t in b['tag'].items() if not n.startswith('__')}
        if set(rt) != set(a['tag']):
            return '%s attribute names model=%s real=%s' % (who, sorted(a['tag']), sorted(rt))
        for n in sorted(a['tag']):
            ty, pers, val = a['tag'][n]
            rty, rpers, rval = rt[n]
            if ty != rty: return '%s %s type model=%s real=%s' % (who, n, ty, rty)
            if pers != rpers: return '%s %s persistent model=%s real=%s' % (who, n, pers, rpers)
            if ty == 'S':
                if not eq(val, rval): return '%s %s model=%s real=%s' % (who, n, val, rval)
            else:
                for c in range(3):
                    if not eq(val[c], rval[c]): return '%s %s[%d] model=%s real=%s' % (who, n, c, val[c], rval[c])
    return None

# ------------------------------------------------------------------ geometry helpers (oracles)
def minimg(gs, d):
    out = []
    for c in range(3):
        x, L = d[c], F(gs['box'][c])
        if gs['periodic'][c]:
            if x > L / 2: x -= L
            elif x < -L / 2: x += L
        out.append(x)
    return tuple(out)

def norm2(d): return sum(x * x for x in d)

def near_cutoff(gs, parts):
    """is some pair distance within 2^-20 of a cutoff (squared), or some coordinate within 1e-9 of a periodic face?"""
    cuts = set()
    for m in gs['modules']:
        if m[0] == 'pforce': cuts.add(F(m[4]))
        if m[0] == 'psum': cuts.add(F(m[5]))
    eps = F(1, 2 ** 20)
    for i, p in enumerate(parts):
        for c in range(3):
            if gs['periodic'][c] and not p['frozen']:
                if abs(p['r'][c]) < F(1, 10 ** 9) or abs(p['r'][c] - F(gs['box'][c])) < F(1, 10 ** 9): return 'face'
        for q in parts[i + 1:]:
            d2 = norm2(minimg(gs, vsub(tuple(p['r']), tuple(q['r']))))
            for rc in cuts:
                if abs(d2 - rc * rc) < eps and d2 != rc * rc: return 'cutoff'
    return None

# ------------------------------------------------------------------ generator
CUTS = [F(1, 2), F(3, 4), F(1), F(5, 4), F(3, 2)]
LAMBDAS = [F(1, 8), F(1, 4), F(1, 2), F(3, 4), F(1), F(3, 2)]      # lambda = 0 is rejected by the real input check (must be > 0)
MASSES = [F(1, 2), F(1), F(2), F(4)]

def rnd_coef(rng, nz=True):
    while True:
        c = F(rng.choice([-2, -1, 1, 2, 3, -3, 1, 1]), rng.choice([1, 2, 4]))
        if c != 0 or not nz: return c

def rnd_vec(rng):
    return ('vec', tuple(F(rng.randint(-4, 4), rng.choice([1, 2, 4])) for _ in range(3)))

def gen_pair_expr(rng, ty, parity, syms1, syms2, allow_vel, maxdeg):
    """pair expression of type ty with the given parity under exchange of i and j (for equal colours syms1 == syms2).
    syms: list of (name, ty, degree) usable for i / j.  parity: +1, -1 or 0 (= anything; only for different colours)"""
    sS = [s for s in syms1 if s[1] == 'S' and s in syms2]
    sV = [s for s in syms1 if s[1] == 'V' and s in syms2]
    c = ('num', rnd_coef(rng))
    RIJ = ('rij',)
    def sym_scalar():      # symmetric scalar, degree <= 2
        opts = [c, ('dot', RIJ, RIJ)]
        if sS:
            s = rng.choice(sS)
            opts.append(('add', ('tag', 'i', s[0], 'S'), ('tag', 'j', s[0], 'S')))
            opts.append(('mul', ('tag', 'i', s[0], 'S'), ('tag', 'j', s[0], 'S')))
        if sV:
            s = rng.choice(sV)
            opts.append(('dot', ('tag', 'i', s[0], 'V'), ('tag', 'j', s[0], 'V')))
        if allow_vel:
            opts.append(('dot', ('sub', ('vel', 'i'), ('vel', 'j')), RIJ))
        return rng.choice(opts)
    def anti_vector():
        opts = [RIJ, RIJ]
        if sV:
            s = rng.choice(sV)
            opts.append(('sub', ('tag', 'i', s[0], 'V'), ('tag', 'j', s[0], 'V')))
        if allow_vel:
            opts.append(('sub', ('vel', 'i'), ('vel', 'j')))
        return rng.choice(opts)
    def sym_vector():
        opts = [rnd_vec(rng), ('mul', RIJ, RIJ)]
        if sV:
            s = rng.choice(sV)
            opts.append(('add', ('tag', 'i', s[0], 'V'), ('tag', 'j', s[0], 'V')))
        if allow_vel:
            opts.append(('add', ('vel', 'i'), ('vel', 'j')))
        return rng.choice(opts)
    def anti_scalar():
        opts = [('comp', rng.randint(0, 2), RIJ)]
        if sS:
            s = rng.choice(sS)
            opts.append(('sub', ('tag', 'i', s[0], 'S'), ('tag', 'j', s[0], 'S')))
        return rng.choice(opts)
    def asym(ty):          # no symmetry at all (different colours only)
        if ty == 'S':
            opts = [('comp', 0, ('pos', 'i')), ('add', ('dot', RIJ, ('pos', 'j')), c)]
            if syms1 and any(s[1] == 'S' for s in syms1):
                s = rng.choice([s for s in syms1 if s[1] == 'S']); opts.append(('tag', 'i', s[0], 'S'))
            if syms2 and any(s[1] == 'S' for s in syms2):
                s = rng.choice([s for s in syms2 if s[1] == 'S']); opts.append(('tag', 'j', s[0], 'S'))
            return rng.choice(opts)
        opts = [('pos', 'i'), ('sub', ('smul', ('num', F(2)), ('pos', 'i')), ('pos', 'j'))]
        if allow_vel: opts.append(('vel', 'j'))
        if syms2 and any(s[1] == 'V' for s in syms2):
            s = rng.choice([s for s in syms2 if s[1] == 'V']); opts.append(('tag', 'j', s[0], 'V'))
        return rng.choice(opts)
    for _ in range(50):
        if parity == 0 and rng.random() < 0.5:
            e = asym(ty)
        elif ty == 'V':
            if parity == -1 or (parity == 0 and rng.random() < 0.5):
                e = rng.choice([lambda: ('smul', c, anti_vector()), lambda: ('smul', sym_scalar(), anti_vector()),
                                lambda: ('smul', anti_scalar(), sym_vector())])()
            else:
                e = rng.choice([sym_vector, lambda: ('smul', sym_scalar(), sym_vector()), lambda: ('smul', anti_scalar(), anti_vector())])()
        else:
            if parity == -1 or (parity == 0 and rng.random() < 0.5):
                e = rng.choice([anti_scalar, lambda: ('mul', sym_scalar(), anti_scalar())])()
            else:
                e = rng.choice([sym_scalar, lambda: ('mul', anti_scalar(), anti_scalar()), lambda: ('mul', c, sym_scalar())])()
        if degree(e, {s[0]: s[2] for s in syms1 + syms2}) <= maxdeg:
            return e
    return ('smul', c, RIJ) if (ty == 'V' and parity != 1) else (c if ty == 'S' else rnd_vec(rng))

def gen_factor(rng, ty, syms, who):
    """particle factor depending on particle `who` only"""
    opts = [ONE[ty]]
    for s in syms:
        if s[1] == ty and s[2] <= 1: opts.append(('tag', who, s[0], ty))
    if ty == 'S': opts.append(('num', F(2)))
    else: opts.append(('vec', (F(1), F(2), F(-1))))
    return rng.choice(opts)

def mirror(e):
    """exchange i and j in a factor expression"""
    if e[0] in ('pos', 'vel'): return (e[0], 'j' if e[1] == 'i' else 'i')
    if e[0] == 'tag': return ('tag', 'j' if e[1] == 'i' else 'i', e[2], e[3])
    if e[0] in ('num', 'vec', 'rij'): return e
    if e[0] == 'comp': return ('comp', e[1], mirror(e[2]))
    return (e[0],) + tuple(mirror(x) for x in e[1:])

def gen_part_expr(rng, ty, syms, allow_vel, maxdeg, const_only=False):
    c = ('num', rnd_coef(rng))
    if const_only:
        return c if ty == 'S' else rnd_vec(rng)
    R, V = ('pos', 'i'), ('vel', 'i')
    if ty == 'V':
        opts = [rnd_vec(rng), ('smul', c, R), ('sub', rnd_vec(rng), R)]
        if allow_vel: opts.append(('smul', ('num', F(-1, 2)), V))
        for s in syms:
            if s[1] == 'V': opts.append(('tag', 'i', s[0], 'V'))
            if s[1] == 'S': opts.append(('smul', ('tag', 'i', s[0], 'S'), rnd_vec(rng)))
        if maxdeg >= 2: opts.append(('smul', ('dot', R, R), rnd_vec(rng)))
    else:
        opts = [c, ('comp', rng.randint(0, 2), R), ('add', c, ('comp', 0, R))]
        if allow_vel: opts.append(('dot', V, rnd_vec(rng)))
        for s in syms:
            if s[1] == 'S': opts.append(('add', ('tag', 'i', s[0], 'S'), c))
            if s[1] == 'V': opts.append(('dot', ('tag', 'i', s[0], 'V'), rnd_vec(rng)))
        if maxdeg >= 2: opts.append(('dot', R, R))
    for _ in range(30):
        e = rng.choice(opts)
        if degree(e, {s[0]: s[2] for s in syms}) <= maxdeg: return e
    return c if ty == 'S' else rnd_vec(rng)

def gen_scenario(rng, flavour=None):
    """flavour: None (general) | 'momentum' | 'const' | 'posonly' (no expression reads a velocity) | 'reverse'"""
    if flavour is None:
        flavour = rng.choice(['general'] * 5 + ['momentum', 'const', 'posonly', 'posonly'])
    nsp = rng.choice([1, 2, 2, 3])
    if flavour in ('momentum', 'reverse'): nsp = rng.choice([1, 2])
    species = ['A', 'B', 'C'][:nsp]
    rng.shuffle(species)                      # colour order = order of the integrators
    allper = flavour in ('momentum', 'reverse') or rng.random() < 0.45
    periodic = [True] * 3 if allper else [rng.random() < 0.5 for _ in range(3)]
    maxdeg = rng.choice([1, 1, 1, 2, 3]) if flavour not in ('reverse',) else 1
    dt = F(1, rng.choice([4, 8, 16, 32]) if maxdeg == 1 else rng.choice([4, 8]))
    if flavour == 'reverse': dt = F(1, rng.choice([2, 4]))
    steps = rng.randint(1, 8) if maxdeg == 1 else rng.randint(1, 4)
    allow_vel = flavour in ('general',) and rng.random() < 0.6
    # --- particles
    frozen_only = None
    if nsp >= 2 and flavour in ('general', 'posonly', 'const') and rng.random() < 0.3:
        frozen_only = species[-1] if rng.random() < 0.7 else species[0]
    free_species = [s for s in species if s != frozen_only]
    # --- integrators (the first integrator of a species defines its colour)
    integrators = []
    for s in species:
        if s == frozen_only:
            integrators.append(('euler', s, 'q' + s.lower(), 'S'))
        else:
            integrators.append(('vv', s, rng.choice(LAMBDAS) if flavour != 'reverse' else F(1, 2), rng.choice(MASSES)))
    eulers = []      # (name, ty, species list)
    if flavour in ('general', 'const', 'posonly'):
        for name, ty in rng.sample([('sa', 'S'), ('sb', 'S'), ('ua', 'V')], rng.choice([0, 1, 1, 2])):
            sps = [s for s in species if rng.random() < 0.7] or [species[0]]
            eulers.append((name, ty, sps))
            for s in sps: integrators.append(('euler', s, name, ty))
    if frozen_only: eulers.append(('q' + frozen_only.lower(), 'S', [frozen_only]))
    head, tail = integrators[:nsp], integrators[nsp:]
    rng.shuffle(tail)
    integrators = head + tail
    # another integrator of a species listed BEFORE its velocity-Verlet integrator (the species keeps its colour: the swapped
    # integrator takes the place of the first mention); per-integrator slots of the species' force copies then start above 0
    for s in species:
        iv = [k for k, ig in enumerate(integrators) if ig[0] == 'vv' and ig[1] == s]
        ie = [k for k, ig in enumerate(integrators) if ig[0] == 'euler' and ig[1] == s]
        if iv and ie and ie[0] > iv[0] and rng.random() < 0.35:
            integrators[iv[0]], integrators[ie[0]] = integrators[ie[0]], integrators[iv[0]]
    # --- symbols: (name, ty, degree) per species, built in dependency order
    col = {s: i for i, s in enumerate(species)}
    modules = []
    symtab = {s: [] for s in species}
    for name, ty, sps in eulers:
        for s in sps: symtab[s].append((name, ty, 1))
    nsym = 0 if flavour in ('momentum', 'reverse') else rng.choice([0, 1, 2, 3, 4])
    if flavour == 'const': nsym = rng.choice([0, 1, 2])
    names = iter(['na', 'nb', 'nc', 'nd', 'ne', 'nf'])
    for _ in range(nsym):
        name = next(names)
        ty = rng.choice(['S', 'S', 'V'])
        if len(species) >= 2 and rng.random() < (0.3 if len(species) >= 3 else 0.15):
            # `allPairs="yes"`: ONE module computes the symbol for every colour combination; position-only summand whose parity
            # under exchange is `sym`, so that the result does not depend on the orientation of a pair
            sym = rng.choice([1, -1])
            e = gen_pair_expr(rng, ty, sym, [], [], False, maxdeg)
            rc = rng.choice(CUTS)
            d = max(1, degree(e, {}))
            for a in species:
                for b in species:
                    if col[a] <= col[b] and not (a == frozen_only and b == frozen_only):
                        modules.append(('psum', a, b, name, ty, rc, F(sym), e, ONE[ty], ONE[ty], 'allpairs'))
            for sp in species: symtab[sp].append((name, ty, d))
            continue
        if rng.random() < 0.4:
            sp = rng.choice(free_species)
            e = gen_part_expr(rng, ty, symtab[sp], allow_vel, maxdeg)
            d = max(1, degree(e, {s[0]: s[2] for s in symtab[sp]}))
            modules.append(('cache', sp, name, ty, e))
            symtab[sp].append((name, ty, d))
        else:
            s1, s2 = sorted(rng.choice([(a, b) for a in species for b in species if col[a] <= col[b]]), key=lambda s: col[s])
            if s1 == frozen_only and s2 == frozen_only: s1 = free_species[0]; s1, s2 = sorted([s1, s2], key=lambda s: col[s])
            sym = rng.choice([1, -1])
            same = s1 == s2
            e = gen_pair_expr(rng, ty, sym if same else rng.choice([0, sym]), symtab[s1], symtab[s2], allow_vel, maxdeg)
            fi = gen_factor(rng, ty, symtab[s1], 'i') if rng.random() < 0.3 else ONE[ty]
            fj = mirror(fi) if same else (gen_factor(rng, ty, symtab[s2], 'j') if rng.random() < 0.3 else ONE[ty])
            dmap = {s[0]: s[2] for s in symtab[s1] + symtab[s2]}
            d = max(1, degree(e, dmap) + max(degree(fi, dmap), degree(fj, dmap)))
            if d > maxdeg: fi = fj = ONE[ty]; d = max(1, degree(e, dmap))
            modules.append(('psum', s1, s2, name, ty, rng.choice(CUTS), F(sym), e, fi, fj))
            symtab[s1].append((name, ty, d))
            if s2 != s1: symtab[s2].append((name, ty, d))
    # --- a pair sum that reads a derived symbol ONLY through particleFactor_j (one-sided factors, the fluid/wall idiom): the symbol
    #     it reads is itself a pair sum, so the reader must be staged one later; orientation is fixed by the two different colours
    if len(species) >= 2 and flavour in ('general', 'posonly') and maxdeg >= 2 and rng.random() < 0.35:
        a, b = sorted(rng.sample(species, 2), key=lambda s: col[s])
        if frozen_only not in (a, b):
            ex = gen_pair_expr(rng, 'S', 0, [], [], False, 1)
            modules.append(('psum', a, b, 'fx', 'S', rng.choice(CUTS), F(rng.choice([1, -1])), ex, ONE['S'], ONE['S']))
            for sp in (a, b): symtab[sp].append(('fx', 'S', max(1, degree(ex, {}))))
            ey = ('num', rnd_coef(rng))
            modules.append(('psum', a, b, 'fy', 'S', rng.choice(CUTS), F(rng.choice([1, -1])), ey, ONE['S'], ('tag', 'j', 'fx', 'S')))
            for sp in (a, b): symtab[sp].append(('fy', 'S', max(1, degree(ex, {}))))
    # --- forces
    def pair_choice():
        a = rng.choice(free_species); b = rng.choice(species)
        return (a, b) if rng.random() < 0.5 else (b, a)
    nfp = rng.choice([1, 1, 2, 3]) if flavour != 'const' else 0
    prev = None
    for _ in range(nfp):
        s1, s2 = prev if (prev and rng.random() < 0.5) else pair_choice()     # several forces on the same colour pair
        prev = (s1, s2)
        lo, hi = sorted([s1, s2], key=lambda s: col[s])
        same = lo == hi
        if flavour in ('momentum', 'reverse'):
            e = gen_pair_expr(rng, 'V', -1, [], [], flavour == 'momentum' and rng.random() < 0.5, maxdeg)
            modules.append(('pforce', s1, s2, 'vel', rng.choice(CUTS), F(-1), e, ONE['V'], ONE['V']))
            continue
        sym = -1 if rng.random() < 0.8 else 1
        e = gen_pair_expr(rng, 'V', sym if same else rng.choice([0, sym, sym]), symtab[lo], symtab[hi], allow_vel, maxdeg)
        fi = gen_factor(rng, 'V', symtab[lo], 'i') if rng.random() < 0.25 else ONE['V']
        fj = mirror(fi) if same else (gen_factor(rng, 'V', symtab[hi], 'j') if rng.random() < 0.25 else ONE['V'])
        dmap = {s[0]: s[2] for s in symtab[lo] + symtab[hi]}
        if degree(e, dmap) + max(degree(fi, dmap), degree(fj, dmap)) > maxdeg: fi = fj = ONE['V']
        modules.append(('pforce', s1, s2, 'vel', rng.choice(CUTS), F(sym), e, fi, fj))
    if flavour not in ('momentum', 'reverse'):
        for _ in range(rng.choice([0, 1, 1, 2]) if flavour != 'const' else rng.choice([1, 2, 3])):
            sp = rng.choice(free_species)
            modules.append(('partforce', sp, 'vel', gen_part_expr(rng, 'V', symtab[sp], allow_vel, maxdeg, const_only=(flavour == 'const'))))
        for name, ty, sps in eulers:
            for _ in range(rng.choice([1, 1, 2, 3])):
                pairs_ok = [(a, b) for a in sps for b in sps if col[a] <= col[b] and not (a == frozen_only and b == frozen_only)]
                if flavour != 'const' and pairs_ok and rng.random() < 0.4:
                    lo, hi = rng.choice(pairs_ok)
                    same = lo == hi
                    sym = rng.choice([1, -1])
                    e = gen_pair_expr(rng, ty, sym if same else rng.choice([0, sym]), symtab[lo], symtab[hi], allow_vel, maxdeg)
                    s1, s2 = (lo, hi) if rng.random() < 0.5 else (hi, lo)
                    modules.append(('pforce', s1, s2, name, rng.choice(CUTS), F(sym), e, ONE[ty], ONE[ty]))
                else:
                    sp = rng.choice(sps)
                    modules.append(('partforce', sp, name, gen_part_expr(rng, ty, symtab[sp], allow_vel, maxdeg, const_only=(flavour == 'const'))))
    # --- box: every cell width L / floor(L / rcmax) must be dyadic (else the real pair distances are rounded)
    rcmax = max([F(m[4]) for m in modules if m[0] == 'pforce'] + [F(m[5]) for m in modules if m[0] == 'psum'] + [F(0)])
    def okL(L):
        n = int(F(L) / rcmax) if rcmax > 0 else 2
        w = F(L) / n
        return n >= 2 and w.denominator & (w.denominator - 1) == 0
    box = [F(rng.choice([L for L in (3, 4, 5, 6, 7, 8, 10) if okL(L) and L >= 2 * rcmax + 1 and (periodic[c] or L >= 5)])) for c in range(3)]
    centre = [F(rng.randint(0, int(box[c]) * 4), 4) for c in range(3)]
    particles = []
    nfree = rng.randint(2, 6)
    nfrozen = 0 if flavour in ('momentum', 'reverse') else rng.choice([0, 0, 1, 2, 3, 4])
    def place(frozen):
        r = []
        for c in range(3):
            L = box[c]
            if periodic[c]:
                x = (centre[c] + F(rng.randint(-10, 10), 8)) % L
                if x == 0: x = F(1, 8)
            else:
                lo, hi = F(3, 2), L - F(3, 2)
                x = lo + F(rng.randint(0, int((hi - lo) * 8)), 8)
            r.append(x)
        return r
    used = set()
    def add(sp, frozen):
        for _ in range(100):
            r = place(frozen)
            if tuple(r) not in used:
                used.add(tuple(r)); break
        v = [F(0)] * 3 if frozen else [F(rng.randint(-4, 4), 8) for _ in range(3)]
        if frozen and rng.random() < 0.3: v = [F(rng.randint(-4, 4), 8) for _ in range(3)]   # a frozen particle may carry a velocity; it must stay
        particles.append({'species': sp, 'frozen': frozen, 'r': r, 'v': v, 'tags': {}})
    for s in free_species: add(s, False)
    for _ in range(max(0, nfree - len(free_species))): add(rng.choice(free_species), False)
    if frozen_only: add(frozen_only, True)
    for _ in range(nfrozen): add(rng.choice(species), True)
    rng.shuffle(particles)
    for p in particles:
        for name, ty, sps in eulers:
            if p['species'] in sps and rng.random() < 0.8:
                p['tags'][name] = F(rng.randint(-8, 8), 4) if ty == 'S' else tuple(F(rng.randint(-8, 8), 4) for _ in range(3))
    # shuffle the module order (stages must come out the same; forces registered in any order)
    rng.shuffle(modules)
    return dict(box=box, periodic=periodic, dt=dt, steps=steps, species=species, integrators=integrators, modules=modules,
                particles=particles, flavour=flavour, maxdeg=maxdeg, frozen_only=frozen_only, random_pairs=(rng.random() < 0.3))

def max_degree(gs):
    """largest degree (in primitive state variables) of any module expression incl. its factor"""
    symdeg = {}
    st = stages(gs)
    syms = sorted([m for m in gs['modules'] if m[0] in ('cache', 'psum')], key=lambda m: st[id(m)])
    for m in syms:
        if m[0] == 'cache':
            symdeg[m[2]] = max(symdeg.get(m[2], 0), max(1, degree(m[4], symdeg)))
        else:
            d = degree(m[7], symdeg) + max(degree(m[8], symdeg), degree(m[9], symdeg))
            symdeg[m[3]] = max(symdeg.get(m[3], 0), max(1, d))
    D = 1
    for m in gs['modules']:
        if m[0] == 'pforce': D = max(D, degree(m[6], symdeg) + max(degree(m[7], symdeg), degree(m[8], symdeg)))
        if m[0] == 'partforce': D = max(D, degree(m[3], symdeg))
    return max([D] + list(symdeg.values()))

# ------------------------------------------------------------------ oracles on the DUMP
def mass_of(gs):
    return {ig[1]: F(ig[3]) for ig in gs['integrators'] if ig[0] == 'vv'}

def oracle_frozen(gs, rs):
    base = {(p['colour'], p['slot']): p for p in rs[0]['particles'] if p['frozen']}
    for s in rs[1:]:
        cur = {(p['colour'], p['slot']): p for p in s['particles'] if p['frozen']}
        if set(cur) != set(base): return 'step %d: set of frozen particles changed' % s['step']
        for k, p in cur.items():
            b = base[k]
            for f in ('r', 'v', 'f0', 'f1'):
                if p[f] != b[f]: return 'step %d: frozen particle %s %s changed %s -> %s' % (s['step'], k, f, b[f], p[f])
            for n, t in p['tag'].items():
                if t[2] != b['tag'][n][2]: return 'step %d: frozen particle %s attribute %s changed' % (s['step'], k, n)
        nfree0 = sum(1 for p in rs[0]['particles'] if not p['frozen'])
        if sum(1 for p in s['particles'] if not p['frozen']) != nfree0: return 'step %d: number of free particles changed' % s['step']
    return None

def oracle_momentum(gs, rs, horizon):
    if not all(gs['periodic']) or any(p.get('frozen') for p in gs['particles']): return 'n/a'
    for m in gs['modules']:
        if m[0] == 'partforce' and m[2] == 'vel': return 'n/a'
        if m[0] == 'pforce' and m[3] == 'vel' and (m[5] != -1 or m[7] != ONE['V'] or m[8] != ONE['V']): return 'n/a'
    mass = mass_of(gs)
    def P(s):
        tot = (F(0),) * 3
        for p in s['particles']:
            tot = vadd(tot, vscale(mass[gs['species'][p['colour']]], tuple(p['v'])))
        return tot
    p0 = P(rs[0])
    for s in rs[1:horizon + 1]:
        if P(s) != p0: return 'step %d: total momentum %s != %s' % (s['step'], P(s), p0)
        for k in ('f0', 'f1'):
            pass
    # sum of forces in the current buffer is zero
    for s in rs[:horizon + 1]:
        key = 'f%d' % s['forceidx']
        tot = (F(0),) * 3
        for p in s['particles']: tot = vadd(tot, tuple(p[key]))
        if tot != (0, 0, 0): return 'step %d: sum of forces %s' % (s['step'], tot)
    return None

def tagdict(p):
    d = {}
    for n, t in p['tag'].items():
        ty, pers, v = real_tagval(t)
        d[n] = v if ty == 'S' else tuple(v)
    return d

def oracle_pairsum(gs, rs, horizon):
    col = {s: i for i, s in enumerate(gs['species'])}
    # a summand that reads a velocity is evaluated mid-step on the predictor velocity v + lambda dt f/m, which the
    # dump (taken after integrateStep2) does not show: such modules are covered by the model comparison only
    groups = {}
    for m in gs['modules']:
        if m[0] == 'psum': groups.setdefault(m[3], []).append(m)
    groups = {n: ms for n, ms in groups.items() if not any(uses_vel(e) for m in ms for e in m[7:10])}
    if not groups: return 'n/a'
    for s in rs[:horizon + 1]:
        ps = real_particles(s)
        for name, ms in sorted(groups.items()):
            ty = ms[0][4]
            zero = F(0) if ty == 'S' else (F(0),) * 3
            add = (lambda a, b: a + b) if ty == 'S' else vadd
            mul = (lambda a, b: a * b) if ty == 'S' else (lambda a, b: tuple(x * y for x, y in zip(a, b)))
            scale = (lambda c, a: c * a) if ty == 'S' else vscale
            for a, p in enumerate(ps):
                if p['frozen'] or not any(p['colour'] in (col[m[1]], col[m[2]]) for m in ms): continue
                tot = zero
                for m in ms:
                    _, s1, s2, _n, _ty, rc, sym, e, fi, fj = m[:10]
                    c1, c2 = col[s1], col[s2]
                    if p['colour'] not in (c1, c2): continue
                    for b, q in enumerate(ps):
                        if a == b: continue
                        # p as first
                        for (first, second, pfirst) in ((p, q, True), (q, p, False)):
                            if first['colour'] != c1 or second['colour'] != c2: continue
                            if c1 == c2 and not pfirst: continue          # equal colours: orientation-independent by construction, count once
                            d = minimg(gs, vsub(tuple(first['r']), tuple(second['r'])))
                            if not norm2(d) < F(rc) * F(rc): continue
                            env = {'rij': d, 'ri': tuple(first['r']), 'rj': tuple(second['r']), 'vi': tuple(first['v']), 'vj': tuple(second['v']),
                                   'ti': tagdict(first), 'tj': tagdict(second)}
                            val = evalx(e, env)
                            if pfirst: tot = add(tot, mul(evalx(fi, env), val))
                            else: tot = add(tot, scale(F(sym), mul(evalx(fj, env), val)))
                got = tagdict(p)[name]
                if got != tot:
                    return 'step %d: symbol %s of particle (c=%d,slot=%d): dump %s, direct sum %s' % (s['step'], name, p['colour'], p['slot'], got, tot)
    return None

def is_const(e): return e[0] in ('num', 'vec')

def oracle_const(gs, rs, horizon):
    """closed forms for species / quantities driven by constant one-particle forces only"""
    col = {s: i for i, s in enumerate(gs['species'])}
    mass = mass_of(gs)
    dt = F(gs['dt'])
    checked = 0
    for sp in gs['species']:
        c = col[sp]
        for dof in ['vel'] + sorted({ig[2] for ig in gs['integrators'] if ig[0] == 'euler' and ig[1] == sp}):
            if dof == 'vel' and sp not in mass: continue
            ok = True
            tot = None
            for m in gs['modules']:
                if m[0] == 'pforce' and m[3] == dof and sp in (m[1], m[2]): ok = False
                if m[0] == 'partforce' and m[1] == sp and m[2] == dof:
                    if not is_const(m[3]): ok = False
                    else:
                        val = m[3][1]
                        tot = val if tot is None else (tot + val if m[3][0] == 'num' else vadd(tuple(tot), tuple(val)))
            if not ok: continue
            checked += 1
            for p0 in rs[0]['particles']:
                if p0['frozen'] or p0['colour'] != c: continue
                for s in rs[1:horizon + 1]:
                    n = s['step'] + 1
                    p = [q for q in s['particles'] if q['colour'] == c and q['slot'] == p0['slot'] and not q['frozen']][0]
                    if dof == 'vel':
                        Fc = tuple(tot) if tot is not None else (F(0),) * 3
                        t = n * dt
                        rr = vadd(vadd(tuple(p0['r']), vscale(t, tuple(p0['v']))), vscale(t * t / (2 * mass[sp]), Fc))
                        vv = vadd(tuple(p0['v']), vscale(t / mass[sp], Fc))
                        if tuple(p['v']) != vv: return 'step %d: v of (c=%d,slot=%d) %s, closed form %s' % (s['step'], c, p['slot'], p['v'], vv)
                        for k in range(3):
                            diff = p['r'][k] - rr[k]
                            L = F(gs['box'][k])
                            if gs['periodic'][k]:
                                if (diff / L).denominator != 1: return 'step %d: r[%d] of (c=%d,slot=%d) %s, closed form %s (mod %s)' % (s['step'], k, c, p['slot'], p['r'][k], rr[k], L)
                            elif diff != 0: return 'step %d: r[%d] of (c=%d,slot=%d) %s, closed form %s' % (s['step'], k, c, p['slot'], p['r'][k], rr[k])
                    else:
                        ty = dof_ty(gs, dof)
                        s0 = tagdict(p0)[dof]; sn = tagdict(p)[dof]
                        if ty == 'S':
                            want = s0 + n * dt * (tot if tot is not None else 0)
                        else:
                            want = vadd(s0, vscale(n * dt, tuple(tot) if tot is not None else (F(0),) * 3))
                        if sn != want: return 'step %d: %s of (c=%d,slot=%d) %s, closed form %s' % (s['step'], dof, c, p['slot'], sn, want)
    return None if checked else 'n/a'

def reads_velocity(gs):
    for m in gs['modules']:
        es = {'pforce': m[6:9], 'partforce': m[3:4], 'cache': m[4:5], 'psum': m[7:10]}[m[0]]
        if any(uses_vel(e) for e in es): return True
    return False

def oracle_lambda(gs, rs, horizon, d, rng):
    if reads_velocity(gs): return 'n/a'
    if not any(ig[0] == 'vv' for ig in gs['integrators']): return 'n/a'
    g2 = dict(gs)
    g2['integrators'] = [(ig[0], ig[1], rng.choice([l for l in LAMBDAS if l != ig[2]]), ig[3]) if ig[0] == 'vv' else ig for ig in gs['integrators']]
    r = run_real(g2, d + '_lambda')
    if r[0] != 'ok': return 'second run failed'
    for s, t in zip(rs[:horizon + 1], r[1][:horizon + 1]):
        for p, q in zip(real_particles(s), real_particles(t)):
            if p['r'] != q['r'] or p['v'] != q['v']:
                return 'step %d: particle (c=%d,slot=%d) differs between lambdas: r %s / %s, v %s / %s' % (s['step'], p['colour'], p['slot'], p['r'], q['r'], p['v'], q['v'])
            if tagdict(p) != tagdict(q): return 'step %d: tag of (c=%d,slot=%d) differs between lambdas' % (s['step'], p['colour'], p['slot'])
    shutil.rmtree(d + '_lambda', ignore_errors=True)
    return None

def oracle_reverse(gs, rs, horizon, d):
    """run N steps, flip, run N steps (second real run); applicable to flavour 'reverse' only"""
    if gs.get('flavour') != 'reverse': return 'n/a'
    N = gs['steps']
    last = real_particles(rs[-1])
    idx, slots = canon_order(gs)
    g2 = dict(gs)
    g2['particles'] = []
    for rank, i in enumerate(idx):
        p = dict(gs['particles'][i])
        p['r'] = list(last[rank]['r']); p['v'] = [-x for x in last[rank]['v']]
        g2['particles'].append(p)
    # canonical order is kept: same species/frozen sequence => same slots
    r = run_real(g2, d + '_rev')
    if r[0] != 'ok': return 'second run failed'
    ms = run_model(g2)
    if isinstance(ms, tuple): return 'n/a'
    if max(state_bits(s) for s in ms) > 50: return 'n/a (inexact)'
    end = real_particles(r[1][-1]); start = real_particles(rs[0])
    for p, q in zip(end, start):
        if [-x for x in p['v']] != list(q['v']): return 'velocity not recovered: %s vs %s' % (p['v'], q['v'])
        for k in range(3):
            if ((p['r'][k] - q['r'][k]) / F(gs['box'][k])).denominator != 1: return 'position not recovered: %s vs %s' % (p['r'], q['r'])
    shutil.rmtree(d + '_rev', ignore_errors=True)
    return None

# ------------------------------------------------------------------ main
def exact_horizon(gs, ms):
    """number of leading entries of ms (step -1, 0, 1, …) that are certainly exact in double arithmetic"""
    D = max_degree(gs)
    h = 0
    for s in ms:
        if near_cutoff(gs, s['particles']): break
        if D * (state_bits(s) + 2) + 6 > 53: break
        h += 1
    return h

def classify_field(gs, detail):
    """which part of the shared model does the first differing field belong to?
    returns dict(frozen=bool, kind in {'position','velocity','integrated','force','pairsum','cache','structure'})"""
    import re
    m = re.match(r"particle\(c=(\d+),slot=(\d+),(frozen|free)\) (\S+?)(\[\d\])? ", detail)
    if not m: return dict(frozen=False, kind='structure')
    frozen = m.group(3) == 'frozen'
    f = m.group(4)
    if f == 'r': return dict(frozen=frozen, kind='position')
    if f == 'v': return dict(frozen=frozen, kind='velocity')
    if f in ('f0', 'f1') or f.startswith('force_'): return dict(frozen=frozen, kind='force')
    for g in gs['modules']:
        if g[0] == 'psum' and g[3] == f: return dict(frozen=frozen, kind='pairsum')
        if g[0] == 'cache' and g[2] == f: return dict(frozen=frozen, kind='cache')
    for ig in gs['integrators']:
        if ig[0] == 'euler' and ig[2] == f: return dict(frozen=frozen, kind='integrated')
    return dict(frozen=frozen, kind='structure')

def check_stages(gs, rs):
    """stages computed here (fed to the model) vs stages of the real run"""
    st = stages(gs)
    mine = {}
    for m in gs['modules']:
        if m[0] == 'cache': mine[m[2]] = st[id(m)]
        if m[0] == 'psum': mine[m[3]] = st[id(m)]
    for x in rs[0]['stages']:
        if x['symbol'] in mine and mine[x['symbol']] != x['stage']:
            return 'stage of %s: computed %d, real %d' % (x['symbol'], mine[x['symbol']], x['stage'])
    return None

def main(argv):
    global SYMPLER
    seed, ncases = int(argv[1]), int(argv[2])
    keep = None
    verbose = '--verbose' in argv
    if '--keep' in argv: keep = argv[argv.index('--keep') + 1]
    if '--sympler' in argv: SYMPLER = argv[argv.index('--sympler') + 1]
    work = keep or ('/tmp/corr_dyn_%d_%d' % (seed, os.getpid()))
    os.makedirs(work, exist_ok=True)
    # the hooked binary may be relinked by a concurrent build: work on a private snapshot of it
    import time
    snap = os.path.join(work, 'sympler.snapshot')
    for attempt in range(60):
        try:
            shutil.copy2(SYMPLER, snap)
            if subprocess.run([snap, '--help'], stdout=subprocess.DEVNULL, stderr=subprocess.DEVNULL, timeout=60).returncode in (0, 1):
                break
        except (OSError, subprocess.SubprocessError):
            pass
        time.sleep(5)
    SYMPLER = snap
    rng = random.Random(seed)
    summ = dict(seed=seed, cases=0, compared_steps=0, exact_steps=0, approx_steps=0, skipped=dict(), modules=dict(), lambdas=dict(),
                frozen_counts=dict(), flavours=dict(), species_counts=dict(), swapped_force_species=0, list_gt_force_cutoff=0,
                oracles=dict(), disagreements=[], violations=[])
    def skip(k): summ['skipped'][k] = summ['skipped'].get(k, 0) + 1
    for case in range(ncases):
        flavour = None
        if case % 10 == 7: flavour = 'reverse'
        gs = gen_scenario(rng, flavour)
        d = os.path.join(work, 'case%d' % case)
        ms = run_model(gs)
        if isinstance(ms, tuple):
            if ms[1] in ('err:wall',): skip('model ' + ms[1]); continue
            summ['disagreements'].append(dict(case=case, kind='model rejects generated scenario', detail=ms[1], model_input=to_model(gs)))
            continue
        r = run_real(gs, d)
        if r[0] != 'ok' and 'Particle flew farther than a cell' in r[2]:
            skip('real: particle flew farther than a cell (error exit)'); continue
        if r[0] != 'ok':
            summ['disagreements'].append(dict(case=case, kind='real run failed', detail=r[2][-600:], model_input=to_model(gs)))
            continue
        rs, hits = r[1], r[2]
        if hits != 0: skip('reflector hit'); continue
        summ['cases'] += 1
        if len(summ.setdefault('samples', [])) < 2: summ['samples'].append(dict(flavour=gs['flavour'], model_input=to_model(gs)[:14], steps_dumped=len(rs)))
        summ['flavours'][gs['flavour']] = summ['flavours'].get(gs['flavour'], 0) + 1
        summ['species_counts'][len(gs['species'])] = summ['species_counts'].get(len(gs['species']), 0) + 1
        nf = sum(1 for p in gs['particles'] if p.get('frozen'))
        summ['frozen_counts'][nf] = summ['frozen_counts'].get(nf, 0) + 1
        col = {s: i for i, s in enumerate(gs['species'])}
        for ig in gs['integrators']:
            if ig[0] == 'vv': summ['lambdas'][str(ig[2])] = summ['lambdas'].get(str(ig[2]), 0) + 1
            k = 'IntegratorVelocityVerlet' if ig[0] == 'vv' else ('IntegratorScalar' if ig[3] == 'S' else 'IntegratorVector')
            summ['modules'][k] = summ['modules'].get(k, 0) + 1
        for m in to_symlib(gs)['modules']:
            summ['modules'][m[0]] = summ['modules'].get(m[0], 0) + 1
        cutmax = {}
        for m in gs['modules']:
            if m[0] == 'pforce' and col[m[1]] > col[m[2]]: summ['swapped_force_species'] += 1
            if m[0] in ('pforce', 'psum'):
                key = tuple(sorted((col[m[1]], col[m[2]])))
                rc = F(m[4] if m[0] == 'pforce' else m[5])
                cutmax[key] = max(cutmax.get(key, 0), rc)
        for m in gs['modules']:
            if m[0] in ('pforce', 'psum'):
                key = tuple(sorted((col[m[1]], col[m[2]])))
                if F(m[4] if m[0] == 'pforce' else m[5]) < cutmax[key]: summ['list_gt_force_cutoff'] += 1
        bad = check_stages(gs, rs)
        if bad:
            # the model was given other stages than the real binary uses: no state comparison, but the implementation-side oracles still apply
            summ['disagreements'].append(dict(case=case, kind='stages', detail=bad, scenario=to_symlib(gs)))
            hh = max(exact_horizon(gs, ms) - 1, 0)
            for name, res in {'frozen': oracle_frozen(gs, rs), 'pairsum': oracle_pairsum(gs, rs, hh)}.items():
                o = summ['oracles'].setdefault(name, dict(applied=0, violated=0))
                if res is None: o['applied'] += 1
                elif not (isinstance(res, str) and res.startswith('n/a')):
                    o['applied'] += 1; o['violated'] += 1
                    summ['violations'].append(dict(case=case, oracle=name, detail=res, dir=d, model_input=to_model(gs), scenario=to_symlib(gs)))
            continue
        if len(ms) != len(rs):
            summ['disagreements'].append(dict(case=case, kind='number of dumps', detail='%d vs %d' % (len(ms), len(rs)))); continue
        h = exact_horizon(gs, ms)
        first = None
        for k, (a, b) in enumerate(zip(ms, rs)):
            diff = compare_step(a, b, approx=(k >= h))
            summ['compared_steps'] += 1
            if k < h: summ['exact_steps'] += 1
            else: summ['approx_steps'] += 1
            if diff:
                if k < h:
                    first = dict(case=case, kind='state', step=a['step'], detail=diff, flavour=gs['flavour'], dir=d)
                elif verbose:
                    print('case %d: approx mismatch beyond exact horizon at step %d: %s' % (case, a['step'], diff), file=sys.stderr)
                break
        if first:
            # reproduce before reporting: the same scenario once more in a fresh directory.  A difference that does not come back is
            # kept as an artefact (both dumps) and counted, not reported: the real binary is deterministic for a fixed input (that is
            # property C12 and checked there), so a one-off difference is an artefact of the harness under load.
            r2 = run_real(gs, d + '_again')
            if r2[0] == 'ok' and len(r2[1]) == len(ms) and not any(compare_step(a, b, approx=(k >= h)) for k, (a, b) in enumerate(zip(ms, r2[1])) if k < h):
                keepdir = os.path.join(os.path.dirname(os.path.dirname(os.path.abspath(__file__))), '.work', 'transient-%d-%d' % (os.getpid(), case))
                try:
                    shutil.copytree(d, keepdir, dirs_exist_ok=True)
                    shutil.copytree(d + '_again', keepdir + '/again', dirs_exist_ok=True)
                except Exception:
                    pass
                summ.setdefault('transient_not_reproduced', []).append(dict(case=case, detail=first['detail'], step=first['step'], kept=keepdir))
                first = None
        if first:
            first['model_input'] = to_model(gs)
            first['field'] = classify_field(gs, first['detail'])
            first['scenario'] = to_symlib(gs)
            summ['disagreements'].append(first)
        # oracles (dump only)
        hh = max(h - 1, 0)
        results = {'frozen': oracle_frozen(gs, rs), 'momentum': oracle_momentum(gs, rs, hh), 'pairsum': oracle_pairsum(gs, rs, hh),
                   'constforce': oracle_const(gs, rs, hh)}
        if (case % 2 == 0 or gs.get('random_pairs')) and h == len(ms): results['lambda'] = oracle_lambda(gs, rs, hh, d, rng)
        if gs['flavour'] == 'reverse' and h == len(ms): results['reverse'] = oracle_reverse(gs, rs, hh, d)
        for name, res in results.items():
            o = summ['oracles'].setdefault(name, dict(applied=0, violated=0))
            if res is None: o['applied'] += 1
            elif isinstance(res, str) and res.startswith('n/a'): pass
            else:
                o['applied'] += 1; o['violated'] += 1
                summ['violations'].append(dict(case=case, oracle=name, detail=res, dir=d, model_input=to_model(gs), scenario=to_symlib(gs)))
        if not keep or (not first and not any(v['case'] == case for v in summ['violations'])):
            shutil.rmtree(d, ignore_errors=True)
    try: os.remove(snap)
    except OSError: pass
    if not keep: shutil.rmtree(work, ignore_errors=True)
    summ['ok'] = not summ['disagreements'] and not summ['violations']
    print(json.dumps(summ, indent=1, default=str))
    return 0 if summ['ok'] else 1

if __name__ == '__main__':
    sys.exit(main(sys.argv))
