#!/usr/bin/env python3
"""Correspondence check + violation search for property C08 (walls confine particles; reflection laws).

usage: corr_walls.py <seed> <ncases> [--keep DIR] [--sympler BIN] [--verbose] [--only KIND]
       (symdrv path from env SYMDRV, default /verif/lean/.lake/build/bin/symdrv)

Every scenario is ONE free particle in a `BoundaryCuboid` (all 8 wall/periodic combinations), species A, integrated
by `IntegratorVelocityVerlet`, with an `FPairVels pairFactor="0*[rij]"` that keeps the colour pair (and thereby the
cell subdivision with `cutoff`) alive.  The REAL hooked binary is run; the VerifObserver dumps the state after the
initial force computation (step -1) and after every time step.

1. CORRESPONDENCE (force-free, `ReflectorMirror` / `ReflectorBounceBack`): the Lean model `Sympler.Collide`
   (`model collide` of symdrv: `Cell::doCollision` + free flight + `Cell::checkNewPosition`) is run on the same scenario
   with  eps = Fraction(1e-10)  (= the exact value of the double `c_rm_disp_eps`; it cannot be changed without editing
   /repo), delta = Fraction(1e-5) (= -c_wt_dist_eps), geps = Fraction(1e-10) (= g_geom_eps).
   Compared after EVERY step: particle still there / erased / error kind ("More than 100 wall collisions",
   PARTICLEFLEWTOOFAR); velocity EXACTLY (rationals); position with absolute tolerance 1e-12 (all inputs are dyadic,
   so hit times and reflected velocities are exact in doubles, but every reflection adds the non-dyadic 1e-10 to a
   coordinate, and the double arithmetic with it is not exact); the index of the cell that holds the particle.
2. ORACLES on the dump alone (independent of the model), for ALL reflectors (also `ReflectorStochastic`) and also for
   runs WITH a constant force (`FParticleVels`) pushing towards a wall:
     count     the number of free particles is the same after every step, and the run is not aborted
               (only checked when the per-step displacement is below one cell)
     inside    every free particle is strictly between the walls in every non-periodic direction, and within
               [-geps, L+geps) in periodic ones
     speed     force-free: |v|^2 is preserved (exactly for mirror/bounce-back, rel. 1e-12 for stochastic)
     mirror    force-free, `ReflectorMirror`: per wall direction d, with x = r_d + v_d dt the unreflected end point:
               0 < x < L  =>  r'_d = x, v'_d = v_d;   x <= 0  =>  r'_d = eps - x, v'_d = -v_d;
               x >= L  =>  r'_d = 2L - eps - x, v'_d = -v_d   (normal component reversed, tangential ones kept)
     bounce    force-free, `ReflectorBounceBack`: v' = v or v' = -v
   "More than 100 wall collisions" with a displacement below one cell is reported as an OBSERVATION (the error is
   documented), not as a failure.
Scenario kinds: headon, oblique, edge (exact hit of an edge), corner (exact hit of a corner), multi (several hits in one
step near a corner), endhit (hit exactly at t = dt), graze (parallel to a wall / starting at distance eps-like),
percross (crosses a periodic face while hitting a wall), chord (bounce-back across a corner, many hits), fast
(displacement above one cell: only the KIND of outcome is compared), stoch (oracle only), force (oracle only).
Prints a JSON summary; exit status 1 on any disagreement or oracle failure.
"""
import sys, os, json, random, subprocess, shutil, tempfile
from fractions import Fraction as F
sys.path.insert(0, os.path.dirname(os.path.abspath(__file__)))
import symlib

SYMPLER = '/verif/.work/build-hooks/sympler'
SYMDRV = os.environ.get('SYMDRV', '/verif/lean/.lake/build/bin/symdrv')
EPS = F(1e-10)
DELTA = F(1e-5)
GEPS = F(1e-10)
TOL = F(1, 10 ** 12)
KINDS = ['headon', 'oblique', 'edge', 'corner', 'multi', 'endhit', 'graze', 'percross', 'chord', 'fast', 'stoch', 'force', 'pullback']
WEIGHTS = [3, 5, 2, 1, 4, 2, 2, 3, 1, 2, 3, 3, 3]


def dy(rng, lo, hi, bits):
    """random dyadic with `bits` fractional bits in [lo, hi]"""
    a, b = int(F(lo) * 2 ** bits), int(F(hi) * 2 ** bits)
    return F(rng.randint(a, b), 2 ** bits)


def pm2k(rng, kmin=0, kmax=4):
    return F(rng.choice([-1, 1]), 2 ** rng.randint(kmin, kmax))


def gen_box(rng, need_walls=1, need_per=0):
    while True:
        per = [rng.random() < 0.4 for _ in range(3)]
        if sum(1 for p in per if not p) >= need_walls and sum(1 for p in per if p) >= need_per:
            break
    rc = rng.choice([F(1), F(1), F(1, 2), F(3, 4)])
    n, L = [], []
    for d in range(3):
        nd = rng.randint(3, 5) if per[d] else rng.randint(2, 5)
        stretch = F(9, 8) if (rng.random() < 0.25 and nd <= 6) else F(1)
        n.append(nd)
        L.append(nd * rc * stretch)
    return dict(box=L, ncell=n, rc=rc, per=per, w=[L[d] / n[d] for d in range(3)])


def gen_scenario(rng, kind):
    need_walls = {'edge': 2, 'corner': 3, 'multi': 2, 'chord': 2}.get(kind, 1)
    need_per = 1 if kind == 'percross' else 0
    if kind == 'corner':
        need_per = 0
    b = gen_box(rng, need_walls, need_per)
    L, w, per = b['box'], b['w'], b['per']
    walls = [d for d in range(3) if not per[d]]
    steps = rng.randint(2, 5)
    refl = rng.choice(['mirror', 'bounceback'])
    force = None
    wmin = min(w)
    dt = rng.choice([F(1, 2), F(1, 4), F(3, 4), F(1, 8), F(1)])
    # generic start: well inside
    r = [dy(rng, F(1, 8), L[d] - F(1, 8), 6) for d in range(3)]
    v = [F(0)] * 3

    def cap(vd, d, frac=F(7, 8)):
        """scale a velocity component by powers of two until |v| dt < frac * w_d"""
        while abs(vd) * dt >= frac * w[d]:
            vd = vd / 2
        return vd

    def side_pos(d, hi, dist):
        return L[d] - dist if hi else dist

    if kind == 'headon':
        d = rng.choice(walls); hi = rng.random() < 0.5
        sp = cap(F(1, 2 ** rng.randint(0, 3)), d)
        dist = dy(rng, F(1, 64), sp * dt, 6) if sp * dt >= F(1, 64) else sp * dt / 2
        r[d] = side_pos(d, hi, dist)
        v[d] = sp if hi else -sp
    elif kind in ('oblique', 'stoch', 'force'):
        for d in range(3):
            v[d] = cap(pm2k(rng, 0, 3) + (pm2k(rng, 2, 5) if rng.random() < 0.5 else 0), d)
        d = rng.choice(walls); hi = v[d] > 0
        if v[d] == 0:
            v[d] = cap(F(1, 2), d); hi = True
        r[d] = side_pos(d, hi, dy(rng, F(1, 64), max(F(1, 64), abs(v[d]) * dt), 6))
        steps = rng.randint(3, 8)
        if kind == 'stoch':
            refl = 'stochastic'
        if kind == 'force':
            refl = rng.choice(['mirror', 'bounceback', 'stochastic'])
            fd = rng.choice(walls)
            force = [F(0)] * 3
            force[fd] = pm2k(rng, 0, 2)
            if rng.random() < 0.3:
                fd2 = rng.choice(range(3)); force[fd2] += pm2k(rng, 1, 3)
            steps = rng.randint(20, 60)
            dt = rng.choice([F(1, 8), F(1, 16)])
            v = [cap(x / 2, i, F(1, 4)) for i, x in enumerate(v)]
    elif kind == 'pullback':
        # a particle close to a wall that moves AWAY from it while a constant force pulls it back: it returns to the wall
        # within the step at the dyadic time t1 (distance chosen as a t1^2 - v t1, so the hit time equation has exact roots)
        d = rng.choice(walls); hi = rng.random() < 0.5
        dt = rng.choice([F(1, 8), F(1, 16), F(1, 4)])
        a = F(2 ** rng.randint(1, 4))                      # |F_d| / (2 m)
        t1 = dt * rng.choice([F(1, 4), F(1, 2), F(3, 4), F(1, 8)])
        vn = a * t1 * rng.choice([F(1, 2), F(1, 4), F(3, 4), F(1, 8)])
        dist = a * t1 * t1 - vn * t1
        for k in range(3):
            v[k] = cap(pm2k(rng, 1, 4), k, F(1, 4)) if rng.random() < 0.6 else F(0)
        v[d] = -vn if hi else vn
        r[d] = side_pos(d, hi, dist)
        force = [F(0)] * 3
        force[d] = 2 * a if hi else -2 * a
        refl = rng.choice(['mirror', 'bounceback', 'stochastic'])
        steps = rng.randint(2, 6)
    elif kind in ('edge', 'corner'):
        dirs = rng.sample(walls, 2 if kind == 'edge' else 3)
        thit = dt * rng.choice([F(1, 2), F(1, 4), F(3, 4)])
        for d in range(3):
            v[d] = cap(pm2k(rng, 0, 2), d)
        for d in dirs:
            hi = v[d] > 0
            target = L[d] if hi else F(0)
            r[d] = target - thit * v[d]
        # start cell adjacent to all walls hit, so that the walls are the cell's OWN walls (container order decides the tie)
    elif kind == 'multi':
        dirs = rng.sample(walls, min(len(walls), rng.choice([2, 2, 3])))
        for d in range(3):
            v[d] = cap(pm2k(rng, 0, 2) + (pm2k(rng, 3, 5) if rng.random() < 0.5 else 0), d)
        ths = rng.sample([F(1, 8), F(1, 4), F(3, 8), F(1, 2), F(5, 8), F(3, 4), F(7, 8)], len(dirs))
        for d, th in zip(dirs, ths):
            if v[d] == 0:
                v[d] = cap(F(1, 2), d)
            hi = v[d] > 0
            target = L[d] if hi else F(0)
            r[d] = target - th * dt * v[d]
    elif kind == 'endhit':
        d = rng.choice(walls)
        for k in range(3):
            v[k] = cap(pm2k(rng, 0, 3), k)
        hi = v[d] > 0
        r[d] = (L[d] if hi else F(0)) - dt * v[d]
    elif kind == 'graze':
        d = rng.choice(walls); hi = rng.random() < 0.5
        dist = rng.choice([F(1, 2 ** 8), F(1, 2 ** 12), F(1, 2 ** 16), F(1, 2 ** 20), F(1, 2 ** 24), F(1, 2 ** 30)])
        r[d] = side_pos(d, hi, dist)
        for k in range(3):
            v[k] = cap(pm2k(rng, 0, 3), k) if k != d else F(0)
        if rng.random() < 0.5:
            v[d] = (1 if hi else -1) * cap(F(1, 2 ** rng.randint(6, 12)), d)   # very flat incidence
    elif kind == 'percross':
        pd = rng.choice([d for d in range(3) if per[d]])
        d = rng.choice(walls)
        for k in range(3):
            v[k] = cap(pm2k(rng, 0, 2), k)
        hi = v[d] > 0
        r[d] = (L[d] if hi else F(0)) - rng.choice([F(1, 4), F(1, 2), F(3, 4)]) * dt * v[d]
        hip = v[pd] > 0
        r[pd] = (L[pd] if hip else F(0)) - rng.choice([F(1, 4), F(1, 2), F(3, 4)]) * dt * v[pd]
        if r[pd] >= L[pd]:
            r[pd] = L[pd] - F(1, 64)
    elif kind == 'chord':
        refl = 'bounceback'
        d1, d2 = rng.sample(walls, 2)
        h1, h2 = rng.random() < 0.5, rng.random() < 0.5
        a = F(1, 2 ** rng.randint(7, 10))
        r[d1] = side_pos(d1, h1, a / 2)
        r[d2] = side_pos(d2, h2, a / 2)
        sp = cap(F(1, 2), d1); sp = cap(sp, d2)
        v = [F(0)] * 3
        v[d1] = sp if h1 else -sp
        v[d2] = -sp if h2 else sp
        steps = 2
    elif kind == 'fast':
        d = rng.choice(range(3))
        for k in range(3):
            v[k] = cap(pm2k(rng, 0, 2), k)
        v[d] = rng.choice([-1, 1]) * w[d] * rng.choice([F(5, 4), F(3, 2), F(2), F(5, 2)]) / dt
        steps = 2
    # keep the start strictly inside
    for d in range(3):
        lo, hi = (F(0), L[d])
        if not (lo < r[d] < hi):
            r[d] = min(max(r[d], F(1, 64)), L[d] - F(1, 64))
    return dict(kind=kind, box=L, ncell=b['ncell'], rc=b['rc'], per=per, w=w, refl=refl, r=r, v=v, dt=dt, steps=steps,
                force=force)


def numtxt(q):
    q = F(q)
    return symlib.dec(q) if q >= 0 else '(0-%s)' % symlib.dec(-q)


def to_symlib(gs):
    mods = [['FPairVels', {'species1': 'A', 'species2': 'A', 'cutoff': gs['rc'], 'symmetry': -1, 'pairFactor': '0*[rij]'}]]
    if gs.get('force'):
        f = gs['force']
        mods.append(['FParticleVels', {'species': 'A',
                                       'expression': '(uVecX(%s)+uVecY(%s)+uVecZ(%s))' % tuple(numtxt(c) for c in f)}])
    rname = {'mirror': 'ReflectorMirror', 'bounceback': 'ReflectorBounceBack', 'stochastic': 'ReflectorStochastic'}[gs['refl']]
    return {'box': [symlib.rat(x) for x in gs['box']], 'periodic': list(gs['per']),
            'controller': {'dt': gs['dt'], 'timesteps': gs['steps']},
            'integrators': [['IntegratorVelocityVerlet', {'species': 'A', 'lambda': '1/2', 'mass': '1'}]],
            'modules': mods, 'boundary_children': [[rname, {}]],
            'particles': [{'species': 'A', 'r': list(gs['r']), 'v': list(gs['v'])}], 'species_order': ['A']}


def model_input(gs):
    R = symlib.rat
    return ['box ' + ' '.join(R(x) for x in gs['box']),
            'ncell ' + ' '.join(str(n) for n in gs['ncell']),
            'per ' + ' '.join('1' if p else '0' for p in gs['per']),
            'eps ' + R(EPS), 'delta ' + R(DELTA), 'geps ' + R(GEPS),
            'refl ' + gs['refl'], 'dt ' + R(gs['dt']), 'steps %d' % gs['steps'],
            'p ' + ' '.join(R(x) for x in list(gs['r']) + list(gs['v']))]


def run_models(cases):
    """cases: list of (tag, lines) -> dict tag -> output lines (one symdrv process)"""
    if not cases:
        return {}
    inp = ['model collide']
    for tag, lines in cases:
        inp.append('### ' + tag)
        inp += lines
    p = subprocess.run([SYMDRV], input=('\n'.join(inp) + '\n').encode(), stdout=subprocess.PIPE, stderr=subprocess.PIPE, timeout=600)
    if p.returncode != 0:
        raise RuntimeError('symdrv rc=%d %s' % (p.returncode, p.stderr.decode()[:300]))
    res, cur = {}, None
    for l in p.stdout.decode().splitlines():
        if l.startswith('### '):
            cur = l[4:]; res[cur] = []
        elif cur is not None:
            res[cur].append(l)
    return res


def parse_model(lines):
    """-> list per step: ('ok', r, v, cell, hits) | ('lost', hits) | ('err', kind)"""
    out = []
    for l in lines:
        w = l.split()
        if w[0] == 'err:input':
            return [('err', 'input')]
        k = w[2]
        if k == 'ok':
            nums = [F(x) for x in w[3:9]]
            out.append(('ok', nums[:3], nums[3:], [int(x) for x in w[9:12]], int(w[12].split('=')[1])))
        elif k == 'lost':
            out.append(('lost', int(w[3].split('=')[1])))
        else:
            out.append(('err', k.split(':')[1]))
    return out


def real_outcome(rc, out, steps_dump, nsteps):
    """per step: ('ok', r, v, cellidx or None) | ('gone',) ; plus error kind or None"""
    err = None
    if rc != 0:
        if 'More than 100 wall collisions' in out:
            err = 'toomanyhits'
        elif 'flew farther than' in out:
            err = 'flewtoofar'
        else:
            err = 'other'
    res = []
    for s in steps_dump:
        if s['step'] < 0:
            continue
        free = [p for p in s['particles'] if not p['frozen']]
        if not free:
            res.append(('gone',))
        else:
            p = free[0]
            cell = None
            for c in s['cells']:
                if p['slot'] in c['free'].get(p['colour'], []) or p['slot'] in c['inj'].get(p['colour'], []):
                    cell = c
            res.append(('ok', p['r'], p['v'], cell, len(free)))
    return res, err


def cell_index(gs, cell):
    if cell is None:
        return None
    return [int(F(cell['c1'][d]) / gs['w'][d] + F(1, 2)) for d in range(3)]


def compare(gs, model, real, err):
    """-> None or a description of the first disagreement"""
    fast = gs['kind'] == 'fast'
    # Exact ties (two wall planes reached at the same time): which wall is reflected at first - and so which coordinate gets the
    # 1e-10 displacement first - depends on the order of the wall TRIANGLES in the cell's list (own walls first, then those of the
    # neighbour cells); the model treats a face as the union of its two triangles.  Both orders satisfy the property; after a tie
    # positions are compared with 3 eps instead of 1e-12 (velocities, outcome and cell stay exact).
    tie = False
    prev = {'r': gs['r'], 'v': gs['v']}
    for k in range(gs['steps']):
        if not gs.get('force') and prev is not None:
            tie = tie or edge_in_step(gs, prev)
        rl0 = real[k] if k < len(real) else None
        prev = {'r': rl0[1], 'v': rl0[2]} if (rl0 is not None and rl0[0] == 'ok') else None
        m = model[k] if k < len(model) else None
        rl = real[k] if k < len(real) else None
        if m is None:
            return 'model output ends before step %d' % k
        if m[0] == 'err':
            if fast and rl is not None and rl[0] == 'gone' and err is None:
                return None          # the model reports the error the property demands; the real run erased the particle silently: oracle `C08-fast-lost-silently`
            if rl is not None:
                return 'step %d: model %s, real binary produced a state' % (k, m)
            if err != m[1]:
                return 'step %d: model err:%s, real error %s' % (k, m[1], err)
            return None
        if rl is None:
            return 'step %d: model %s, real run ended (error %s)' % (k, m[0], err)
        if m[0] == 'lost':
            if rl[0] != 'gone':
                return 'step %d: model lost, real particle present at %s' % (k, [float(x) for x in rl[1]])
            return None if err is None else 'model lost, real error %s' % err
        if rl[0] == 'gone':
            if fast and err is None:
                return None          # displacement above one cell and the particle silently erased: reported by the oracle, not a model question
            return 'step %d: model ok, real particle erased' % k
        if fast:
            continue
        _, mr, mv, mcell, _ = m
        _, rr, rv, rcell, _ = rl
        # A hit at the very end of the step (t = dt in exact arithmetic): after earlier hits with non-dyadic hit times the real position
        # carries one rounding, and whether the reflection is booked in this step or at the start of the next one is decided by that
        # rounding.  Both particles are AT the wall (within 2 eps) with opposite normal velocity: not a disagreement; the rest of the run
        # is shifted by one step and is not compared.
        flip = [d for d in range(3) if mv[d] != rv[d]]
        if len(flip) == 1 and not gs['per'][flip[0]] and mv[flip[0]] == -rv[flip[0]]:
            d = flip[0]
            wall = F(0) if min(mr[d], rr[d]) < gs['box'][d] / 2 else gs['box'][d]
            if abs(mr[d] - wall) <= 2 * EPS and abs(rr[d] - wall) <= 2 * EPS:
                return None
        for d in range(3):
            if mv[d] != rv[d]:
                return 'step %d: v[%d] model %s real %s' % (k, d, mv[d], rv[d])
            if abs(mr[d] - rr[d]) > (3 * EPS if tie else TOL):
                return 'step %d: r[%d] model %s real %s (diff %.3e)' % (k, d, float(mr[d]), float(rr[d]), float(mr[d] - rr[d]))
        ci = cell_index(gs, rcell)
        if ci is not None and ci != mcell:
            return 'step %d: cell model %s real %s' % (k, mcell, ci)
    if err is not None:
        return 'model ran all steps, real error %s' % err
    return None


def oracle(gs, dump, rc, out, err):
    """independent checks on the dump -> (failures [(signature, text)], observations [text])"""
    fails, obs = [], []
    L, per, dt = gs['box'], gs['per'], gs['dt']
    slow = all(abs(gs['v'][d]) * dt < gs['w'][d] for d in range(3)) and gs['kind'] != 'fast'
    forcefree = not gs.get('force')
    states = []
    for s in dump:
        free = [p for p in s['particles'] if not p['frozen']]
        states.append((s['step'], free))
    if not states:
        return [('no-dump', 'no observer dump')], obs
    n0 = len(states[0][1])
    if err == 'toomanyhits' and (slow or not forcefree):
        obs.append('more than 100 wall collisions with a displacement below one cell (run aborted)')
    elif rc != 0 and slow and forcefree:
        fails.append(('abort-below-one-cell', 'run aborted (%s) although |v| dt < cell width' % err))
    elif rc != 0 and not forcefree and err != 'flewtoofar':
        fails.append(('abort-with-force', 'run aborted (%s)' % err))
    prev = None
    edge = False
    onwall = False
    for step, free in states:
        if prev:
            edge = edge or (forcefree and edge_in_step(gs, prev[0]))
        # a particle lying EXACTLY in a wall plane (accelerated flight whose rounded end position is the wall coordinate): the hit at
        # t = 0 is rejected by WallTriangle::hit, it leaves the domain in the next step and is erased (same root as C08-edge-hit-lost)
        onwall = onwall or any((not per[d]) and (p['r'][d] == 0 or p['r'][d] == L[d]) for p in free for d in range(3))
        nf = len(fails)
        if len(free) != n0 and not slow and forcefree and rc == 0:
            # displacement above one cell: the property demands an ERROR; the particle was erased and the run went on
            fails.append(('C08-fast-lost-silently', 'step %d: |v| dt = %s cell widths, %d free particles (%d at the start) and no error reported'
                          % (step, [str(abs(gs['v'][d]) * dt / gs['w'][d]) for d in range(3)], len(free), n0)))
            break
        if len(free) != n0 and (slow or not forcefree):
            fails.append(('particle-lost', 'step %d: %d free particles, %d at the start' % (step, len(free), n0)))
            if edge:
                fails[nf:] = [('C08-edge-hit-lost/' + sig, text) for sig, text in fails[nf:]]
            elif onwall and not forcefree:
                fails[nf:] = [('C08-on-wall-plane-lost/' + sig, text) for sig, text in fails[nf:]]
            break
        for p in free:
            for d in range(3):
                x = p['r'][d]
                if per[d]:
                    if not (-GEPS <= x < L[d] + GEPS):
                        fails.append(('outside-periodic', 'step %d: r[%d]=%s outside [0,%s)' % (step, d, float(x), L[d])))
                elif not (0 < x < L[d]):
                    fails.append(('outside-wall', 'step %d: r[%d]=%.17g not strictly inside (0,%s)' % (step, d, float(x), L[d])))
        if prev is not None and free and prev and forcefree:
            p0, p1 = prev[0], free[0]
            s0 = sum(c * c for c in p0['v']); s1 = sum(c * c for c in p1['v'])
            if gs['refl'] == 'stochastic':
                if abs(s1 - s0) > F(1, 10 ** 12) * max(s0, F(1, 10 ** 6)):
                    fails.append(('speed-changed', 'step %d: |v|^2 %s -> %s' % (step, float(s0), float(s1))))
            elif s0 != s1:
                fails.append(('speed-changed', 'step %d: |v|^2 %s -> %s' % (step, s0, s1)))
            if gs['refl'] == 'bounceback':
                if p1['v'] != p0['v'] and p1['v'] != [-c for c in p0['v']]:
                    fails.append(('bounceback-law', 'step %d: v %s -> %s' % (step, p0['v'], p1['v'])))
            if gs['refl'] == 'mirror' and slow:
                for d in range(3):
                    x = p0['r'][d] + p0['v'][d] * dt
                    if per[d]:
                        want_v = p0['v'][d]
                        want_r = x - L[d] if x >= L[d] else (x + L[d] if x < 0 else x)
                        # a particle within geps outside its cell is not moved: accept the unwrapped value as well
                        okr = abs(p1['r'][d] - want_r) <= TOL or abs(p1['r'][d] - x) <= TOL
                    else:
                        if x <= 0:
                            want_r, want_v = EPS - x, -p0['v'][d]
                        elif x >= L[d]:
                            want_r, want_v = 2 * L[d] - EPS - x, -p0['v'][d]
                        else:
                            want_r, want_v = x, p0['v'][d]
                        okr = abs(p1['r'][d] - want_r) <= TOL
                    if p1['v'][d] != want_v:
                        fails.append(('mirror-law', 'step %d dir %d: v %s -> %s, expected %s' % (step, d, p0['v'][d], p1['v'][d], want_v)))
                    elif not okr:
                        fails.append(('mirror-law', 'step %d dir %d: r %.17g, expected %.17g' % (step, d, float(p1['r'][d]), float(want_r))))
        if edge:
            fails[nf:] = [('C08-edge-hit-lost/' + sig, text) for sig, text in fails[nf:]]
        elif onwall and not forcefree:
            fails[nf:] = [('C08-on-wall-plane-lost/' + sig, text) for sig, text in fails[nf:]]
        prev = free
    return fails, obs


def edge_in_step(gs, p):
    """independent detection of the known failure mode from a dumped state: within the coming step two wall planes
    (non-periodic directions) are reached at exactly the same time on the unreflected path (for `ReflectorMirror` the first
    crossing time of a direction does not depend on reflections in other directions), or the particle already lies exactly
    in a wall plane (what an exact edge hit leaves behind)"""
    ts = []
    for d in range(3):
        if gs['per'][d]:
            continue
        x, v = p['r'][d], p['v'][d]
        if x == 0 or x == gs['box'][d]:
            return True
        if v == 0:
            continue
        t = (gs['box'][d] - x) / v if v > 0 else -x / v
        if 0 < t <= gs['dt']:
            ts.append(t)
    return len(ts) != len(set(ts))


CORPUS = [
    # known finding C08-edge-hit-lost: exact edge hit with ReflectorMirror
    dict(kind='edge', box=[F(4), F(4), F(4)], ncell=[4, 4, 4], rc=F(1), per=[False, False, True], refl='mirror',
         r=[F(1, 2), F(1, 2), F(2)], v=[F(-1), F(-1), F(0)], dt=F(3, 4), steps=1, force=None),
    # known finding C08-fast-lost-silently: 2.5 cell widths per step along a periodic direction, the wall hit lies two cells away
    dict(kind='fast', box=[F(9, 4), F(9, 4), F(15, 4)], ncell=[3, 3, 5], rc=F(3, 4), per=[False, True, False], refl='bounceback',
         r=[F(49, 32), F(77, 64), F(11, 64)], v=[F(1), F(-15, 2), F(-1)], dt=F(1, 4), steps=2, force=None),
    # earlier false alarm (thorough tier): exact edge hit with bounce-back where the real wall order differs from the model's
    dict(kind='edge', box=[F(5, 2), F(2), F(3, 2)], ncell=[5, 4, 3], rc=F(1, 2), per=[True, False, False], refl='bounceback',
         r=[F(151, 64), F(119, 64), F(9, 32)], v=[F(1, 2), F(1, 4), F(-1, 2)], dt=F(3, 4), steps=4, force=None),
    # known finding C08-on-wall-plane-lost: accelerated flight whose rounded end position is exactly the wall coordinate
    dict(kind='force', box=[F(4), F(4), F(4)], ncell=[4, 4, 4], rc=F(1), per=[True, False, False], refl='bounceback',
         r=[F(43, 64), F(51, 16), F(249, 64)], v=[F(1, 4), F(-3, 64), F(5, 16)], dt=F(1, 8), steps=32, force=[F(0), F(1, 4), F(1)]),
    # earlier false alarm (thorough tier): a hit exactly at the end of a step after a hit with a non-dyadic hit time
    dict(kind='oblique', box=[F(2), F(3), F(4)], ncell=[2, 3, 4], rc=F(1), per=[False, False, False], refl='mirror',
         r=[F(1, 64), F(17, 16), F(3, 4)], v=[F(-3, 16), F(1, 8), F(-1, 2)], dt=F(3, 4), steps=5, force=None),
    # the demonstration of a receding particle pulled back into the wall (accelerated flight)
    dict(kind='pullback', box=[F(4), F(4), F(4)], ncell=[4, 4, 4], rc=F(1), per=[False, False, False], refl='mirror',
         r=[F(2), F(2), F(1, 256)], v=[F(0), F(0), F(1, 8)], dt=F(1, 8), steps=4, force=[F(0), F(0), F(-16)]),
]


def main(argv):
    if len(argv) < 3:
        print(__doc__); return 2
    seed, ncases = int(argv[1]), int(argv[2])
    keep = argv[argv.index('--keep') + 1] if '--keep' in argv else None
    binary = argv[argv.index('--sympler') + 1] if '--sympler' in argv else SYMPLER
    only = argv[argv.index('--only') + 1] if '--only' in argv else None
    verbose = '--verbose' in argv
    rng = random.Random(seed)
    base = keep or tempfile.mkdtemp(prefix='corr_walls_')
    os.makedirs(base, exist_ok=True)
    summ = dict(seed=seed, ncases=ncases, kinds={}, periodic_combos={}, reflectors={}, compared_cases=0, compared_steps=0,
                oracle_cases=0, oracle_steps=0, hits_total=0, max_hits_in_step=0, steps_with_ge2_hits=0, model_lost=0, model_err={},
                agree=0, disagreements=[], oracle_failures=[], observations=[], eps=str(EPS), pos_tolerance='1e-12',
                velocity_comparison='exact')
    scen = []
    if '--corpus' in argv:
        # fixed scenarios that run on every check: minimised past failures (the recorded known findings, earlier false alarms)
        for i, gs in enumerate(CORPUS):
            gs = dict(gs); gs['id'] = 'k%04d' % i
            gs['w'] = [gs['box'][d] / gs['ncell'][d] for d in range(3)]
            scen.append(gs)
        ncases = 0
    for i in range(ncases):
        kind = only or rng.choices(KINDS, WEIGHTS)[0]
        gs = gen_scenario(rng, kind)
        gs['id'] = 'c%04d' % i
        scen.append(gs)
    models = run_models([(gs['id'], model_input(gs)) for gs in scen if gs['refl'] != 'stochastic' and not gs.get('force')])
    for gs in scen:
        d = os.path.join(base, gs['id'])
        if os.path.exists(d):
            shutil.rmtree(d)
        symlib.write_case(d, to_symlib(gs))
        for attempt in range(30):           # the hooked binary may be re-linked by a concurrent check
            try:
                rc, out = symlib.run_sympler(d, binary)
                break
            except (PermissionError, OSError):
                import time
                time.sleep(2)
        else:
            raise RuntimeError('cannot execute ' + binary)
        try:
            dump = symlib.parse_obs(os.path.join(d, 'obs.txt'))
        except Exception:
            dump = []
        summ['kinds'][gs['kind']] = summ['kinds'].get(gs['kind'], 0) + 1
        pc = ''.join('p' if p else 'w' for p in gs['per'])
        summ['periodic_combos'][pc] = summ['periodic_combos'].get(pc, 0) + 1
        summ['reflectors'][gs['refl']] = summ['reflectors'].get(gs['refl'], 0) + 1
        if rc != 0 and 'no free particles found' in out:
            # the particle creator refuses particles (nearly) on a wall: not part of C08
            summ['setup_rejected'] = summ.get('setup_rejected', 0) + 1
            summ.setdefault('setup_rejected_min_wall_distance', []).append(
                str(min(min(gs['r'][d], gs['box'][d] - gs['r'][d]) for d in range(3) if not gs['per'][d])))
            if not keep:
                shutil.rmtree(d, ignore_errors=True)
            continue
        real, err = real_outcome(rc, out, dump, gs['steps'])
        desc = dict(id=gs['id'], kind=gs['kind'], box=[str(x) for x in gs['box']], ncell=gs['ncell'], cutoff=str(gs['rc']),
                    periodic=gs['per'], reflector=gs['refl'], r=[str(x) for x in gs['r']], v=[str(x) for x in gs['v']],
                    dt=str(gs['dt']), steps=gs['steps'], force=[str(x) for x in gs['force']] if gs.get('force') else None)
        # ---- correspondence
        if gs['id'] in models:
            model = parse_model(models[gs['id']])
            summ['compared_cases'] += 1
            for m in model:
                if m[0] == 'ok':
                    summ['compared_steps'] += 1
                    summ['hits_total'] += m[4]
                    summ['max_hits_in_step'] = max(summ['max_hits_in_step'], m[4])
                    if m[4] >= 2: summ['steps_with_ge2_hits'] += 1
                elif m[0] == 'lost':
                    summ['model_lost'] += 1
                else:
                    summ['model_err'][m[1]] = summ['model_err'].get(m[1], 0) + 1
            dis = compare(gs, model, real, err)
            if dis is None:
                summ['agree'] += 1
            else:
                summ['disagreements'].append(dict(desc, what=dis, model=models[gs['id']][:3]))
            if verbose:
                print(gs['id'], gs['kind'], gs['refl'], 'per=' + pc, 'model:', [m[0] if m[0] != 'ok' else 'ok/%d' % m[4] for m in model],
                      'real err:', err, 'DIS: ' + dis if dis else 'agree', file=sys.stderr)
        # ---- oracles
        fails, obs = oracle(gs, dump, rc, out, err)
        summ['oracle_cases'] += 1
        summ['oracle_steps'] += max(0, len(dump) - 1)
        seen = set()
        for sig, text in fails:
            if sig in seen:
                continue
            seen.add(sig)
            summ['oracle_failures'].append(dict(desc, signature=sig, what=text))
        for o in obs:
            summ['observations'].append(dict(desc, what=o))
        if verbose and (fails or obs):
            print(gs['id'], 'ORACLE', fails, obs, file=sys.stderr)
        if not keep:
            shutil.rmtree(d, ignore_errors=True)
    if not keep:
        shutil.rmtree(base, ignore_errors=True)
    summ['n_disagreements'] = len(summ['disagreements'])
    summ['n_oracle_failures'] = len(summ['oracle_failures'])
    summ['oracle_failure_signatures'] = sorted({f['signature'] for f in summ['oracle_failures']})
    summ['n_observations'] = len(summ['observations'])
    summ['disagreements'] = summ['disagreements'][:10]
    summ['oracle_failures'] = summ['oracle_failures'][:10]
    summ['observations'] = summ['observations'][:5]
    print(json.dumps(summ, indent=1, default=str))
    return 1 if (summ['n_disagreements'] or summ['n_oracle_failures']) else 0


if __name__ == '__main__':
    sys.exit(main(sys.argv))
