#!/usr/bin/env python3
"""Generator of op-sequence cases for the C14 correspondence check (DataFormat / Data).

usage: gen_dataformat.py <seed> <ncases> <maxlen>   > cases.txt   2> histogram.json

One stream; every case starts with `case <id> align <n>|none`.  Everything is drawn from ONE
PRNG seeded with <seed>.  The protocol is described in /verif/lean/Sympler/DataFormatDriver.lean.
A light shadow of the objects is kept only to bias the choice towards operations that are
defined; about one operation in ten is drawn without looking at the shadow.  The last case block
is a small malformed stream.  A histogram of what was generated is written to stderr as JSON.
"""
import json
import random
import sys
from collections import Counter
from fractions import Fraction

TYPES = ["INT", "DOUBLE", "INT_POINT", "POINT", "TENSOR", "STRING",
         "VECTOR_INT", "VECTOR_DOUBLE", "VECTOR_POINT", "VECTOR_TENSOR"]
CONTAINERS = {"VECTOR_INT", "VECTOR_DOUBLE", "VECTOR_POINT", "VECTOR_TENSOR"}
ELEM_OF = {"VECTOR_INT": "INT", "VECTOR_DOUBLE": "DOUBLE", "VECTOR_POINT": "POINT", "VECTOR_TENSOR": "TENSOR"}
NAMES = ["a", "b", "c", "d", "e", "f", "g", "h", "rho", "v", "F", "n_cells", "__data_format", "T", "x1", "x2"]
STRCHARS = "abcxyzABC 0123456789_-+.,()[]:;"

H = Counter()          # histogram
rng = None


def hist(kind, key):
    H[kind + ":" + str(key)] += 1


# ------------------------------------------------------------------ values

def rat_str(fr):
    fr = Fraction(fr)
    return str(fr.numerator) if fr.denominator == 1 else "%d/%d" % (fr.numerator, fr.denominator)


def tie_free(fr):
    """a non-dyadic decimal must not sit exactly on a 6-digit rounding tie"""
    s = "%.20e" % float(fr)
    digits = s.replace("-", "").replace(".", "").split("e")[0]
    tail = digits[6:]
    return not (tail.startswith("5") and set(tail[1:]) <= {"0"}) and not (tail.startswith("4999999999"))


def gen_double():
    """a rational that is either dyadic or a short decimal, classes weighted"""
    c = rng.choice(["zero", "smallint", "neg", "tiny", "large", "six", "dyadic", "dyadic7", "dec8", "sci"])
    hist("dblclass", c)
    if c == "zero":
        return Fraction(0)
    if c == "smallint":
        return Fraction(rng.randint(-20, 20))
    if c == "neg":
        return -Fraction(rng.randint(1, 99999), 10 ** rng.randint(0, 4))
    if c == "tiny":
        return Fraction(rng.randint(1, 999999), 10 ** rng.randint(9, 15)) * rng.choice([1, -1])
    if c == "large":
        return Fraction(rng.randint(1, 999999) * 10 ** rng.randint(1, 9)) * rng.choice([1, 1, -1])
    if c == "six":
        return Fraction(rng.randint(100000, 999999), 10 ** rng.randint(0, 12)) * rng.choice([1, -1])
    if c == "dyadic":
        return Fraction(rng.randint(-4096, 4096), 2 ** rng.randint(0, 10))
    if c == "dyadic7":  # more than six significant digits, exactly representable: rounding visible
        return Fraction(rng.randint(1000000, 2 ** 30), 2 ** rng.randint(0, 5)) * rng.choice([1, -1])
    if c == "dec8":
        while True:
            fr = Fraction(rng.randint(10000000, 9999999999), 10 ** rng.randint(0, 14))
            if tie_free(fr):
                return fr
    # sci: exponent form both ways
    return Fraction(rng.randint(1, 999999)) * Fraction(10) ** rng.randint(-14, 9) if rng.random() < 0.5 \
        else Fraction(rng.randint(1, 9)) / Fraction(10) ** rng.randint(5, 15)


def clamp15(fr):
    fr = Fraction(fr)
    if len(str(abs(fr.numerator))) > 15 or len(str(fr.denominator)) > 15:
        return Fraction(rng.randint(-999, 999), 8)
    return fr


def gen_int():
    c = rng.choice(["zero", "small", "neg", "big"])
    hist("intclass", c)
    return {"zero": 0, "small": rng.randint(1, 100), "neg": -rng.randint(1, 99999),
            "big": rng.randint(100000, 999999999) * rng.choice([1, -1])}[c]


def gen_string():
    c = rng.choice(["word", "spaces", "empty", "long", "brackets", "numeric"])
    hist("strclass", c)
    if c == "word":
        return "".join(rng.choice("abcxyz") for _ in range(rng.randint(1, 8)))
    if c == "spaces":
        return " " + "".join(rng.choice("ab ") for _ in range(rng.randint(1, 8))) + " "
    if c == "empty":
        return ""
    if c == "long":
        return "".join(rng.choice(STRCHARS) for _ in range(rng.randint(16, 60)))
    if c == "brackets":
        return rng.choice(["]", "[", "a]b[c", "(1, 2, 3)", "]]", "x ]"])
    return rng.choice(["12", "-3.5", "1e+06", "(1, 2, 3)"])


def gen_value(t):
    if t == "INT":
        return "int:%d" % gen_int()
    if t == "DOUBLE":
        return "dbl:" + rat_str(clamp15(gen_double()))
    if t == "INT_POINT":
        return "ipt:" + ",".join(str(gen_int()) for _ in range(3))
    if t == "POINT":
        return "pt:" + ",".join(rat_str(clamp15(gen_double())) for _ in range(3))
    if t == "TENSOR":
        return "tens:" + ",".join(rat_str(clamp15(gen_double())) for _ in range(9))
    if t == "STRING":
        return "str:[" + gen_string() + "]"
    return None


def fmt_g(fr):
    return "%g" % float(Fraction(fr))


def gen_num_text():
    """text of one number for atof/atoi, well formed and not"""
    c = rng.choice(["g", "g", "g", "plain", "plus", "dotlead", "dottrail", "expE", "space", "junk", "empty",
                    "signonly", "eonly", "edangling", "twosign", "intdot"])
    hist("numtext", c)
    v = clamp15(gen_double())
    if c == "g":
        return fmt_g(v)
    if c == "plain":
        return str(rng.randint(-99999, 99999))
    if c == "plus":
        return "+" + fmt_g(abs(v))
    if c == "dotlead":
        return ".%d" % rng.randint(0, 99999)
    if c == "dottrail":
        return "%d." % rng.randint(0, 99999)
    if c == "expE":
        return "%dE%d" % (rng.randint(1, 999), rng.randint(-12, 9))
    if c == "space":
        return "  " + fmt_g(v)
    if c == "junk":
        return fmt_g(v) + rng.choice(["t", " 7", "e", "..", "-", "+3", "n", "ee5"])
    if c == "empty":
        return ""
    if c == "signonly":
        return rng.choice(["-", "+", "-."])
    if c == "eonly":
        return "e5"
    if c == "edangling":
        return "%de%s" % (rng.randint(1, 99), rng.choice(["", "+", "-"]))
    if c == "twosign":
        return "--1"
    return "%d.%d" % (rng.randint(0, 999), rng.randint(0, 999))


def gen_text(t):
    """text for fromstr on an attribute of type t"""
    if t == "STRING":
        return gen_string()
    if t in ("INT", "DOUBLE"):
        return gen_num_text()
    if t == "POINT":
        c = rng.choice(["ok", "ok", "ok", "nospace", "noparen", "short", "extra", "junk"])
        hist("pointtext", c)
        xs = [gen_num_text() for _ in range(3)]
        if c == "ok":
            return "(" + ", ".join(xs) + ")"
        if c == "nospace":
            return "(" + ",".join(xs) + ")"
        if c == "noparen":
            return ", ".join(xs)
        if c == "short":
            return "(" + ", ".join(xs[:2]) + ")"
        if c == "extra":
            return "  ((" + ", ".join(xs) + "), " + xs[0] + ")"
        return rng.choice(["", "(", ")", ",,,", "())(", "(1,2", "1 2 3"])
    if t == "TENSOR":
        c = rng.choice(["ok", "ok", "ok", "noprefix", "short", "junk"])
        hist("tensortext", c)
        rows = ["(" + ", ".join(gen_num_text() for _ in range(3)) + ")" for _ in range(3)]
        if c == "ok":
            return "tensor(" + ", ".join(rows) + ")"
        if c == "noprefix":
            return "(" + ", ".join(rows) + ")"
        if c == "short":
            return "tensor(" + ", ".join(rows[:2]) + ")"
        return rng.choice(["", "tensor", "tensor(", "tensor((1, 2, 3))", "((((", "tensor(1, 2, 3)"])
    return rng.choice(["", "1 2 3", "0"])


# ------------------------------------------------------------------ shadow of the objects

class Fmt:
    def __init__(self):
        self.attrs = []       # [name, type, pers]

    def copy(self):
        f = Fmt()
        f.attrs = [list(a) for a in self.attrs]
        return f

    def find(self, name):
        for a in self.attrs:
            if a[0] == name:
                return a
        return None


class Dat:
    def __init__(self, fmt, nvals):
        self.fmt = fmt        # index or None
        self.nvals = nvals    # attributes inside the block; None: no block
        self.live_str = set()
        self.null_sp = set()


class Case:
    def __init__(self, cid, align, maxlen):
        self.lines = ["case %s align %s" % (cid, align)]
        self.fmts = []
        self.dats = []        # Dat or None (deleted)
        self.maxlen = maxlen
        self.n = 0

    def emit(self, line):
        self.lines.append(line)
        self.n += 1
        hist("op", line.split(" ")[0] if line.strip() else "(blank)")

    # -- helpers
    def live(self):
        return [i for i, d in enumerate(self.dats) if d is not None]

    def usable(self):
        """records with a format and a block that is not stale"""
        r = []
        for i in self.live():
            d = self.dats[i]
            if d.fmt is not None and d.nvals is not None and d.nvals == len(self.fmts[d.fmt].attrs):
                r.append(i)
        return r

    def dump_all(self):
        for i in self.live():
            self.emit("dump %d" % i)

    def add_args(self, f, conflict_bias=0.15):
        fm = self.fmts[f] if f is not None and f < len(self.fmts) else Fmt()
        r = rng.random()
        if fm.attrs and r < conflict_bias:
            a = rng.choice(fm.attrs)
            if rng.random() < 0.5:
                hist("addkind", "same")
                return a[0], a[1], rng.randint(0, 1), rng.choice(["-", "q"])
            hist("addkind", "conflict")
            return a[0], rng.choice([t for t in TYPES if t != a[1]]), rng.randint(0, 1), "-"
        hist("addkind", "new")
        name = rng.choice(NAMES) if rng.random() < 0.3 else "k%d" % rng.randint(0, 999)
        t = rng.choice(TYPES)
        hist("type", t)
        return name, t, rng.randint(0, 1), rng.choice(["-", "-", "s%d" % rng.randint(0, 9)])

    def do_fadd(self, f, args=None):
        name, t, pers, sym = args or self.add_args(f)
        self.emit("fadd %d %s %s %d %s" % (f, name, t, pers, sym))
        if f < len(self.fmts) and self.fmts[f].find(name) is None:
            self.fmts[f].attrs.append([name, t, pers])

    def do_new(self, f):
        self.emit("new %d" % f)
        if f < len(self.fmts):
            n = len(self.fmts[f].attrs)
            self.dats.append(Dat(f, n if n else None))

    def do_set(self, d, i):
        dat = self.dats[d]
        t = self.fmts[dat.fmt].attrs[i][1]
        if t in CONTAINERS:
            e = ELEM_OF[t]
            for _ in range(rng.randint(1, 3)):
                self.emit("push %d %d %s" % (d, i, gen_value(e)))
        else:
            v = gen_value(t)
            if t == "STRING":
                if v == "str:[]" and i not in dat.live_str and rng.random() < 0.8:
                    v = "str:[z]"
                dat.live_str.add(i)
            self.emit("set %d %d %s" % (d, i, v))

    def random_op(self):
        """an operation drawn without looking at the shadow (mostly ids in range)"""
        nd, nf = max(1, len(self.dats)), max(1, len(self.fmts))
        d, e, f, i = rng.randint(0, nd), rng.randint(0, nd), rng.randint(0, nf), rng.randint(0, 6)
        hist("wild", 1)
        t = rng.choice(TYPES)
        c = rng.choice(["copy", "assign", "del", "setfmt", "release", "realloc", "clear", "clearall", "protect",
                        "unprotect", "set", "get", "push", "rc", "tostr", "fromstr", "dadd", "new0", "new"])
        if c in ("copy", "del", "release", "realloc", "clear", "clearall"):
            self.emit("%s %d" % (c, d))
        elif c == "assign":
            self.emit("assign %d %d" % (d, e))
        elif c in ("setfmt",):
            self.emit("setfmt %d %d" % (d, f))
        elif c in ("protect", "unprotect", "get", "rc", "tostr"):
            self.emit("%s %d %d" % (c, d, i))
        elif c == "set":
            self.emit("set %d %d %s" % (d, i, gen_value(rng.choice(TYPES[:6]))))
        elif c == "push":
            self.emit("push %d %d %s" % (d, i, gen_value(rng.choice(["INT", "DOUBLE", "POINT", "TENSOR"]))))
        elif c == "fromstr":
            self.emit("fromstr %d %d [%s]" % (d, i, gen_text(t)))
        elif c == "dadd":
            self.emit("dadd %d k%d %s %d -" % (d, rng.randint(0, 99), t, rng.randint(0, 1)))
        elif c == "new0":
            self.emit("new0")
        else:
            self.emit("new %d" % f)
        # the shadow is no longer reliable for the touched record: forget it
        self.resync_after_wild(c, d, e, f)

    def resync_after_wild(self, c, d, e, f):
        # keep the shadow roughly right for the common cases; precision is not needed
        if c == "new0":
            self.dats.append(Dat(None, None))
        elif c == "new" and f < len(self.fmts):
            n = len(self.fmts[f].attrs)
            self.dats.append(Dat(f, n if n else None))
        elif c == "copy" and d < len(self.dats) and self.dats[d] is not None:
            s = self.dats[d]
            x = Dat(s.fmt, s.nvals)
            self.dats.append(x)
        elif c == "del" and d < len(self.dats):
            self.dats[d] = None
        elif d < len(self.dats) and self.dats[d] is not None:
            x = self.dats[d]
            if c in ("clear", "clearall") and x.fmt is not None and x.nvals:
                for k, a in enumerate(self.fmts[x.fmt].attrs[:x.nvals]):
                    if c == "clearall" or not a[2]:
                        if a[1] in CONTAINERS:
                            x.null_sp.add(k)
                        x.live_str.discard(k)
            elif c == "release":
                x.nvals = None
            elif c == "realloc" and x.fmt is not None:
                n = len(self.fmts[x.fmt].attrs)
                x.nvals, x.live_str, x.null_sp = (n if n else None), set(), set()
            elif c == "setfmt" and f < len(self.fmts):
                n = len(self.fmts[f].attrs)
                x.fmt, x.nvals, x.live_str, x.null_sp = f, (n if n else None), set(), set()
            elif c == "assign" and e < len(self.dats) and self.dats[e] is not None:
                s = self.dats[e]
                x.fmt, x.nvals, x.live_str, x.null_sp = s.fmt, s.nvals, set(s.live_str), set()


# ------------------------------------------------------------------ case kinds

def pick_align():
    r = rng.random()
    a = "3" if r < 0.7 else ("none" if r < 0.85 else str(rng.choice([0, 1, 2, 4, 5, 6])))
    hist("align", a)
    return a


def case_layout(cid, maxlen):
    c = Case(cid, pick_align(), maxlen)
    c.emit("fmt")
    c.fmts.append(Fmt())
    for _ in range(rng.randint(2, max(3, maxlen - 4))):
        c.do_fadd(0, c.add_args(0, conflict_bias=0.3))
        if rng.random() < 0.15:
            c.emit("layout 0")
    c.emit("layout 0")
    if rng.random() < 0.5:
        c.emit("fmtcopy 0")
        c.fmts.append(c.fmts[0].copy())
        c.do_fadd(1)
        c.emit("layout 1")
        c.emit("layout 0")
    return c


def build_format(c, f, n, strings=True):
    for _ in range(n):
        args = c.add_args(f, conflict_bias=0.1)
        if not strings and args[1] == "STRING":
            args = (args[0], "DOUBLE", args[2], args[3])
        c.do_fadd(f, args)


def case_records(cid, maxlen):
    """copy / assign chains, sets, pushes, clears, dumps of every live record after each change"""
    c = Case(cid, pick_align(), maxlen)
    nf = rng.choice([1, 1, 2])
    with_strings = rng.random() < 0.3
    for f in range(nf):
        c.emit("fmt")
        c.fmts.append(Fmt())
        build_format(c, f, rng.randint(1, 6), strings=with_strings)
    c.emit("layout 0")
    c.do_new(0)
    while c.n < maxlen:
        if rng.random() < 0.1:
            c.random_op()
            c.dump_all()
            continue
        us = c.usable()
        if not us:
            c.do_new(rng.randrange(nf))
            continue
        d = rng.choice(us)
        dat = c.dats[d]
        attrs = c.fmts[dat.fmt].attrs
        ok_copy = not dat.live_str and not dat.null_sp
        r = rng.random()
        if r < 0.30 and attrs:
            i = rng.randrange(len(attrs))
            if i in dat.null_sp and rng.random() < 0.9:
                continue
            c.do_set(d, i)
        elif r < 0.42:
            if ok_copy or rng.random() < 0.1:
                c.emit("copy %d" % d)
                x = Dat(dat.fmt, dat.nvals)
                c.dats.append(x)
        elif r < 0.54:
            e = rng.choice(us)
            src = c.dats[e]
            if (not src.live_str and not src.null_sp) or rng.random() < 0.1:
                c.emit("assign %d %d" % (d, e))   # includes d == e
                dat.fmt, dat.nvals = src.fmt, src.nvals
                dat.live_str, dat.null_sp = set(src.live_str), set()
        elif r < 0.62:
            cmd = rng.choice(["clear", "clear", "clearall"])
            c.emit("%s %d" % (cmd, d))
            for k, a in enumerate(attrs):
                if cmd == "clearall" or not a[2]:
                    if a[1] in CONTAINERS:
                        dat.null_sp.add(k)
                    dat.live_str.discard(k)
        elif r < 0.67 and attrs:
            c.emit("%s %d %d" % (rng.choice(["protect", "unprotect"]), d, rng.randrange(len(attrs))))
            # the shadow's persistence: re-read at clear time is not needed precisely
            a = attrs[int(c.lines[-1].split()[2])]
            a[2] = 1 if c.lines[-1].startswith("protect") else 0
        elif r < 0.72:
            c.do_new(rng.randrange(nf))
        elif r < 0.76 and len(c.live()) > 1:
            c.emit("del %d" % d)
            c.dats[d] = None
        elif r < 0.80 and attrs:
            i = rng.randrange(len(attrs))
            c.emit(rng.choice(["get %d %d", "rc %d %d", "tostr %d %d"]) % (d, i))
        elif r < 0.84:
            c.emit("realloc %d" % d)
            dat.live_str, dat.null_sp = set(), set()
        elif r < 0.88:
            f = rng.randrange(nf)
            c.emit("setfmt %d %d" % (d, f))
            n = len(c.fmts[f].attrs)
            dat.fmt, dat.nvals, dat.live_str, dat.null_sp = f, (n if n else None), set(), set()
        elif r < 0.93:
            # grow through the record: the others of the same format become stale
            name, t, pers, sym = c.add_args(dat.fmt, conflict_bias=0.3)
            c.emit("dadd %d %s %s %d %s" % (d, name, t, pers, sym))
            if c.fmts[dat.fmt].find(name) is None:
                c.fmts[dat.fmt].attrs.append([name, t, pers])
                dat.nvals += 1
        elif r < 0.96:
            c.emit("new0")
            c.dats.append(Dat(None, None))
        else:
            c.emit("layout %d" % rng.randrange(nf))
        c.dump_all()
    c.dump_all()
    for i in c.live():
        d = c.dats[i]
        if d.fmt is not None and d.nvals:
            for k in range(d.nvals):
                if c.fmts[d.fmt].attrs[k][1] in CONTAINERS and k not in d.null_sp:
                    c.emit("rc %d %d" % (i, k))
    # the character buffers of STRING attributes are never freed by the code: only ask
    # LeakSanitizer when no format of the case has one
    if not any(a[1] == "STRING" for f in c.fmts for a in f.attrs):
        c.emit("leakcheck")
    return c


def case_text(cid, maxlen):
    """text round trips: set / tostr / fromstr with the text %g prints / get"""
    c = Case(cid, pick_align(), maxlen)
    c.emit("fmt")
    c.fmts.append(Fmt())
    types = ["INT", "DOUBLE", "POINT", "TENSOR", "STRING"] + [rng.choice(TYPES) for _ in range(2)]
    rng.shuffle(types)
    for k, t in enumerate(types):
        hist("type", t)
        c.do_fadd(0, ("t%d" % k, t, rng.randint(0, 1), "-"))
    c.do_new(0)
    dat = c.dats[0]
    while c.n < maxlen:
        i = rng.randrange(len(types))
        t = types[i]
        r = rng.random()
        if r < 0.45 and t in ("INT", "DOUBLE", "POINT", "TENSOR", "STRING"):
            # full round trip through the text the code prints
            hist("roundtrip", t)
            if t == "INT":
                v = gen_int()
                c.emit("set 0 %d int:%d" % (i, v))
                text = "%d" % v
            elif t == "DOUBLE":
                v = clamp15(gen_double())
                c.emit("set 0 %d dbl:%s" % (i, rat_str(v)))
                text = fmt_g(v)
            elif t == "POINT":
                vs = [clamp15(gen_double()) for _ in range(3)]
                c.emit("set 0 %d pt:%s" % (i, ",".join(map(rat_str, vs))))
                text = "(" + ", ".join(map(fmt_g, vs)) + ")"
            elif t == "TENSOR":
                vs = [clamp15(gen_double()) for _ in range(9)]
                c.emit("set 0 %d tens:%s" % (i, ",".join(map(rat_str, vs))))
                text = "tensor(" + ", ".join("(" + ", ".join(map(fmt_g, vs[3 * a:3 * a + 3])) + ")"
                                              for a in range(3)) + ")"
            else:
                s = gen_string()
                if s == "" and i not in dat.live_str and rng.random() < 0.8:
                    s = "q"
                dat.live_str.add(i)
                c.emit("set 0 %d str:[%s]" % (i, s))
                text = s
            c.emit("tostr 0 %d" % i)
            c.emit("set 0 %d %s" % (i, {"INT": "int:0", "DOUBLE": "dbl:0", "POINT": "pt:0,0,0",
                                        "TENSOR": "tens:0,0,0,0,0,0,0,0,0", "STRING": "str:[other]"}[t]))
            c.emit("fromstr 0 %d [%s]" % (i, text))
            c.emit("get 0 %d" % i)
            c.emit("tostr 0 %d" % i)
        elif r < 0.85:
            text = gen_text(t)
            if t == "STRING":
                if text == "" and i not in dat.live_str and rng.random() < 0.8:
                    text = "w"
                dat.live_str.add(i)
            c.emit("fromstr 0 %d [%s]" % (i, text))
            c.emit("get 0 %d" % i)
            c.emit("tostr 0 %d" % i)
        elif r < 0.95 and t in CONTAINERS:
            c.do_set(0, i)
            c.emit("tostr 0 %d" % i)
        else:
            c.emit("tostr 0 %d" % i)
    c.emit("dump 0")
    return c


def case_growth(cid, maxlen):
    """formats that grow after records exist: stale blocks, Data::addAttribute, empty formats"""
    c = Case(cid, pick_align(), maxlen)
    c.emit("fmt")
    c.fmts.append(Fmt())
    if rng.random() < 0.3:
        c.do_new(0)   # record of an empty format: NULL block
    build_format(c, 0, rng.randint(0, 3), strings=rng.random() < 0.3)
    c.do_new(0)
    c.do_new(0)
    while c.n < maxlen:
        live = c.live()
        if not live:
            break
        d = rng.choice(live)
        r = rng.random()
        if r < 0.25:
            name, t, pers, sym = c.add_args(0, conflict_bias=0.3)
            c.emit("dadd %d %s %s %d %s" % (d, name, t, pers, sym))
            if c.fmts[0].find(name) is None:
                c.fmts[0].attrs.append([name, t, pers])
        elif r < 0.40:
            c.do_fadd(0)
        elif r < 0.55:
            c.emit(rng.choice(["clear %d", "clearall %d", "copy %d", "del %d", "realloc %d", "release %d"]) % d)
            if c.lines[-1].startswith("del"):
                c.dats[d] = None
            if c.lines[-1].startswith("copy"):
                c.dats.append(Dat(0, 0))
        elif r < 0.65:
            c.emit("assign %d %d" % (d, rng.choice(live)))
        elif r < 0.85 and c.fmts[0].attrs:
            i = rng.randrange(len(c.fmts[0].attrs))
            t = c.fmts[0].attrs[i][1]
            if t in CONTAINERS:
                c.emit("push %d %d %s" % (d, i, gen_value(ELEM_OF[t])))
            else:
                c.emit("set %d %d %s" % (d, i, gen_value(t)))
        elif r < 0.92:
            c.do_new(0)
        else:
            c.emit("new0")
            c.dats.append(Dat(None, None))
        c.dump_all()
    return c


MALFORMED = [
    "case m1 align 3", "fmt", "fadd 0 a INT 2 -", "fadd 0 a NOTYPE 0 -", "fadd 0 a INT 0", "fadd x a INT 0 -",
    "fadd 0 a INT 0 -", "new 0", "set 0 0 int:1234567890", "set 0 0 int:12x", "set 0 0 dbl:1/0", "set 0 0 dbl:1/2/3",
    "set 0 0 int:-", "set 0 0 int:5 [x]", "set 0 0 str:", "set 0 0", "get 0", "get 0 0 0", "get 0 0 [x]",
    "fromstr 0 0", "fromstr 0 0 [12", "fromstr 0 0 [0x10]", "fromstr 0 0 [inf]", "fromstr 0 0 [nan]",
    "fromstr 0 0 [12]", "get 0 0", "", "   ", "bogus", "[only payload]", "push 0 0 str:[x]", "push 0 0 ipt:1,2,3",
    "get 7 0", "get 0 9", "new 5", "copy 5", "layout 3", "dump 0", "dump", "dump 0 1", "tostr 0 0 [x]",
    "case m2 align 3 [x]", "get 0 0",
    "case m3 align 333", "fmt", "new 0",
    "case m4 align none", "fmt", "fadd 0 i INT 0 -", "fadd 0 d DOUBLE 0 -", "layout 0", "new 0",
    "set 0 1 dbl:1/2", "get 0 1", "fmt extra", "new0 1", "assign 0", "assign 0 0 0", "set 0 0 pt:1,2",
    "set 0 1 dbl:1234567890123456", "set 0 1 dbl:-123456789012345", "get 0 1",
    "case m5 align 3", "new0", "get 0 0", "fmt", "never reached",
]


def main():
    global rng
    if len(sys.argv) != 4:
        sys.stderr.write(__doc__)
        sys.exit(2)
    seed, ncases, maxlen = int(sys.argv[1]), int(sys.argv[2]), int(sys.argv[3])
    rng = random.Random(seed)
    kinds = [("records", case_records, 45), ("text", case_text, 25), ("layout", case_layout, 12),
             ("growth", case_growth, 18)]
    out = []
    for k in range(ncases):
        r = rng.randrange(100)
        acc = 0
        for name, fn, w in kinds:
            acc += w
            if r < acc:
                break
        hist("casekind", name)
        c = fn("%d.%d" % (seed, k), rng.randint(max(4, maxlen // 3), maxlen))
        out.extend(c.lines)
    out.extend(MALFORMED)
    hist("casekind", "malformed")
    for l in MALFORMED:
        if not l.startswith("case "):
            hist("op", "(malformed)")
    sys.stdout.write("\n".join(out) + "\n")
    groups = {}
    for k, v in sorted(H.items()):
        g, key = k.split(":", 1)
        groups.setdefault(g, {})[key] = v
    json.dump({"seed": seed, "ncases": ncases, "maxlen": maxlen, "lines": len(out), "histogram": groups},
              sys.stderr, indent=1, sort_keys=True)
    sys.stderr.write("\n")


if __name__ == "__main__":
    main()
