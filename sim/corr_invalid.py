#!/usr/bin/env python3
"""Correspondence check + violation search for the `Validate` model (property C17).

usage: corr_invalid.py <seed> <nmut> [--keep DIR] [--sympler BIN] [--libc N] [--known SIG,SIG...] [--verbose]
       (symdrv from env SYMDRV, default /verif/lean/.lake/build/bin/symdrv;  nmut = 0: all mutants)

Base inputs: three small VALID scenarios (B1: one species, IntegratorVelocityVerlet, ParticleScalar,
PairParticleScalar, FPairVels, BoundaryCuboid, particles from file; B2: the smallest valid input — Controller and Phase
only, empty particle file; B3: B1 + ParticleVector + Fspecific (POINT attribute)).  Each base must run (exit 0, loop started).
Property tables (attribute names and TYPES per module, modules per factory) are read from the REAL binary with
`sympler --help <Category>` (lines `-- Module ---` and `- name (Type)`), the set of modules that allow unknown attributes
from the class hierarchy in /repo (`m_properties.allowUnknown()`), so the model's verdict is computed from the current tables.

Mutation classes (every mutant = ONE change of a base input or ONE fault of the compile step):
  module     element name: typo, unknown name (root element included)
  attrname   attribute name: typo; an additional undeclared attribute
  value      per declared type INT / DOUBLE / BOOLEAN / POINT: malformed texts, and texts the strict parser ACCEPTS
             (blanks around the old value, other literal of the same boolean, hex, inf, nan, values beyond int)
  constraint a well-formed value that violates the attribute's constraint object (where the constraint is known)
  expr       unbalanced brackets, undefined symbol, empty operand, empty text, wrong result type (vector for scalar and v.v.)
  structure  delete Controller / Phase / boundary / pair creator / reflector / particle creator / integrator,
             second Controller / Phase, force behind the Phase, box length below / exactly at 2*cutoff
  compile    shim `gcc` first on PATH: missing, exit 1, killed by signal, writes garbage, writes nothing, .so without the
             function, pass-through (control); $TMP missing, $TMP unusable
Every mutant is run with a time-out (20 s).  Observed: exit status, signal, time-out, whether the time loop started
(`@ t =` lines), the first ERROR message.
Verdicts:
  * model (symdrv `model validate`) where it has one: `error:<kind>` -> the real run must stop with a non-zero exit before the
    loop and its message must be the one of that kind; `ok` -> the real run must not report any error of the modelled
    conversion chain for that item (it may still fail later in a module's own checks);
  * ORACLE, always: a mutant classified invalid must give non-zero exit, no signal, no time-out, loop not started;
    a mutant classified valid (same meaning as the base) must run like the base; any mutant: no signal, no time-out.
`--libc N`: additionally N random texts through the model's strtol/strtod scanners against glibc (ctypes): end pointer and
  strict acceptance must agree (validates the character-level model of the C library the strict conversions rest on).
Prints a JSON summary (classes, error kinds hit, verdict table, disagreements, oracle failures = findings with a minimal
replay); exit status 1 on any disagreement or oracle failure whose signature is not listed in --known.
"""
import sys, os, json, random, subprocess, shutil, re, copy, ctypes, stat, time, signal
from concurrent.futures import ThreadPoolExecutor
import xml.etree.ElementTree as ET
sys.path.insert(0, os.path.dirname(os.path.abspath(__file__)))
import symlib

SYMPLER = '/verif/.work/build-hooks/sympler'
SYMDRV = os.environ.get('SYMDRV', '/verif/lean/.lake/build/bin/symdrv')
REPO = '/repo/source'
TIMEOUT = 20
CATEGORIES = ['Simulation', 'Controller', 'WeightingFunctions', 'Symbols', 'Integrators', 'Phase', 'Forces', 'Boundaries',
              'Reflectors', 'ParticleCreators', 'PairCreators', 'Meters', 'Postprocessors', 'Callables', 'GridMeters']
TYPEMAP = {'Integer': 'int', 'Double': 'double', 'String': 'string', 'Boolean': 'bool', 'FunctionPair': 'functionpair',
           'FunctionFixed': 'functionfixed', 'Point': 'point'}

# message of each modelled error kind (the `throw gError` texts)
KIND_MSG = {
    'unknownModule': r"not found\.|not found in database",
    'moduleOrder': r"must be defined|Only one (Phase|Controller)|without Phase found",
    'noPhase': r"No Phase defined",
    'unknownAttr': r"Unknown property",
    'intRange': r"out of admissible range",
    'notInt': r"is not an integer number",
    'notNumber': r"is not a number",
    'badBool': r"Can be 'true'\|'yes'\|1 or 'false'\|'no'\|0",
    'badPoint': r"This is not a point",
    'constraint': r"has an invalid value\. Constraint on value",
    'sizeMismatch': r"Type mismatch in return value",
    'boxTooSmall': r"Box length too small",
    'compileFailed': r"Failed to compile the function using gcc",
    'dlopenFailed': r"error opening ",
    'dlsymFailed': r"Didn't get a function from",
}
# messages of the conversion chain of fromXML (for "model says ok => none of these")
FROMXML_MSG = '|'.join(KIND_MSG[k] for k in ['unknownAttr', 'intRange', 'notInt', 'notNumber', 'badBool', 'badPoint'])

# constraint objects of attributes of the base inputs (read off the INTPC/DOUBLEPC lines of the sources)
CONSTRAINTS = {('Controller', 'timesteps'): 'gt:0', ('Controller', 'statusEvery'): 'gt:0', ('Controller', 'dt'): 'gt:0',
               ('FPairVels', 'cutoff'): 'gt:0'}
# STRING attributes of the base inputs that are expressions: (required result, context)
EXPR_ATTRS = {('ParticleScalar', 'expression'): ('scalar', 'particle'), ('PairParticleScalar', 'expression'): ('scalar', 'pair'),
              ('FPairVels', 'pairFactor'): ('vector', 'pair'), ('ParticleVector', 'expression'): ('vector', 'particle')}


# ------------------------------------------------------------------ tables from the real binary

def popen_retry(*a, **kw):
    """the hooked binary is relinked by other checks now and then: retry while it is being replaced"""
    for k in range(30):
        try:
            return subprocess.Popen(*a, **kw)
        except (PermissionError, FileNotFoundError, OSError) as ex:
            last = ex
            time.sleep(2)
    raise last


def load_tables(binary=SYMPLER):
    """-> dict(modules={name: {attr: type}}, cats={category: [module names]})"""
    modules, cats = {}, {}
    for cat in CATEGORIES:
        out = popen_retry([binary, '--help', cat], stdout=subprocess.PIPE, stderr=subprocess.STDOUT).communicate(timeout=60)[0].decode(errors='replace')
        cur = None
        cats[cat] = []
        for line in out.splitlines():
            m = re.match(r'^  -- (\S+) -+\s*$', line)
            if m:
                cur = m.group(1)
                cats[cat].append(cur)
                modules.setdefault(cur, {})
                continue
            m = re.match(r'^      - (\S+) \((\w+)\)\s*$', line)
            if m and cur and m.group(2) in TYPEMAP:
                modules[cur][m.group(1)] = TYPEMAP[m.group(2)]
    return dict(modules=modules, cats=cats)


def allow_unknown_modules(tables):
    """registered module names whose class (or a base class) calls m_properties.allowUnknown()"""
    parent, direct = {}, set()
    for root, _, files in os.walk(os.path.join(REPO, 'include')):
        for f in files:
            if f.endswith('.h'):
                txt = open(os.path.join(root, f), errors='replace').read()
                for m in re.finditer(r'class\s+(\w+)\s*:\s*public\s+(\w+)', txt):
                    parent[m.group(1)] = m.group(2)
    for root, _, files in os.walk(os.path.join(REPO, 'src')):
        for f in files:
            if f.endswith('.cpp'):
                txt = open(os.path.join(root, f), errors='replace').read()
                if 'allowUnknown()' in txt:
                    for m in re.finditer(r'^(\w+)::\1\s*\(', txt, re.M):
                        direct.add(m.group(1))
    res = set()
    for name in tables['modules']:
        c, seen = name, 0
        while c and seen < 20:
            if c in direct:
                res.add(name)
                break
            c = parent.get(c)
            seen += 1
    return res


def factory_of(parent_tag, tables):
    """module names `instantiateChild` of the parent accepts; None = parent not modelled"""
    c = tables['cats']
    if parent_tag == 'Controller':
        return c['Integrators']
    if parent_tag == 'Phase':
        return c['Boundaries'] + c['PairCreators']
    if parent_tag in c['Boundaries']:
        return c['ParticleCreators'] + c['Reflectors']
    if parent_tag in c['Meters']:
        return c['Postprocessors']
    return None


def sim_category(name, tables):
    c = tables['cats']
    if name == 'Phase': return 'phase'
    if name == 'Controller': return 'controller'
    if name in c['Forces']: return 'force'
    if name in c['Meters'] or name in c['GridMeters']: return 'meter'
    if name in c['Callables']: return 'callable'
    if name in c['WeightingFunctions']: return 'wf'
    if name in c['Symbols']: return 'symbol'
    return 'unknown'


# ------------------------------------------------------------------ base inputs

def base_scenarios():
    P = [{"species": "A", "r": ["1/2", "1/2", "1/2"], "v": ["1/4", "0", "0"]}, {"species": "A", "r": ["1", "3/4", "1/2"], "v": ["0", "0", "0"]}]
    b1 = {"box": ["4", "4", "4"], "periodic": [True, True, True],
          "controller": {"dt": "1/16", "timesteps": 3, "statusEvery": 1},
          "integrators": [["IntegratorVelocityVerlet", {"species": "A", "lambda": "1/2", "mass": "1"}]],
          "modules": [["ParticleScalar", {"species": "A", "symbol": "s", "expression": "2*1.5"}],
                      ["PairParticleScalar", {"species1": "A", "species2": "A", "symbol": "n", "expression": "1+rij", "cutoff": "1", "symmetry": 1}],
                      ["FPairVels", {"species1": "A", "species2": "A", "pairFactor": "[rij]*0.25", "cutoff": "1"}]],
          "particles": P}
    b2 = {"box": ["4", "4", "4"], "periodic": [True, True, True], "controller": {"dt": "1/16", "timesteps": 2, "statusEvery": 1},
          "integrators": [], "modules": [], "particles": [], "empty_particle_file": True}
    b3 = copy.deepcopy(b1)
    b3["periodic"] = [True, False, True]
    b3["modules"] = [["ParticleVector", {"species": "A", "symbol": "u", "expression": "[r]*0.5"}]] + b3["modules"] + \
                    [["Fspecific", {"species": "A", "forceField": "(0,0,0.25)"}]]
    return {"B1": b1, "B2": b2, "B3": b3}


def base_files(sc):
    """-> (ElementTree root, {other file: content})"""
    xml = symlib.scenario_xml(sc, observer=False)
    root = ET.fromstring(xml)
    files = {}
    if sc.get("particles"):
        files["particles.pos"] = symlib.particle_file(sc)
    elif sc.get("empty_particle_file"):
        files["particles.pos"] = "!!!\n!!!\n"
        for el in root.iter():
            if el.tag.startswith('Boundary'):
                ET.SubElement(el, 'ParticleCreatorFile', {"nameInputFile": "particles.pos"})
    return root, files


def elements(root):
    """[(element, parent or None, path string)] in document order"""
    res = []

    def rec(el, parent, path):
        res.append((el, parent, path))
        counts = {}
        for ch in list(el):
            k = counts.get(ch.tag, 0)
            counts[ch.tag] = k + 1
            rec(ch, el, path + '/' + ch.tag + ('[%d]' % k if k else ''))
    rec(root, None, root.tag)
    return res


def max_cutoff(root):
    cs = [float(el.get('cutoff')) for el in root.iter() if el.get('cutoff') is not None]
    return max(cs) if cs else -1.0


# ------------------------------------------------------------------ mutants

def enc(text):
    return ','.join(str(ord(c)) for c in text) or '-'


def typo(name):
    return name[:-2] + name[-1] + name[-2] if len(name) >= 2 and name[-1] != name[-2] else name + 'x'


INT_VALUES = [('2x0', True), ('1.5', True), ('', True), ('99999999999999999999', True), ('-', True), ('3 4', True), ('+', True),
              ('0x3', True), ('1e1', True),
              # the length of the text selects the branch of PropertyList::fromXML (shorter than / as long as / longer than LONG_MAX = 19 digits)
              ('2x0000000000000000', True), ('2x00000000000000000', True), ('2 steps for a check', True), ('2.00000000000000000', True),
              ('2abcdefghijklmnopqr', True), ('9x23372036854775807', True), ('2x000000000000000000', True), ('9223372036854775808', True)]
DOUBLE_VALUES = [('1e-5x', True), ('abc', True), ('1..2', True), ('1e', True), ('--1', True), ('', True), ('1,5', True), ('.', True),
                 ('0x', True), ('1e+', True), ('infinit', True), ('nan(', True)]
BOOL_VALUES = [('maybe', True), ('YES', True), ('', True), (' yes', True), ('2', True), ('True', True)]
POINT_VALUES = [('(0,0)', True), ('0,0,1', True), ('(0 ,0,1)', True), ('(0,0,1', True), (' (0,0,1)', True), ('(a,0,1)', True),
                ('(0,0,1e)', True), ('', True)]


def enumerate_mutants(bname, sc, tables, allow):
    """all single mutations of one base input -> list of dict(id, base, cls, sub, desc, invalid, req, apply | env)"""
    root, files = base_files(sc)
    els = elements(root)
    muts = []

    def add(cls, sub, desc, invalid, req, fn, **kw):
        muts.append(dict(id='%s-%d' % (bname, len(muts)), base=bname, cls=cls, sub=sub, desc=desc, invalid=invalid, req=req, apply=fn, **kw))

    idx = {id(e): i for i, (e, _, _) in enumerate(els)}

    def on(i, f):
        """mutation function acting on element number i of a fresh copy of the tree"""
        def g(r):
            e, p, _ = elements(r)[i]
            f(e, p)
        return g

    def sim_req(names):
        return 'simchildren ' + ' '.join('%s:%s' % (sim_category(n, tables), n) for n in names) if names else 'simchildren'

    for i, (el, parent, path) in enumerate(els):
        tag = el.tag
        # ---- module name
        for sub, new in (('typo', typo(tag)), ('unknown', 'Foo' + tag)):
            def ren(e, p, new=new):
                e.tag = new
            if parent is None:
                req = None   # the root's name is never looked up (Simulation::readWithArg)
            elif parent is root:
                names = [new if c is el else c.tag for c in list(root)]
                req = sim_req(names)
            else:
                fac = factory_of(parent.tag, tables)
                req = 'module %s %s' % (new, ' '.join(fac)) if fac is not None else None
            add('module', ('root-' if parent is None else '') + sub, '%s -> <%s>' % (path, new), True, req, on(i, ren))
        known = tables['modules'].get(tag)
        if known is None:
            continue
        au = '1' if tag in allow else '0'
        # ---- attribute names
        for a in list(el.attrib):
            new = typo(a)
            if new in known:
                new = a + 'x'

            def rena(e, p, a=a, new=new):
                items = [(new if k == a else k, v) for k, v in e.attrib.items()]
                e.attrib.clear()
                e.attrib.update(items)
            add('attrname', 'typo', '%s @%s -> @%s' % (path, a, new), True, 'attrname %s %s %s' % (au, new, ' '.join(known)), on(i, rena))

        def extra(e, p):
            e.set('zzz', '1')
        add('attrname', 'extra', '%s + @zzz' % path, True, 'attrname %s zzz %s' % (au, ' '.join(known)), on(i, extra))
        # ---- values by type
        for a, old in list(el.attrib.items()):
            ty = known.get(a)
            con = CONSTRAINTS.get((tag, a), '-')

            def setv(e, p, a=a, v=None):
                e.set(a, v)
            vals = []
            if ty == 'int':
                vals = INT_VALUES + [(' %s ' % old, False), ('+' + old if not old.startswith('-') else old, False),
                                     (old.zfill(19), False) if not old.startswith('-') else (old, False),   # 19 characters: the LONG_MAX-length branch
                                     (str(int(old) + 2 ** 32), None), (str(2 ** 31), None)]
            elif ty == 'double':
                vals = DOUBLE_VALUES + [(' %s ' % old, False), ('%se0' % old, False), ('0x10', None), ('nan', None), ('inf', None),
                                        ('-infinity', None), ('1e999', None), ('NAN(a_1)', None)]
            elif ty == 'bool':
                same = {'yes': ['true', '1'], 'no': ['false', '0']}.get(old, [])
                vals = BOOL_VALUES + [(v, False) for v in same]
            elif ty == 'point':
                vals = POINT_VALUES + [('( 0, 0, 0.25)', False), ('(0,0,0.25)trailing', False), ('(0,0,2.5e-1)', False)]
            for v, inv in vals:
                if v == old:
                    continue
                add('value', ty + ('-valid' if inv is False else '-accepted' if inv is None else ''), '%s @%s="%s"' % (path, a, v), inv,
                    'attr %s %s %s' % (ty, con, enc(v)), on(i, lambda e, p, a=a, v=v: e.set(a, v)))
            if con != '-' and ty in ('int', 'double'):
                for v in ('0', '-1') + (('4294967296',) if ty == 'int' else ('-0.0', '1e-400')):
                    add('constraint', ty, '%s @%s="%s" (%s)' % (path, a, v, con), True, 'attr %s %s %s' % (ty, con, enc(v)),
                        on(i, lambda e, p, a=a, v=v: e.set(a, v)))
            # ---- expressions
            if (tag, a) in EXPR_ATTRS:
                want, ctx = EXPR_ATTRS[(tag, a)]
                vec = '[rij]' if ctx == 'pair' else '[r]'
                wrong = '1' if want == 'vector' else vec
                for sub, v, req in (('unbalanced-open', '(' + old, None), ('unbalanced-close', old + ')', None),
                                    ('undefined-symbol', old + '*zzz9', None), ('undefined-vector', old + '*[zzz9]' if want == 'scalar' else '[zzz9]', None),
                                    ('empty-operand', old + '+', None), ('leading-operator', '*' + old, None), ('empty', '', None),
                                    ('unknown-function', 'foo9(' + old + ')', None), ('bad-number', old + '+1..2', None),
                                    ('wrong-type', wrong, 'compile sizemismatch')):
                    add('expr', sub, '%s @%s="%s"' % (path, a, v), True, req, on(i, lambda e, p, a=a, v=v: e.set(a, v)))

    # ---- structure
    def delete(i):
        return on(i, lambda e, p: p.remove(e))
    for i, (el, parent, path) in enumerate(els):
        if parent is None:
            continue
        req = None
        if parent is root:
            req = sim_req([c.tag for c in list(root) if c is not el])
        # only the deletion of a REQUIRED element makes the input invalid; forces, symbols … are optional
        required = el.tag in ('Controller', 'Phase') or el.tag.startswith(('Boundary', 'Integrator', 'Reflector', 'ParticleCreator')) \
            or el.tag in tables['cats']['PairCreators']
        add('structure', ('delete-' if required else 'delete-optional-') + el.tag, 'delete %s' % path, True if required else None, req, delete(i))
    for tag in ('Controller', 'Phase'):
        for i, (el, parent, path) in enumerate(els):
            if el.tag == tag and parent is root:
                def dup(e, p):
                    p.insert(list(p).index(e) + 1, copy.deepcopy(e))
                names = []
                for c in list(root):
                    names.append(c.tag)
                    if c is el:
                        names.append(c.tag)
                add('structure', 'second-' + tag, 'second <%s>' % tag, True, sim_req(names), on(i, dup))
    forces = [i for i, (el, parent, _) in enumerate(els) if parent is root and sim_category(el.tag, tables) in ('force', 'symbol')]
    if forces:
        i = forces[-1]
        el = els[i][0]

        def move_end(e, p):
            p.remove(e)
            p.append(e)
        names = [c.tag for c in list(root) if c is not el] + [el.tag]
        add('structure', 'order', '<%s> behind the Phase' % el.tag, True, sim_req(names), on(i, move_end))
    rc = max_cutoff(root)
    if rc > 0:
        for i, (el, parent, path) in enumerate(els):
            if el.tag.startswith('Boundary') and el.get('boxX') is not None:
                L = dict(X=el.get('boxX'), Y=el.get('boxY'), Z=el.get('boxZ'))
                for d in 'XYZ':
                    for sub, v, inv in (('box-too-small', symlib.dec(symlib.F(repr(rc)) * 2 - symlib.F('1/64')), True),
                                        ('box-too-small', symlib.dec(symlib.F(repr(rc)) * symlib.F('3/2')), True),
                                        ('box-at-bound', symlib.dec(symlib.F(repr(rc)) * 2), None)):
                        LL = dict(L)
                        LL[d] = v
                        req = 'box %s %s %s %s' % (symlib.rat(symlib.F(LL['X'])), symlib.rat(symlib.F(LL['Y'])), symlib.rat(symlib.F(LL['Z'])), symlib.rat(symlib.F(repr(rc))))
                        add('structure', sub, '%s @box%s="%s" (max cutoff %g)' % (path, d, v, rc), inv, req,
                            on(i, lambda e, p, d=d, v=v: e.set('box' + d, v)))
    return muts


SHIMS = {
    'exit1': '#!/bin/sh\nexit 1\n',
    'killed': '#!/bin/sh\nkill -9 $$\n',
    'garbage': '#!/bin/sh\nwhile [ $# -gt 0 ]; do if [ "$1" = "-o" ]; then out="$2"; fi; shift; done\necho "this is not a shared object" > "$out"\nexit 0\n',
    'nothing': '#!/bin/sh\nexit 0\n',
    'nodlsym': '#!/bin/sh\nwhile [ $# -gt 0 ]; do if [ "$1" = "-o" ]; then out="$2"; fi; shift; done\n'
               'echo "int some_other_function(void) { return 0; }" > "$out.other.c"\n%s -shared -fPIC -nostartfiles -o "$out" "$out.other.c"\nrc=$?\nrm -f "$out.other.c"\nexit $rc\n',
    'ok': '#!/bin/sh\nexec %s "$@"\n',
}


def compile_mutants(bname):
    """single faults of the compile step, applied to a base that compiles expressions"""
    muts = []
    real_gcc = shutil.which('gcc') or '/usr/bin/gcc'
    for f in ['ok', 'missing', 'exit1', 'killed', 'garbage', 'nothing', 'nodlsym', 'tmpmissing', 'tmpunwritable', 'tmpnotdir']:
        model = {'tmpnotdir': 'tmpunwritable'}.get(f, f)
        muts.append(dict(id='%s-c-%s' % (bname, f), base=bname, cls='compile', sub=f, desc='compile step: ' + f, invalid=(f != 'ok'),
                         req='compile ' + model, apply=None, fault=f, real_gcc=real_gcc))
    return muts


def select(muts, nmut, rng):
    """nmut = 0: all; otherwise one mutant of every (class, sub) stratum first (coverage), the rest uniformly at random"""
    if nmut <= 0 or nmut >= len(muts):
        return list(muts)
    strata = {}
    for m in muts:
        strata.setdefault((m['cls'], m['sub']), []).append(m)
    res, rest = [], []
    for k in sorted(strata):
        rng.shuffle(strata[k])
        res.append(strata[k][0])
        rest += strata[k][1:]
    if len(res) > nmut:
        rng.shuffle(res)
        return res[:nmut]
    rng.shuffle(rest)
    return res + rest[:nmut - len(res)]


# ------------------------------------------------------------------ running

def serialise(root):
    return ET.tostring(root, encoding='unicode') + '\n'


def prepare(m, bases, workdir):
    """write the case directory of a mutant -> (dir, env)"""
    sc = bases[m['base']]
    root, files = base_files(sc)
    if m.get('apply'):
        m['apply'](root)
    d = os.path.join(workdir, m['id'])
    shutil.rmtree(d, ignore_errors=True)
    os.makedirs(d)
    xml = serialise(root)
    open(os.path.join(d, 'in.xml'), 'w').write(xml)
    for f, c in files.items():
        open(os.path.join(d, f), 'w').write(c)
    env = {}
    f = m.get('fault')
    if f:
        shim = os.path.join(d, 'shimbin')
        os.makedirs(shim)
        if f in SHIMS:
            body = SHIMS[f]
            if '%s' in body:
                body = body % m['real_gcc']
            p = os.path.join(shim, 'gcc')
            open(p, 'w').write(body)
            os.chmod(p, 0o755)
            env['PATH'] = shim + ':/usr/bin:/bin'
        elif f == 'missing':
            # a PATH without any gcc: only sh's own directory would be needed, and sh is started by absolute path
            env['PATH'] = shim
        if f == 'tmpmissing':
            env['TMP'] = os.path.join(d, 'no', 'such', 'dir')
        elif f == 'tmpnotdir':
            env['TMP'] = os.path.join(d, 'in.xml')
        elif f == 'tmpunwritable':
            if os.geteuid() == 0:
                env['TMP'] = '/proc'          # root ignores permission bits; nothing can be created in /proc
            else:
                ro = os.path.join(d, 'ro')
                os.makedirs(ro)
                os.chmod(ro, 0o555)
                env['TMP'] = ro
    m['xml'] = xml
    m['files'] = files
    m['env'] = env
    return d, env


def run_one(d, env, binary):
    e = dict(os.environ)
    e['TMP'] = os.path.abspath(d)
    e.update(env)
    t0 = time.time()
    try:
        p = popen_retry([binary, 'in.xml'], cwd=d, stdout=subprocess.PIPE, stderr=subprocess.STDOUT, env=e, start_new_session=True)
        try:
            out, _ = p.communicate(timeout=TIMEOUT)
            timed_out = False
        except subprocess.TimeoutExpired:
            os.killpg(p.pid, signal.SIGKILL)
            out, _ = p.communicate()
            timed_out = True
        rc = p.returncode
    except OSError as ex:
        return dict(exit=None, signal=None, timeout=False, loop=0, finished=False, error='cannot start: %r' % ex, wall=0.0)
    out = out.decode(errors='replace')
    open(os.path.join(d, 'out.log'), 'w').write(out)
    loop = len(re.findall(r'^@ t = ', out, re.M))
    m = re.search(r'The following ERROR occured:\s*\n(.*)', out)
    err = m.group(1).strip() if m else None
    return dict(exit=rc if rc >= 0 and not timed_out else None, signal=(-rc if rc < 0 and not timed_out else None), timeout=timed_out, loop=loop,
                finished='End of Simulation.' in out, error=err, wall=round(time.time() - t0, 2))


def model_verdicts(reqs):
    """reqs: list of request lines -> list of (verdict 'ok'|'error:<kind>'|'err:request', exit, loop)"""
    if not reqs:
        return []
    inp = 'model validate\n' + '\n'.join(reqs) + '\n'
    p = subprocess.run([SYMDRV], input=inp.encode(), stdout=subprocess.PIPE, stderr=subprocess.PIPE, timeout=300)
    if p.returncode != 0:
        raise RuntimeError('symdrv failed: ' + p.stderr.decode()[-300:])
    lines = p.stdout.decode().splitlines()
    if len(lines) != len(reqs):
        raise RuntimeError('symdrv answered %d lines for %d requests' % (len(lines), len(reqs)))
    res = []
    for l in lines:
        parts = l.split(' | ')
        v = parts[0].split()[0] if parts[0] else 'err:request'
        ex = lp = None
        if len(parts) > 1:
            mm = re.match(r'exit=(\d+) loop=(\d)', parts[1])
            ex, lp = int(mm.group(1)), int(mm.group(2))
        res.append((v, ex, lp, parts[0]))
    return res


def judge(m, real, model):
    """-> (list of disagreements with the model, list of oracle failures)"""
    dis, orc = [], []
    crashed = real['signal'] is not None or real['timeout'] or real['exit'] is None
    stopped = (not crashed) and real['exit'] != 0 and real['loop'] == 0
    ran = (not crashed) and real['exit'] == 0 and real['loop'] > 0 and real['finished']
    # oracle
    if real['signal'] is not None:
        orc.append('terminated by signal %d' % real['signal'])
    if real['timeout']:
        orc.append('time-out after %d s' % TIMEOUT)
    if m['invalid'] is True and not crashed and not stopped:
        orc.append('invalid input accepted: exit %s, loop started %s' % (real['exit'], real['loop'] > 0))
    if m['invalid'] is False and not crashed and not ran:
        orc.append('valid variant rejected: exit %s, %s' % (real['exit'], real['error']))
    # model (it knows gError and success only: a crash or a hang is reported by the oracle above and not compared)
    if model is not None and not crashed:
        v, mexit, mloop, _ = model
        if v == 'err:request':
            dis.append('model rejected the request')
        elif v.startswith('error:'):
            kind = v[6:]
            if not stopped:
                dis.append('model %s, real exit %s signal %s loop %s' % (v, real['exit'], real['signal'], real['loop']))
            else:
                if mexit is not None and real['exit'] != mexit:
                    dis.append('model exit %s, real exit %s' % (mexit, real['exit']))
                pat = KIND_MSG.get(kind)
                if pat and not re.search(pat, real['error'] or ''):
                    dis.append('model %s, real message: %s' % (v, (real['error'] or '')[:160]))
        elif v == 'ok':
            # the modelled chain accepts this item: no error of that chain may be reported for it
            pats = {'attr': FROMXML_MSG + '|' + KIND_MSG['constraint'], 'attrname': KIND_MSG['unknownAttr'], 'module': KIND_MSG['unknownModule'],
                    'simchildren': KIND_MSG['unknownModule'] + '|' + KIND_MSG['moduleOrder'] + '|' + KIND_MSG['noPhase'],
                    'box': KIND_MSG['boxTooSmall'], 'compile': '|'.join(KIND_MSG[k] for k in ['compileFailed', 'dlopenFailed', 'dlsymFailed', 'sizeMismatch'])}
            what = m['req'].split()[0]
            if real['error'] and re.search(pats[what], real['error']):
                if not (what == 'attr' and m['req'].split()[2] == '-' and re.search(KIND_MSG['constraint'], real['error'])):
                    dis.append('model ok, real message: %s' % real['error'][:160])
    return dis, orc


def signature(m, real):
    if real['signal'] is not None:
        out = 'signal%d' % real['signal']
    elif real['timeout']:
        out = 'timeout'
    elif real['exit'] == 0:
        out = 'accepted'
    else:
        out = 'exit%s' % real['exit']
    return '%s/%s:%s' % (m['cls'], m['sub'], out)


# ------------------------------------------------------------------ libc stage

def libc_stage(seed, n):
    if n <= 0:
        return dict(cases=0, bad=0, examples=[])
    libc = ctypes.CDLL('libc.so.6')
    libc.strtod.restype = ctypes.c_double
    libc.strtod.argtypes = [ctypes.c_void_p, ctypes.POINTER(ctypes.c_void_p)]
    libc.strtol.restype = ctypes.c_long
    libc.strtol.argtypes = [ctypes.c_void_p, ctypes.POINTER(ctypes.c_void_p), ctypes.c_int]

    def end_of(fn, b, *a):
        buf = ctypes.create_string_buffer(b)
        e = ctypes.c_void_p()
        fn(ctypes.addressof(buf), ctypes.byref(e), *a)
        return e.value - ctypes.addressof(buf)

    def only_ws(b):
        return all(c in b' \t\n\r' for c in b)
    rng = random.Random('libc/%s' % seed)
    alpha = " \t\v\f\r\n+-..0011599eEeExXpPaAfFiInNtTyY()_gz"
    pieces = ["0x", "inf", "nan", "infinity", "nan(", ")", "e+", "e-", "p-", "1", "0", ".", " ", "INF", "NaN", "1e5", "0x1p3", "-", "+", "0X.8", "(a_1)", "iNfInItY"]
    cases = []
    for _ in range(n):
        if rng.random() < 0.5:
            cases.append(''.join(rng.choice(alpha) for _ in range(rng.randint(0, 8))))
        else:
            cases.append(''.join(rng.choice(pieces) for _ in range(rng.randint(1, 5))))
    reqs = []
    for s in cases:
        reqs.append('syntax double ' + enc(s))
        reqs.append('syntax int ' + enc(s))
    out = model_verdicts(reqs)
    bad, ex = 0, []
    for k, s in enumerate(cases):
        b = s.encode()
        ed, ei = end_of(libc.strtod, b), end_of(libc.strtol, b, 10)
        want_d = '%d %d' % (1 if ed != 0 and only_ws(b[ed:]) else 0, ed)
        want_i = '%d %d' % (1 if ei != 0 and only_ws(b[ei:]) else 0, ei)
        got_d, got_i = out[2 * k][3][3:], out[2 * k + 1][3][3:]
        if (got_d, got_i) != (want_d, want_i):
            bad += 1
            if len(ex) < 10:
                ex.append(dict(text=s, libc_double=want_d, model_double=got_d, libc_int=want_i, model_int=got_i))
    return dict(cases=len(cases), bad=bad, examples=ex)


# ------------------------------------------------------------------ main

def run(seed, nmut, keep=None, binary=SYMPLER, libc_n=0, known=(), verbose=False, workers=8):
    rng = random.Random('invalid/%s' % seed)
    tables = load_tables(binary)
    allow = allow_unknown_modules(tables)
    bases = base_scenarios()
    workdir = keep or os.path.join('/verif/.work', 'c17run', 's%s_%d' % (seed, os.getpid()))
    os.makedirs(workdir, exist_ok=True)
    summary = dict(seed=seed, nmut_requested=nmut, tables=dict(modules=len(tables['modules']), attributes=sum(len(v) for v in tables['modules'].values()),
                                                              allow_unknown=sorted(allow)), bases={})
    # the bases must be valid
    base_ok = True
    for b, sc in bases.items():
        m = dict(id=b + '-base', base=b, cls='base', sub='base', desc='base input', invalid=False, req=None, apply=None)
        d, env = prepare(m, bases, workdir)
        r = run_one(d, env, binary)
        ok = r['exit'] == 0 and r['loop'] > 0 and r['finished']
        summary['bases'][b] = dict(exit=r['exit'], loop=r['loop'], ok=ok)
        base_ok = base_ok and ok
    allm = []
    for b, sc in bases.items():
        allm += enumerate_mutants(b, sc, tables, allow)
    allm += compile_mutants('B1')
    summary['nmut_available'] = len(allm)
    muts = select(allm, nmut, rng)
    summary['nmut_run'] = len(muts)
    with_req = [m for m in muts if m['req']]
    mv = model_verdicts([m['req'] for m in with_req])
    for m, v in zip(with_req, mv):
        m['model'] = v

    def job(m):
        d, env = prepare(m, bases, workdir)
        return run_one(d, env, binary)
    with ThreadPoolExecutor(max_workers=workers) as ex:
        reals = list(ex.map(job, muts))
    classes, kinds, table, disagreements, failures = {}, {}, [], [], []
    for m, real in zip(muts, reals):
        model = m.get('model')
        dis, orc = judge(m, real, model)
        c = classes.setdefault(m['cls'], dict(n=0, invalid=0, valid=0, accepted_syntax=0, with_model=0, model_error=0, model_ok=0, real_stopped=0,
                                              real_ran=0, disagreements=0, oracle_failures=0))
        c['n'] += 1
        c['invalid' if m['invalid'] is True else 'valid' if m['invalid'] is False else 'accepted_syntax'] += 1
        if model:
            c['with_model'] += 1
            c['model_error' if model[0].startswith('error:') else 'model_ok'] += 1
            if model[0].startswith('error:'):
                kinds[model[0][6:]] = kinds.get(model[0][6:], 0) + 1
        if real['exit'] not in (0, None) and real['loop'] == 0:
            c['real_stopped'] += 1
        if real['exit'] == 0 and real['loop'] > 0:
            c['real_ran'] += 1
        c['disagreements'] += 1 if dis else 0
        c['oracle_failures'] += 1 if orc else 0
        row = dict(id=m['id'], cls=m['cls'], sub=m['sub'], desc=m['desc'], invalid=m['invalid'], model=model[0] if model else None,
                   exit=real['exit'], signal=real['signal'], timeout=real['timeout'], loop=real['loop'], error=(real['error'] or '')[:120],
                   ok=not dis and not orc)
        table.append(row)
        sig = signature(m, real)
        rep = dict(row, signature=sig, request=m['req'], dir=os.path.join(workdir, m['id']), xml=m['xml'], files=m['files'], env=m['env'],
                   replay='cd %s && %s TMP=%s %s in.xml' % (os.path.join(workdir, m['id']),
                                                            ' '.join('%s=%s' % kv for kv in m['env'].items() if kv[0] != 'TMP'),
                                                            m['env'].get('TMP', '$PWD'), binary))
        if dis:
            disagreements.append(dict(rep, what=dis))
        if orc:
            failures.append(dict(rep, what=orc))
        if keep is None and not dis and not orc:
            shutil.rmtree(os.path.join(workdir, m['id']), ignore_errors=True)
    lib = libc_stage(seed, libc_n)
    known = set(known)
    new_fail = [f for f in failures if f['signature'] not in known]
    new_dis = [f for f in disagreements if f['signature'] not in known]
    # one finding per signature, smallest input first
    findings = {}
    for f in sorted(failures, key=lambda f: len(f['xml'])):
        findings.setdefault(f['signature'], dict(signature=f['signature'], what=f['what'], example=f['desc'], xml=f['xml'], files=f['files'], env=f['env'],
                                                 known=f['signature'] in known, count=0))
        findings[f['signature']]['count'] += 1
    summary.update(classes=classes, kinds_hit=kinds, libc=lib, bases_valid=base_ok,
                   disagreements=[dict(id=d['id'], signature=d['signature'], desc=d['desc'], request=d['request'], model=d['model'], what=d['what'], replay=d['replay'])
                                  for d in disagreements],
                   oracle_failures=[dict(id=d['id'], signature=d['signature'], desc=d['desc'], what=d['what'], replay=d['replay']) for d in failures],
                   findings=list(findings.values()),
                   verdict_table=table if verbose else [r for r in table if not r['ok']],
                   verdict_counts=dict(agree=sum(1 for r in table if r['ok']), total=len(table)))
    rc = 0 if (base_ok and not new_fail and not new_dis and lib['bad'] == 0) else 1
    summary['result'] = 'ok' if rc == 0 else 'FAIL'
    if keep is None and rc == 0 and not failures and not disagreements:
        shutil.rmtree(workdir, ignore_errors=True)
    else:
        summary['workdir'] = workdir
    return rc, summary


def main():
    a = sys.argv[1:]
    if len(a) < 2:
        print(__doc__)
        return 2
    seed, nmut = a[0], int(a[1])
    keep = a[a.index('--keep') + 1] if '--keep' in a else None
    binary = a[a.index('--sympler') + 1] if '--sympler' in a else SYMPLER
    libc_n = int(a[a.index('--libc') + 1]) if '--libc' in a else 2000
    known = a[a.index('--known') + 1].split(',') if '--known' in a else []
    rc, summary = run(seed, nmut, keep, binary, libc_n, known, '--verbose' in a)
    print(json.dumps(summary, indent=1, default=str))
    return rc


if __name__ == '__main__':
    sys.exit(main())
