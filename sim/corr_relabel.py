#!/usr/bin/env python3
"""Correspondence check + violation search for property C13 (results do not depend on particle numbering or on the periodic
box origin), Lean theorems `C13_perm`, `C13_shift` (Props/C13.lean: statements about the PAIR LIST up to order and orientation).

usage: corr_relabel.py <seed> <ncases> [--keep DIR] [--sympler BIN]
       (symdrv path from env SYMDRV: only used to get the exact horizon of a scenario from the Lean model `dyn`)

Scenarios: the generator of sim/corr_dyn.py (several species, pair forces, pair sums incl. allPairs, caches, Euler integrators,
frozen particles; dyadic data).  Every scenario is run by the REAL hooked binary
  base   as generated
  perm   with the particle file in a random other order (slots, cell-list order and pair order change)
  shift  (fully periodic scenarios whose expressions do not read absolute positions) with every particle displaced by a common
         dyadic vector `a` and wrapped back into the box - `a` up to several box lengths, so that particles cross cell faces, box
         faces, edges and corners
Particles are matched by PHYSICAL IDENTITY (index in the generated list).  Compared after every step inside the exact horizon
(exact rationals fit into doubles with room for every product, so sums are order independent and the comparison is bit for bit):
  state   v, both force buffers, every tag attribute: equal; r: equal (perm) / equal to base + a modulo the box lengths (shift)
  pairs   the pair lists of every colour pair as multisets of (identity pair, separation vector, acts-on flags), each entry in
          canonical orientation (smaller identity first; swapping negates the vector and swaps the flags): equal.  This is the
          statement of C13_perm / C13_shift evaluated on the real binary.
Prints a JSON summary; exit status 1 on any difference.
"""
import sys, os, json, random, shutil
from fractions import Fraction as F
sys.path.insert(0, os.path.dirname(os.path.abspath(__file__)))
import symlib
import corr_dyn as cd


def uses_pos(e):
    if not isinstance(e, tuple) or not e: return False
    if e[0] == 'pos': return True
    return any(uses_pos(x) for x in e[1:] if isinstance(x, tuple))


def scenario_reads_positions(gs):
    for m in gs['modules']:
        es = {'pforce': m[6:9], 'partforce': m[3:4], 'cache': m[4:5], 'psum': m[7:10]}[m[0]]
        if any(uses_pos(e) for e in es): return True
    return False


def identity_map(gs):
    """index in gs['particles'] -> (colour, frozen, slot)"""
    col = {s: i for i, s in enumerate(gs['species'])}
    slots = symlib.slots({'particles': [{'species': p['species'], 'frozen': bool(p.get('frozen'))} for p in gs['particles']]})
    return {i: (col[p['species']], bool(p.get('frozen')), slots[i]) for i, p in enumerate(gs['particles'])}


def by_identity(st, idmap):
    inv = {v: k for k, v in idmap.items()}
    out = {}
    for p in st['particles']:
        out[inv[(p['colour'], bool(p['frozen']), p['slot'])]] = p
    return out


def canon_pairs(st, idmap):
    inv = {v: k for k, v in idmap.items()}
    res = []
    for q in st['pairs']:
        i = inv[(q['c1'], bool(q['fz1']), q['s1'])]
        j = inv[(q['c2'], bool(q['fz2']), q['s2'])]
        d, ao = tuple(q['d']), q['ao']
        if i > j:
            i, j, d, ao = j, i, tuple(-x for x in d), ao[::-1]
        res.append((min(q['c1'], q['c2']), max(q['c1'], q['c2']), i, j, d, ao))
    return sorted(res)


def tagvals(p):
    out = {}
    for n, t in p['tag'].items():
        if n.startswith('__'): continue
        out[n] = t
    return out


def compare(base, var, idb, idv, shift=None, box=None):
    pb, pv = by_identity(base, idb), by_identity(var, idv)
    if set(pb) != set(pv): return 'particle sets differ'
    for i in sorted(pb):
        a, b = pb[i], pv[i]
        who = 'particle #%d' % i
        for k in ('v', 'f0', 'f1'):
            if list(a[k]) != list(b[k]): return '%s %s base=%s variant=%s' % (who, k, [str(x) for x in a[k]], [str(x) for x in b[k]])
        for c in range(3):
            d = b['r'][c] - a['r'][c] - (shift[c] if shift else 0)
            if shift:
                if (d / box[c]).denominator != 1: return '%s r[%d] base=%s variant=%s shift=%s' % (who, c, a['r'][c], b['r'][c], shift[c])
            elif d != 0: return '%s r[%d] base=%s variant=%s' % (who, c, a['r'][c], b['r'][c])
        ta, tb = tagvals(a), tagvals(b)
        if ta != tb:
            n = sorted(k for k in set(ta) | set(tb) if ta.get(k) != tb.get(k))[0]
            return '%s attribute %s base=%s variant=%s' % (who, n, ta.get(n), tb.get(n))
    return None


def gen_dense(rng):
    """denser two/three-species system with DIFFERENT cutoffs per colour pair registered in random order: 16-40 particles on a 1/8
    lattice in a fully periodic box, linear pair forces (exact), 1-2 steps"""
    nsp = rng.choice([2, 2, 3])
    species = ['A', 'B', 'C'][:nsp]
    rng.shuffle(species)
    pairs = [(a, b) for i, a in enumerate(species) for b in species[i:]]
    rng.shuffle(pairs)
    cuts = [F(1, 2), F(3, 4), F(1), F(5, 4)]
    modules = []
    for (a, b) in pairs[:rng.randint(2, len(pairs))]:
        e = ('smul', ('num', F(rng.choice([1, 2, -1]), rng.choice([1, 2, 4]))), ('rij',))
        modules.append(('pforce', a, b, 'vel', rng.choice(cuts), F(-1), e, cd.ONE['V'], cd.ONE['V']))
    # every cell width L / floor(L / rcmax) must be dyadic (else the cell-relative pair distances of the real code are rounded)
    rcmax = max(F(m[4]) for m in modules)
    def okL(L):
        k = int(F(L) / rcmax)
        w = F(L) / k
        return k >= 2 and w.denominator & (w.denominator - 1) == 0
    box = [F(rng.choice([L for L in (3, 4, 5, 6) if okL(L)])) for _ in range(3)]
    n = rng.randint(16, 40)
    used, particles = set(), []
    while len(particles) < n:
        r = tuple(F(rng.randint(0, int(box[c]) * 8 - 1), 8) for c in range(3))
        if r in used: continue
        used.add(r)
        particles.append({'species': species[len(particles) % nsp] if len(particles) < nsp else rng.choice(species), 'frozen': False, 'r': list(r),
                          'v': [F(rng.randint(-2, 2), 8) for _ in range(3)], 'tags': {}})
    integrators = [('vv', s, F(1, 2), F(1)) for s in species]
    return dict(box=box, periodic=[True] * 3, dt=F(1, 16), steps=rng.randint(1, 2), species=species, integrators=integrators, modules=modules,
                particles=particles, flavour='dense', maxdeg=1, frozen_only=None)


def main(argv):
    seed, ncases = int(argv[1]), int(argv[2])
    keep = argv[argv.index('--keep') + 1] if '--keep' in argv else None
    if '--sympler' in argv: cd.SYMPLER = argv[argv.index('--sympler') + 1]
    work = keep or '/verif/.work/corr_relabel_%d_%d' % (seed, os.getpid())
    os.makedirs(work, exist_ok=True)
    rng = random.Random(seed)
    summ = dict(seed=seed, cases=0, perm_runs=0, shift_runs=0, states_compared=0, pair_lists_compared=0, pairs_total=0, crossings=0,
                skipped={}, species_counts={}, violations=[])
    def skip(k): summ['skipped'][k] = summ['skipped'].get(k, 0) + 1
    for case in range(ncases):
        gs = cd.gen_scenario(rng, None)
        if case % 3 == 1:
            gs = gen_dense(rng)
        elif case % 3 != 0:
            # two thirds of the cases: insist on a scenario the shift variant applies to (fully periodic, no absolute positions read)
            for _ in range(12):
                if all(gs['periodic']) and not scenario_reads_positions(gs): break
                gs = cd.gen_scenario(rng, None)
        ms = cd.run_model(gs)
        if isinstance(ms, tuple): skip('model ' + str(ms[1])); continue
        d = os.path.join(work, 'case%d' % case)
        b = cd.run_real(gs, d + '_b')
        if b[0] != 'ok': skip('base run failed/flew'); continue
        if b[2] != 0: skip('reflector hit'); continue
        brs = b[1]
        h = min(cd.exact_horizon(gs, ms), len(brs))
        if gs['flavour'] == 'dense':
            # lattice data (multiples of 1/8), linear forces, <= 2 steps at dt = 1/16: every coordinate is a multiple of 2^-14 and every
            # squared distance differs from a squared cutoff by 0 or >= 2^-28, so all double operations and cutoff tests are exact
            h = len(brs)
        if h == 0: skip('no exact state'); continue
        summ['cases'] += 1
        summ['species_counts'][len(gs['species'])] = summ['species_counts'].get(len(gs['species']), 0) + 1
        idb = identity_map(gs)
        variants = []
        # ---- permuted particle file
        order = list(range(len(gs['particles'])))
        rng.shuffle(order)
        gp = dict(gs); gp['particles'] = [gs['particles'][i] for i in order]
        idp_raw = identity_map(gp)                       # index in gp -> id triple
        idp = {order[k]: idp_raw[k] for k in range(len(order))}    # ORIGINAL index -> id triple in the permuted run
        variants.append(('perm', gp, idp, None))
        # ---- common shift (fully periodic, no absolute positions read)
        if all(gs['periodic']) and not scenario_reads_positions(gs):
            a = [F(rng.randint(-3 * 8 * int(gs['box'][c]), 3 * 8 * int(gs['box'][c])), 8) for c in range(3)]
            gsh = dict(gs); gsh['particles'] = []
            for p in gs['particles']:
                q = dict(p); q['r'] = [(p['r'][c] + a[c]) % F(gs['box'][c]) for c in range(3)]
                for c in range(3):
                    if (p['r'][c] + a[c]) // F(gs['box'][c]) != 0: summ['crossings'] += 1
                gsh['particles'].append(q)
            variants.append(('shift', gsh, idb, a))
        for kind, gv, idv, a in variants:
            r = cd.run_real(gv, d + '_' + kind)
            if r[0] != 'ok' and 'flew farther than a cell' in str(r[2]):
                # a per-step displacement above one cell is outside the envelope of every property: whether the code notices it depends on
                # where the particle sits in its cell, i.e. on the origin - the documented error, not a result
                skip('variant: particle flew farther than a cell (documented error exit)')
                continue
            if r[0] != 'ok':
                summ['violations'].append(dict(case=case, kind=kind, detail='variant run failed: %s' % str(r[2])[-200:], scenario=cd.to_symlib(gs), variant=cd.to_symlib(gv)))
                continue
            summ[kind + '_runs'] += 1
            vrs = r[1]
            for k in range(min(h, len(vrs))):
                diff = compare(brs[k], vrs[k], idb, idv, a, [F(x) for x in gs['box']])
                summ['states_compared'] += 1
                if diff is None:
                    try:
                        pa, pb = canon_pairs(brs[k], idb), canon_pairs(vrs[k], idv)
                    except KeyError as ex:
                        # a pair of the real list names a (colour, frozen, slot) that is no particle of the run
                        pa, pb = [], []
                        diff = 'a pair list names a particle that does not exist: (colour, frozen, slot) = %s' % (ex.args[0],)
                    summ['pair_lists_compared'] += 1
                    summ['pairs_total'] += len(pa)
                    if pa != pb:
                        miss = [x for x in pa if x not in pb][:2]; extra = [x for x in pb if x not in pa][:2]
                        diff = 'pair lists differ: only in base %s, only in variant %s' % ([(m[2], m[3], [str(x) for x in m[4]], m[5]) for m in miss],
                                                                                             [(m[2], m[3], [str(x) for x in m[4]], m[5]) for m in extra])
                if diff:
                    summ['violations'].append(dict(case=case, kind=kind, step=brs[k]['step'], detail=diff, shift=[str(x) for x in a] if a else None,
                                                   order=order if kind == 'perm' else None, scenario=cd.to_symlib(gs), variant=cd.to_symlib(gv)))
                    break
            if not keep: shutil.rmtree(d + '_' + kind, ignore_errors=True)
        if not keep: shutil.rmtree(d + '_b', ignore_errors=True)
    if not keep: shutil.rmtree(work, ignore_errors=True)
    summ['ok'] = not summ['violations']
    summ['violations'] = summ['violations'][:10]
    print(json.dumps(summ, indent=1, default=str))
    return 0 if summ['ok'] else 1


if __name__ == '__main__':
    sys.exit(main(sys.argv))
