#!/usr/bin/env python3
"""Correspondence check + violation search for the restart file (property C18, Lean model `Sympler.Restart`).

usage: corr_restart.py <seed> <ncases> [--keep DIR] [--sympler BIN] [--verbose]
       corr_restart.py --replay scenario.json [--keep DIR]
       (symdrv path from env SYMDRV, default /verif/lean/.lake/build/bin/symdrv)

For every generated particle system (1-3 species in random order, possibly a species without particles, free and
frozen particles, persistent user quantities of type DOUBLE / POINT / TENSOR / INT introduced by IntegratorScalar /
IntegratorVector / IntegratorTensor / the `targetSlot` of TransferParticleVector in random order, optionally constant
forces on them, values: 0, negative, tiny (1e-12), large (2000000, 1e+12), decimals with <= 6 digits and "inexact"
values with more digits):

  run A   the REAL hooked binary runs the system for a few steps with `<WriteRestartFile writeEvery=k/>` (files
          `<name>_%05d.pos`, the i-th one written during step (i+1)k-1) and `inputFromResults="yes"` (file
          `<simName>_restart.pos`, written after the last step); `VerifObserver` dumps the exact state of every step.
  run B   for every restart file: the same modules, `ParticleCreatorFile` reads that file; dump at step -1.

INDEPENDENT ORACLE (A versus B, no model involved): same particle count, same multiset of (species, free|frozen);
per particle (matched in list order per species and status, the order both dumps use) position, velocity and every
attribute that was persistent in A at the writing step: EXACTLY equal when A's double is the nearest double of a
decimal with <= P significant digits (P = 8 for r, v; 6 for attributes; INT always), else relative error <= 5e-6.

MODEL CORRESPONDENCE: the state of A at the writing step (every double rounded by Python's correctly rounded
`%.{P-1}e` to P digits -- this is the libc rounding the Lean model does not contain) is given to `symdrv` (model
`restart`); compared: (1) the FILE TEXT of the real writer with the model's text, line by line, the first different
token is reported; (2) the system the model reader reconstructs from its text with B's dump: count, order, species,
status, and every value `x_B == float(model decimal)` exactly, non-persistent attributes not compared (B's
calculators/forces own them).

Disagreement kinds (= `signature`): `oracle` (A vs B), `text`, `model_vs_B`, `model`, `runfail`, and the classified
finding `boundary-loss` (B lost exactly the particles whose WRITTEN position has a coordinate >= the upper box bound --
`createParticles` drops them silently through `findCell`/`isInside`; the remaining particles are still compared).
`force_<q>_<k>` accumulators are columns of the file but are zeroed by every run (`isAboutToStart`): values not compared.
Prints a JSON summary; exit status 1 on any disagreement / oracle violation.
"""
import sys, os, json, random, subprocess, shutil, glob
from fractions import Fraction as F
sys.path.insert(0, os.path.dirname(os.path.abspath(__file__)))
import symlib

SYMPLER = '/verif/.work/build-hooks/sympler'
SYMDRV = os.environ.get('SYMDRV', '/verif/lean/.lake/build/bin/symdrv')

# ------------------------------------------------------------------ decimals

def round_dec(x, P):
    """double (as Fraction) -> (Fraction of the P-significant-digit decimal printf would print, is_exact_domain)"""
    if x == 0:
        return F(0), True
    s = ('%.' + str(P - 1) + 'e') % float(x)
    q = F(s)
    return q, (F(float(q)) == x)

def rat(q):
    return symlib.rat(q)

# ------------------------------------------------------------------ generator

EXACT_POOL = ['0', '1', '-1', '2000000', '-2000000', '1000000', '123456', '-123456', '999999', '1000000000000',
              '-1000000000000', '1/1000000000000', '-1/1000000000000', '1/100000', '-1/100000', '1/10000', '-1/10000',
              '1/8', '-5/2', '3/4', '123456/1000', '-123456/100000', '100000', '99999/100', '1/1000', '12/100000',
              '5/1000000', '123456/100000000000', '314159/100000', '-271828/100000', '602214/1', '1602/10000000',
              '10', '100', '1000', '10000', '-100000', '15/10', '1234560000', '98765400000000000000']
INEXACT_POOL = ['1/3', '-2/3', '1234567', '-12345678/1000', '22/7', '1/7000000', '123456789/1000', '1000001',
                '314159265/100000000', '1/1024', '-9999999/10000']

def gen_value(rng, allow_inexact):
    u = rng.random()
    if allow_inexact and u < 0.15:
        return rng.choice(INEXACT_POOL)
    if u < 0.6:
        return rng.choice(EXACT_POOL)
    nd = rng.randint(1, 6)
    m = rng.randint(10 ** (nd - 1), 10 ** nd - 1)
    e = rng.choice([-14, -12, -9, -7, -6, -5, -4, -3, -2, -1, 0, 1, 2, 3, 5, 6, 7, 9, 12, 15])
    q = F(rng.choice([1, -1]) * m) * F(10) ** e
    return rat(q)

def gen_case(rng):
    names = rng.sample(['A', 'B', 'C', 'H2O', 'wall', 'X1'], rng.randint(1, 3))
    allow_inexact = rng.random() < 0.5
    integrators = []
    quantities = {s: [] for s in names}        # per species: (name, kind) in tag-format order
    modules = []
    forces = []
    # which species get particles (a species is created by its integrators; a position integrator needs free particles)
    empty = rng.choice(names) if (len(names) > 1 and rng.random() < 0.2) else None
    npart = rng.randint(1, 9)
    pspecies = [rng.choice([n for n in names if n != empty]) for _ in range(npart)]
    pfrozen = [rng.random() < 0.35 for _ in range(npart)]
    has_free = {s: any(ps == s and not fz for ps, fz in zip(pspecies, pfrozen)) for s in names}
    qn = 0
    specs = []
    for s in names:
        vv = has_free[s] and rng.random() < 0.8
        if vv:
            integrators.append(['IntegratorVelocityVerlet', {'species': s, 'lambda': '1/2', 'mass': '1'}])
        for kind in rng.sample(['S', 'V', 'T', 'S', 'V'], rng.randint(0 if vv else 1, 4)):
            qn += 1
            nm = {'S': 'e', 'V': 'w', 'T': 'T'}[kind] + str(qn)
            specs.append((s, kind, nm))
    rng.shuffle(specs)
    for (s, kind, nm) in specs:
        cls, attr = {'S': ('IntegratorScalar', 'scalar'), 'V': ('IntegratorVector', 'vector'), 'T': ('IntegratorTensor', 'tensor')}[kind]
        integrators.append([cls, {'species': s, attr: nm, 'symbol': nm}])
        quantities[s].append((nm, kind))
        if kind in 'SV' and rng.random() < 0.25:
            if kind == 'S':
                forces.append(['FParticleScalar', {'species': s, 'scalar': nm, 'expression': rng.choice(['1', '0.5', '(0-2)'])}])
            else:
                forces.append(['FParticleVector', {'species': s, 'vector': nm, 'expression': 'uVecX(%s)' % rng.choice(['1', '0.25'])}])
    # a persistent scalar that a Symbol post-processes in place (`overwrite="yes"`, identity expression; stage 0, 1 or both):
    # its column must still be read back (only symbols that a calculator CREATES itself are skipped by the reader)
    for (s, kind, nm) in specs:
        if kind == 'S' and rng.random() < 0.3:
            modules.append(['ParticleScalar', {'species': s, 'symbol': nm, 'overwrite': 'yes', 'stage': rng.choice(['0', '0', '1', '2']), 'expression': nm}])
    rng.shuffle(integrators)
    # the tag-format order is the integrators' setup order
    quantities = {s: [] for s in names}
    for ig in integrators:
        for key, kind in (('scalar', 'S'), ('vector', 'V'), ('tensor', 'T')):
            if ig[0] != 'IntegratorVelocityVerlet' and key in ig[1]:
                quantities[ig[1]['species']].append((ig[1][key], kind))
    # particles
    particles = []
    used = set()
    for s, frozen in zip(pspecies, pfrozen):
        while True:
            r = tuple(F(rng.randint(1, 31), 8) for _ in range(3))
            if r not in used:
                used.add(r)
                break
        v = [F(rng.randint(-8, 8), 4) for _ in range(3)]
        tags = {}
        for (nm, kind) in quantities[s]:
            n = {'S': 1, 'V': 3, 'T': 9}[kind]
            vals = [gen_value(rng, allow_inexact) for _ in range(n)]
            tags[nm] = vals[0] if n == 1 else vals
        particles.append({'species': s, 'frozen': frozen, 'r': [rat(x) for x in r], 'v': [rat(x) for x in v], 'tags': tags})
    # an INT attribute: targetSlot of a TransferParticleVector from species s to species t
    if len(names) >= 2 and rng.random() < 0.5:
        s, t = rng.sample(names, 2)
        nt = sum(1 for p in particles if p['species'] == t and not p['frozen'])
        ns = sum(1 for p in particles if p['species'] == s)
        if nt > 0 and ns > 0:
            modules.append(['TransferParticleVector', {'species': s, 'targetSpecies': t, 'targetSlot': 'ts', 'symbol': 'tv',
                                                       'expression': '[v]'}])
            quantities[s].append(('ts', 'I'))
            for p in particles:
                if p['species'] == s:
                    # only free source particles are checked against the number of targets
                    p['tags']['ts'] = rng.randint(0, nt - 1) if not p['frozen'] else rng.choice([0, -7, 123456, -2147483648, 2147483647])
    steps = rng.randint(1, 4)
    every = rng.randint(1, steps)
    sc = {'box': ['4', '4', '4'], 'periodic': [True, True, True],
          'sim': {'simName': 'runA', 'inputFromResults': 'yes'},
          'controller': {'dt': '1/16', 'timesteps': steps},
          'integrators': integrators,
          'modules': forces + modules + [['WriteRestartFile', {'nameOutputFile': 'mid.pos', 'writeEvery': every}]],
          'species_order': list(names),
          'tag_columns': {s: [q[0] for q in quantities[s]] for s in names},
          'particles': particles}
    return sc, dict(steps=steps, every=every, names=names, quantities=quantities)

# ------------------------------------------------------------------ dumps

def internal(name):
    """`force_<quantity>_<k>`: the force accumulators of Integrator{Scalar,Vector,Tensor}.  They are flagged persistent
    in turn (the one of the current force index), are columns of the file, and every run zeroes them again in
    `Integrator*::isAboutToStart` -- not user-defined quantities: their VALUES are not compared with run B."""
    return name.startswith('force_')

def grouped(step):
    """particles of a dump step per (species name, frozen) in dump (= list) order"""
    g = {}
    for p in step['particles']:
        g.setdefault((step['species'][p['colour']], p['frozen']), []).append(p)
    return g

def flat_vals(ty, v):
    return [v] if ty in ('INT', 'DOUBLE') else list(v)

def same_point(xa, xb, j, sa, stats):
    """positions are compared as points of the PERIODIC box (every generated box is periodic in all directions): a coordinate on the
    upper face, kept by run A within the geometric tolerance of its cell, is the point on the lower face; since /repo's fix of the
    reader (see known_findings.json, fixed: C18) such a particle comes back there"""
    L = sa['box'][1][j] - sa['box'][0][j]
    if xb != xa and abs(xb - xa) == L:
        stats['periodic_images'] = stats.get('periodic_images', 0) + 1
        return xa
    return xb


def check_value(xa, xb, P, where, viol, stats):
    q, exact = round_dec(xa, P)
    if exact:
        stats['values_exact'] += 1
        if xb != xa:
            viol.append('%s: exact-domain value %s came back as %s' % (where, float(xa), float(xb)))
    else:
        stats['values_inexact'] += 1
        if abs(xb - xa) > F(5, 1000000) * abs(xa):
            viol.append('%s: value %r came back as %r (rel. error > 5e-6)' % (where, float(xa), float(xb)))

def oracle(sa, sb, stats):
    """A at the writing step versus B at step -1; list of violations"""
    viol = []
    ga, gb = grouped(sa), grouped(sb)
    ca = {k: len(v) for k, v in ga.items()}
    cb = {k: len(v) for k, v in gb.items()}
    if len(sa['particles']) != len(sb['particles']):
        viol.append('particle count %d -> %d' % (len(sa['particles']), len(sb['particles'])))
    if ca != cb:
        viol.append('(species, frozen) multiset %s -> %s' % (sorted(ca.items()), sorted(cb.items())))
        return viol
    for k in ga:
        for i, (pa, pb) in enumerate(zip(ga[k], gb[k])):
            w = '%s %s #%d' % (k[0], 'frozen' if k[1] else 'free', i)
            for j in range(3):
                check_value(pa['r'][j], same_point(round_dec(pa['r'][j], 8)[0], pb['r'][j], j, sa, stats) if round_dec(pa['r'][j], 8)[1] else pb['r'][j], 8, w + ' r[%d]' % j, viol, stats)
                check_value(pa['v'][j], pb['v'][j], 8, w + ' v[%d]' % j, viol, stats)
            for name, (ty, pers, va) in pa['tag'].items():
                if not pers or internal(name):
                    continue
                if name not in pb['tag']:
                    viol.append('%s: attribute %s missing in B' % (w, name))
                    continue
                tb, _, vb = pb['tag'][name]
                if tb != ty:
                    viol.append('%s: attribute %s type %s -> %s' % (w, name, ty, tb))
                    continue
                if ty == 'INT':
                    stats['values_exact'] += 1
                    if va != vb:
                        viol.append('%s: INT %s %d -> %d' % (w, name, va, vb))
                else:
                    for j, (xa, xb) in enumerate(zip(flat_vals(ty, va), flat_vals(ty, vb))):
                        check_value(xa, xb, 6, '%s %s[%d]' % (w, name, j), viol, stats)
    return viol

# ------------------------------------------------------------------ Lean model

def model_input(sa, hdr_names):
    """symdrv input for the state `sa` (a dump step of A); hdr_names: species -> column names of the real file,
    used only for species without particles"""
    lines = ['model restart']
    g = grouped(sa)
    for c in sorted(sa['species']):
        s = sa['species'][c]
        lines.append('species %s' % s)
        ps = g.get((s, False), []) + g.get((s, True), [])
        if ps:
            for name, (ty, pers, _) in ps[0]['tag'].items():
                lines.append('attr %s %s %d 0' % (name, ty, 1 if pers else 0))
        else:
            for name in hdr_names.get(s, []):
                lines.append('attr %s DOUBLE 1 0' % name)
    def dec(x, P):
        return rat(round_dec(x, P)[0])
    for p in sa['particles']:          # dump order: colour, free before frozen, list order
        s = sa['species'][p['colour']]
        f = ['particle', s, 'frozen' if p['frozen'] else 'free'] + [dec(x, 8) for x in p['r']] + [dec(x, 8) for x in p['v']]
        segs = [' '.join(f)]
        for name, (ty, pers, v) in p['tag'].items():
            if ty == 'INT':
                segs.append(str(v))
            else:
                segs.append(','.join(dec(x, 6) for x in flat_vals(ty, v)))
        lines.append(' | '.join(segs))
    return '\n'.join(lines) + '\n'

def run_model(inp):
    p = subprocess.run([SYMDRV], input=inp.encode(), stdout=subprocess.PIPE, stderr=subprocess.PIPE, timeout=60)
    if p.returncode != 0:
        return None, 'symdrv rc=%d %s' % (p.returncode, p.stderr.decode()[:200])
    out = p.stdout.decode().splitlines()
    text, recs, status = [], [], None
    for l in out:
        if l.startswith('L '):
            text.append(l[2:])
        elif l.startswith('read '):
            status = l[5:]
        elif l.startswith('P '):
            segs = l.split(' | ')
            h = segs[0].split()
            tags = {}
            for sg in segs[1:]:
                w = sg.split()
                tags[w[0]] = (w[1], w[2])
            recs.append(dict(species=h[1], frozen=(h[2] == 'frozen'), r=[F(x) for x in h[3:6]], v=[F(x) for x in h[6:9]], tags=tags))
        elif l.startswith('text '):
            pass
        else:
            return None, 'model: ' + l
    return dict(text=text, recs=recs, status=status), None

def first_token_diff(a, b):
    ta, tb = a.split(), b.split()
    for i, (x, y) in enumerate(zip(ta, tb)):
        if x != y:
            return 'token %d: real %r model %r' % (i, x, y)
    return 'token count real %d model %d' % (len(ta), len(tb))

def compare_text(real_lines, model_lines):
    dis = []
    if len(real_lines) != len(model_lines):
        dis.append('file has %d lines, model text %d' % (len(real_lines), len(model_lines)))
    for i, (a, b) in enumerate(zip(real_lines, model_lines)):
        if a != b:
            dis.append('line %d: %s | real %r model %r' % (i + 1, first_token_diff(a, b), a, b))
            break
    return dis

def compare_model_b(m, sa, sb, stats):
    """model's reconstructed particles (file order) versus B's dump at step -1"""
    dis = []
    if m['status'] is None or not m['status'].startswith('ok'):
        return ['model reader: %s' % m['status']]
    gb = grouped(sb)
    gm = {}
    for r in m['recs']:
        gm.setdefault((r['species'], r['frozen']), []).append(r)
    if {k: len(v) for k, v in gb.items()} != {k: len(v) for k, v in gm.items()}:
        return ['model reconstructs %s, B has %s' % (sorted((k, len(v)) for k, v in gm.items()), sorted((k, len(v)) for k, v in gb.items()))]
    ga = grouped(sa)
    for k in gb:
        for i, (pm, pb, pa) in enumerate(zip(gm[k], gb[k], ga[k])):
            w = '%s %s #%d' % (k[0], 'frozen' if k[1] else 'free', i)
            for j in range(3):
                for nm in ('r', 'v'):
                    stats['model_values'] += 1
                    if F(float(pm[nm][j])) != (same_point(F(float(pm[nm][j])), pb[nm][j], j, sa, stats) if nm == 'r' else pb[nm][j]):
                        dis.append('%s %s[%d]: model %s B %r' % (w, nm, j, pm[nm][j], float(pb[nm][j])))
            for name, (ty, pers, _) in pa['tag'].items():
                if not pers or internal(name):
                    continue
                tm, vm = pm['tags'][name]
                tb, _, vb = pb['tag'][name]
                if tm != tb:
                    dis.append('%s %s: type model %s B %s' % (w, name, tm, tb))
                elif tb == 'INT':
                    stats['model_values'] += 1
                    if int(vm) != vb:
                        dis.append('%s %s: model %s B %d' % (w, name, vm, vb))
                else:
                    for j, (xm, xb) in enumerate(zip(vm.split(','), flat_vals(tb, vb))):
                        stats['model_values'] += 1
                        xm = F(0) if xm == '-0' else F(xm)
                        if F(float(xm)) != xb:
                            dis.append('%s %s[%d]: model %s B %r' % (w, name, j, xm, float(xb)))
    return dis

# ------------------------------------------------------------------ one case

def header_names(lines):
    res = {}
    for l in lines:
        w = l.split()
        if w == ['!!!']:
            break
        res[w[0]] = w[1:-1]
    return res

def run_case(d, sc, meta, stats, verbose=False):
    """-> list of (kind, message)"""
    out = []
    da = os.path.join(d, 'A')
    symlib.write_case(da, sc)
    rc, log = symlib.run_sympler(da, SYMPLER)
    if rc != 0:
        return [('runfail', 'run A rc=%d: %s' % (rc, log[-300:].replace('\n', ' / ')))]
    steps_a = {s['step']: s for s in symlib.parse_obs(os.path.join(da, 'obs.txt'))}
    files = []
    k = meta['every']
    for i in range(meta['steps'] // k):
        files.append((os.path.join(da, 'mid_%05d.pos' % i), (i + 1) * k - 1, 'mid%d' % i))
    files.append((os.path.join(da, 'runA_restart.pos'), meta['steps'] - 1, 'end'))
    for path, step, label in files:
        if not os.path.exists(path):
            out.append(('runfail', 'restart file %s missing' % os.path.basename(path)))
            continue
        stats['files'] += 1
        sa = steps_a[step]
        sa_full = sa
        stats['particles'] += len(sa['particles'])
        real_lines = open(path).read().split('\n')
        if real_lines and real_lines[-1] == '':
            real_lines.pop()
        db = os.path.join(d, 'B_' + label)
        scb = dict(sc)
        scb['sim'] = {'simName': 'runB'}
        scb['modules'] = [m for m in sc['modules'] if m[0] != 'WriteRestartFile']
        scb['controller'] = dict(sc['controller'], timesteps=1)
        symlib.write_case(db, scb)
        shutil.copyfile(path, os.path.join(db, 'particles.pos'))
        rc, log = symlib.run_sympler(db, SYMPLER)
        if rc != 0:
            out.append(('oracle', '%s: run B fails rc=%d: %s' % (label, rc, log[-300:].replace('\n', ' / '))))
            continue
        sb = [s for s in symlib.parse_obs(os.path.join(db, 'obs.txt')) if s['step'] == -1][0]
        # FINDING `boundary-loss`: the reader drops a particle whose written coordinate is >= the upper box bound
        # (`isInside`/`findCell`), although run A holds it: exactly on the bound, or rounded up to it by the 8 digits.
        hi = sa['box'][1]
        onb = [p for p in sa['particles'] if any(round_dec(p['r'][j], 8)[0] >= hi[j] for j in range(3))]
        if onb and len(sb['particles']) == len(sa['particles']) - len(onb):
            out.append(('boundary-loss', '%s (step %d): %d of %d particles lost by the restart: written coordinate equals the box length: %s'
                        % (label, step, len(onb), len(sa['particles']),
                           [(sa['species'][p['colour']], 'frozen' if p['frozen'] else 'free', [float(x) for x in p['r']]) for p in onb])))
            stats['boundary_lost'] += len(onb)
            sa = dict(sa, particles=[p for p in sa['particles'] if not any(p is q for q in onb)])
        for v in oracle(sa, sb, stats):
            out.append(('oracle', '%s (step %d): %s' % (label, step, v)))
        inp = model_input(sa_full, header_names(real_lines))
        open(os.path.join(db, 'model.in'), 'w').write(inp)
        m, err = run_model(inp)
        if err:
            out.append(('model', '%s: %s' % (label, err)))
            continue
        if onb and len(m['recs']) == len(sb['particles']) + len(onb):
            # `isInside` is not part of the model: remove the records of the dropped particles (same written position)
            drop = [[round_dec(x, 8)[0] for x in p['r']] for p in onb]
            m['recs'] = [r for r in m['recs'] if r['r'] not in drop]
        for v in compare_text(real_lines, m['text']):
            out.append(('text', '%s (step %d): %s' % (label, step, v)))
        for v in compare_model_b(m, sa, sb, stats):
            out.append(('model_vs_B', '%s (step %d): %s' % (label, step, v)))
    return out

def main(argv):
    global SYMPLER
    keep = argv[argv.index('--keep') + 1] if '--keep' in argv else None
    if '--replay' in argv:
        # corr_restart.py --replay scenario.json [--keep DIR]: run one stored system
        sc = json.load(open(argv[argv.index('--replay') + 1]))
        wr = [m for m in sc['modules'] if m[0] == 'WriteRestartFile']
        meta = dict(steps=int(sc['controller']['timesteps']), every=int(wr[0][1]['writeEvery']) if wr else 10 ** 9)
        stats = dict(files=0, particles=0, values_exact=0, values_inexact=0, model_values=0, boundary_lost=0)
        d = keep or '/verif/.work/corr_restart_replay_%d' % os.getpid()
        shutil.rmtree(d, ignore_errors=True)
        res = run_case(d, sc, meta, stats)
        print(json.dumps(dict(check='corr_restart', replay=True, **stats, disagreements=len(res),
                              first=[dict(kind=k, signature=k, msg=m) for k, m in res[:10]]), indent=1))
        if not keep:
            shutil.rmtree(d, ignore_errors=True)
        return 1 if res else 0
    seed, ncases = int(argv[1]), int(argv[2])
    if '--sympler' in argv:
        SYMPLER = argv[argv.index('--sympler') + 1]
    verbose = '--verbose' in argv
    base = keep or ('/verif/.work/corr_restart_%d_%d' % (seed, os.getpid()))
    rng = random.Random(seed)
    stats = dict(files=0, particles=0, values_exact=0, values_inexact=0, model_values=0, boundary_lost=0)
    dis = []
    for i in range(ncases):
        sc, meta = gen_case(rng)
        d = os.path.join(base, 'case%03d' % i)
        if os.path.exists(d):
            shutil.rmtree(d)
        os.makedirs(d)
        json.dump(sc, open(os.path.join(d, 'scenario.json'), 'w'), indent=1)
        res = run_case(d, sc, meta, stats, verbose)
        for kind, msg in res:
            dis.append(dict(case=i, kind=kind, signature=kind, msg=msg, scenario=os.path.join(d, 'scenario.json')))
        if verbose:
            print('case %d: %d species, %d particles, %d steps, every %d: %s' % (i, len(meta['names']), len(sc['particles']), meta['steps'], meta['every'], 'ok' if not res else res[:3]), file=sys.stderr)
        if not res and not keep:
            shutil.rmtree(d)
    summ = dict(check='corr_restart', seed=seed, cases=ncases, **stats,
                disagreements=len(dis), by_kind={k: sum(1 for x in dis if x['kind'] == k) for k in sorted({x['kind'] for x in dis})},
                first=dis[:10], kept=(base if (dis or keep) else None),
                not_compared='VALUES of the force_<q>_<k> accumulator columns (persistent-flagged and written, but zeroed by '
                             'Integrator*::isAboutToStart in every run); their columns are still part of the text comparison',
                classified_findings={'boundary-loss': 'a particle whose written coordinate is >= the upper box bound is dropped by '
                                     'ParticleCreatorFile::createParticles (findCell -> region_t::isInside is strict, run A keeps it via isInsideEps)'})
    if not dis and not keep:
        shutil.rmtree(base, ignore_errors=True)
    print(json.dumps(summ, indent=1, default=str))
    return 1 if dis else 0

if __name__ == '__main__':
    sys.exit(main(sys.argv))
