"""Scenario files for the real sympler binary and parser of the VerifObserver dump (H-sim of DESIGN.md 1.4).

A scenario is a plain dict (JSON-serialisable; numbers are strings "p/q" or "p" = exact rationals):
  {
    "box": ["4","4","4"], "periodic": [true,true,false],
    "sim": {"simName": "s", ...extra <Simulation> attributes},
    "controller": {"dt": "1/16", "timesteps": 3},
    "integrators": [["IntegratorVelocityVerlet", {"species": "A", "lambda": "1/2", "mass": "1"}], ...],
    "modules": [[tag, {attrs}, [children...]], ...]           # forces, symbols, callables, meters; in input order
    "pair_creator": ["LinkedListCreator", {}],
    "boundary_children": [["ReflectorMirror", {}]],
    "particles": [{"species": "A", "frozen": false, "r": [..3], "v": [..3], "tags": {"name": value-or-list}}...],
    "tag_columns": {"A": ["name", ...]},                       # header of the particle file per species
    "connectors": [{"name": "bond", "species": ["A","A"], "pairs": [[i, j], ...]}]   # indices into "particles"
  }
Attribute values that are rationals are written as exact decimals (all generated numbers are dyadic or short decimals).
"""
import os
import re
import subprocess
from fractions import Fraction


def F(x):
    if isinstance(x, Fraction):
        return x
    if isinstance(x, (int,)):
        return Fraction(x)
    if isinstance(x, str):
        return Fraction(x)
    if isinstance(x, float):
        return Fraction(x)
    raise TypeError(x)


def rat(x):
    x = F(x)
    return str(x.numerator) if x.denominator == 1 else "%d/%d" % (x.numerator, x.denominator)


def dec(x):
    """exact decimal string of a rational whose denominator has only factors 2 and 5; else 17 significant digits"""
    x = F(x)
    d = x.denominator
    k = 0
    dd = d
    while dd % 2 == 0:
        dd //= 2
        k += 1
    m = 0
    while dd % 5 == 0:
        dd //= 5
        m += 1
    if dd != 1:
        return repr(float(x))
    e = max(k, m)
    n = x.numerator * (10 ** e) // d
    s = str(abs(n)).rjust(e + 1, "0")
    out = s[:-e] + "." + s[-e:] if e > 0 else s
    out = out.rstrip("0").rstrip(".") if "." in out else out
    return ("-" if n < 0 else "") + (out or "0")


def is_rat_string(v):
    return isinstance(v, str) and re.fullmatch(r"-?\d+(/\d+)?", v) is not None


def attr_value(v):
    if isinstance(v, bool):
        return "yes" if v else "no"
    if isinstance(v, int):
        return str(v)
    if isinstance(v, Fraction):
        return dec(v)
    if is_rat_string(v):
        return dec(Fraction(v))
    return str(v)


def xml_escape(s):
    return s.replace("&", "&amp;").replace('"', "&quot;").replace("<", "&lt;").replace(">", "&gt;")


def emit_module(mod, indent):
    tag, attrs = mod[0], mod[1]
    children = mod[2] if len(mod) > 2 else []
    pad = "  " * indent
    s = pad + "<" + tag
    for k, v in attrs.items():
        s += ' %s="%s"' % (k, xml_escape(attr_value(v)))
    if children:
        s += ">\n" + "".join(emit_module(c, indent + 1) for c in children) + pad + "</%s>\n" % tag
    else:
        s += "/>\n"
    return s


def scenario_xml(sc, observer=True):
    sim = dict(sc.get("sim", {}))
    sim.setdefault("simName", "s")
    sim.setdefault("inputFromResults", "no")
    ctrl = dict(sc["controller"])
    ctrl.setdefault("statusEvery", 1000000)
    mods = [["Controller", ctrl, [list(i) for i in sc["integrators"]]]]
    mods += [list(m) for m in sc.get("modules", [])]
    if observer:
        mods.append(["VerifObserver", {"nameOutputFile": "obs.txt"}])
    bc = [list(b) for b in sc.get("boundary_children", [["ReflectorMirror", {}]])]   # sympler insists on a reflector, also in periodic boxes
    if sc.get("particles"):
        bc.append(["ParticleCreatorFile", {"nameInputFile": "particles.pos"}])
    for i, con in enumerate(sc.get("connectors", [])):
        pass
    if sc.get("connectors"):
        # one connector file per species pair-list owner species (ParticleConnectorFile wants a species)
        ca = dict(sc.get("connector_attrs", {}))
        ca.setdefault("species", " ".join(connector_species(sc)))
        bc.append(["ParticleConnectorFile", {"nameInputFile": "connectors.con", **ca}])
    b = sc["box"]
    p = sc["periodic"]
    battrs = {"boxX": b[0], "boxY": b[1], "boxZ": b[2], "periodicX": bool(p[0]), "periodicY": bool(p[1]), "periodicZ": bool(p[2])}
    battrs.update(sc.get("boundary_attrs", {}))
    boundary = [sc.get("boundary_tag", "BoundaryCuboid"), battrs, bc]
    phase = ["Phase", dict(sc.get("phase_attrs", {})), [list(sc.get("pair_creator", ["LinkedListCreator", {}])), boundary]]
    mods.append(phase)
    mods += [list(m) for m in sc.get("modules_after_phase", [])]
    return emit_module(["Simulation", sim, mods], 0)


def tag_text(v):
    if isinstance(v, (list, tuple)):
        if len(v) == 3:
            return "(" + ",".join(dec(x) for x in v) + ")"
        if len(v) == 9:
            rows = ["(" + ",".join(dec(x) for x in v[3 * i:3 * i + 3]) + ")" for i in range(3)]
            return "(" + ",".join(rows) + ")"
        raise ValueError(v)
    return dec(v)


def particle_file(sc):
    species = sc.get("species_order") or sorted({p["species"] for p in sc["particles"]})
    cols = sc.get("tag_columns", {})
    out = []
    for s in species:
        out.append(" ".join([s] + list(cols.get(s, [])) + ["!!!"]))
    out.append("!!!")
    for p in sc["particles"]:
        f = [p["species"], "frozen" if p.get("frozen") else "free"]
        f += [dec(x) for x in p["r"]] + [dec(x) for x in p.get("v", [0, 0, 0])]
        for c in cols.get(p["species"], []):
            f.append(tag_text(p.get("tags", {}).get(c, 0)))
        out.append(" ".join(f))
    out.append("!!!")
    return "\n".join(out) + "\n"


def slots(sc):
    """slot of each particle of the scenario: particles get slots in file order per (species, free/frozen) list"""
    counters = {}
    res = []
    for p in sc["particles"]:
        k = (p["species"], bool(p.get("frozen")))
        res.append(counters.get(k, 0))
        counters[k] = counters.get(k, 0) + 1
    return res


def connector_species(sc):
    """species list of the ParticleConnectorFile: particle indices in the connector file count through these species in
    this order (separately for free and frozen particles)"""
    a = sc.get("connector_attrs", {}).get("species")
    if a:
        return a.split()
    return sc.get("species_order") or sorted({p["species"] for p in sc["particles"]})


def connector_file(sc):
    sl = slots(sc)
    order = connector_species(sc)
    count = {}
    for p in sc["particles"]:
        k = (p["species"], bool(p.get("frozen")))
        count[k] = count.get(k, 0) + 1

    def gidx(i):
        p = sc["particles"][i]
        fz = bool(p.get("frozen"))
        off = 0
        for sp in order:
            if sp == p["species"]:
                break
            off += count.get((sp, fz), 0)
        return off + sl[i]
    out = []
    for con in sc["connectors"]:
        out.append("pair %s %s %s" % (con["name"], con["species"][0], con["species"][1]))
    out.append("!!!")
    for con in sc["connectors"]:
        for (i, j) in con["pairs"]:
            pi, pj = sc["particles"][i], sc["particles"][j]
            out.append("pair %s %d %s %d %s" % (con["name"], gidx(i), "frozen" if pi.get("frozen") else "free", gidx(j), "frozen" if pj.get("frozen") else "free"))
    return "\n".join(out) + "\n"


def write_case(d, sc, observer=True):
    os.makedirs(d, exist_ok=True)
    open(os.path.join(d, "in.xml"), "w").write(scenario_xml(sc, observer))
    if sc.get("particles"):
        open(os.path.join(d, "particles.pos"), "w").write(particle_file(sc))
    if sc.get("connectors"):
        open(os.path.join(d, "connectors.con"), "w").write(connector_file(sc))


def run_sympler(d, binary, timeout=120, env=None):
    e = dict(os.environ)
    e["TMP"] = os.path.abspath(d)          # compiled expressions go to the case directory
    if env:
        e.update(env)
    try:
        p = subprocess.run([binary, "in.xml"], cwd=d, stdout=subprocess.PIPE, stderr=subprocess.STDOUT, timeout=timeout, env=e)
        out = p.stdout.decode(errors="replace")
        open(os.path.join(d, "out.log"), "w").write(out)
        return p.returncode, out
    except subprocess.TimeoutExpired as ex:
        return 124, (ex.stdout or b"").decode(errors="replace") + "\n[timeout]"


# ------------------------------------------------------------------ observer dump

def hx(s):
    return Fraction(float.fromhex(s))


def hx3(ws):
    return [hx(w) for w in ws[:3]]


def parse_tag(fields):
    """' | name TYPE persist values...' segments (already split on '|') -> dict name -> (type, persistent, value)"""
    res = {}
    for seg in fields:
        w = seg.split()
        if not w:
            continue
        name, ty, pers = w[0], w[1], w[2] == "1"
        vals = w[3:]
        if ty == "INT":
            v = int(vals[0])
        elif ty == "DOUBLE":
            v = hx(vals[0])
        elif ty == "POINT":
            v = [hx(x) for x in vals[:3]]
        elif ty == "TENSOR":
            v = [hx(x) for x in vals[:9]]
        elif ty == "VECTOR_DOUBLE":
            v = [hx(x) for x in vals[1:]]
        else:
            v = None
        res[name] = (ty, pers, v)
    return res


def parse_obs(path):
    """-> (prelude, [step dict]); step: dict with keys step, forceidx, dt, t, box, periodic, species, particles, cells,
    activecells, links, activelinks, cps, pairs, bonds, stages, symtrace"""
    steps = []
    cur = None
    symtrace = []
    for line in open(path):
        line = line.rstrip("\n")
        if not line:
            continue
        w = line.split()
        k = w[0]
        if k == "VSYM":
            symtrace.append((w[1], int(w[2]), w[3], w[4] if len(w) > 4 else ""))
            continue
        if k == "VSTEP":
            cur = dict(step=int(w[1]), forceidx=int(w[2].split("=")[1]), dt=hx(w[3].split("=")[1]), t=hx(w[4].split("=")[1]),
                       species={}, particles=[], cells=[], links=[], activelinks={}, cps=[], pairs=[], bonds=[], stages=[],
                       symtrace=symtrace)
            symtrace = []
            continue
        if cur is None:
            continue
        if k == "VBOX":
            cur["box"] = (hx3(w[1:4]), hx3(w[4:7]))
            cur["periodic"] = [int(x) for x in w[7:13]]
        elif k == "VSPECIES":
            cur["species"][int(w[1])] = w[2]
        elif k == "VSTAGE":
            cur["stages"].append(dict(kind=w[1], c1=w[2], c2=w[3], cls=w[4], symbol=w[5] if len(w) > 6 else "", stage=int(w[-1])))
        elif k == "VP":
            segs = line.split(" | ")
            h = segs[0].split()
            cur["particles"].append(dict(colour=int(h[1]), slot=int(h[2]), frozen=(h[3] == "frozen"), c=int(h[4].split("=")[1]),
                                         isFrozen=int(h[5].split("=")[1]), r=hx3(h[6:9]), v=hx3(h[9:12]), f0=hx3(h[12:15]), f1=hx3(h[15:18]),
                                         tag=parse_tag(segs[1:])))
        elif k == "VCELL":
            segs = line.split(" | ")
            h = segs[0].split()
            cell = dict(idx=int(h[1]), c1=hx3(h[2:5]), c2=hx3(h[5:8]), npart=int(h[8].split("=")[1]), free={}, frozen={}, inj={})
            for s in segs[1:]:
                ws = s.split()
                cell[ws[0]][int(ws[1])] = [int(x) for x in ws[2:]]
            cur["cells"].append(cell)
        elif k == "VACTIVECELLS":
            cur["activecells"] = dict(n=int(w[1].split("=")[1]), order=[int(x) for x in w[2:]])
        elif k == "VLINK":
            cur["links"].append(dict(idx=int(w[1]), first=int(w[2]), second=int(w[3]), align=int(w[4]), dist=hx3(w[5:8]),
                                     nact=int(w[8].split("=")[1]), ao=w[9].split("=")[1],
                                     thread=int(w[10].split("=")[1]) if len(w) > 10 else 0))
        elif k == "VACTIVELINKS":
            cur["activelinks"][int(w[1].split("=")[1])] = dict(n=int(w[2].split("=")[1]), order=[int(x) for x in w[3:]])
        elif k == "VCP":
            cur["cps"].append(dict(c1=int(w[1]), c2=int(w[2]), cutoff=hx(w[3].split("=")[1]), need=int(w[4].split("=")[1])))
        elif k in ("VPAIR", "VBOND"):
            segs = line.split(" | ")
            h = segs[0].split()
            if k == "VPAIR":
                d = dict(c1=int(h[1]), c2=int(h[2]), kind=h[3], thread=int(h[4]), s1=int(h[5]), fz1=int(h[6]), s2=int(h[7]), fz2=int(h[8]),
                         d=hx3(h[9:12]), abs2=hx(h[12]), abs=hx(h[13]), ao=h[14].split("=")[1], tag=parse_tag(segs[1:]))
                cur["pairs"].append(d)
            else:
                d = dict(c1=int(h[1]), c2=int(h[2]), list=h[3], s1=int(h[4]), fz1=int(h[5]), s2=int(h[6]), fz2=int(h[7]),
                         d=hx3(h[8:11]), abs2=hx(h[11]), abs=hx(h[12]), ao=h[13].split("=")[1], tag=parse_tag(segs[1:]))
                cur["bonds"].append(d)
        elif k == "VEND":
            steps.append(cur)
            cur = None
    return steps
