#!/usr/bin/env python3
"""Correspondence check for property C03: Lean model (`symdrv`, model `expr`) against the real parser /
interpreter / emitter / gcc (`h_parser`) on a request stream produced by gen_expr.py.

usage: diff_expr.py PREFIX [--jobs N] [--symdrv PATH] [--harness PATH] [--report FILE] [--timeout S]

Reads PREFIX.req and PREFIX.cases.jsonl.  For every `expr` request it compares

  parse     canonical prefix form of the tree or the error kind                     model  == real      (text)
  type/toC  result type and every emitted C string                                  model  == real      (text)
  value     interpreter `value()`                                                   model  == real      (exact rationals)
  compiled  value of the gcc-compiled function                                      real compiled == real interpreter
                                                                                    (bit for bit), model `evalC∘parseC` == real compiled
  meaning   value of the generator's own tree under the documented semantics        reference == real interpreter

Numbers are compared as exact rationals.  Where a double computation had to round (the exact value is not
a double, or differs from the double result by less than 1e-12 relative) the case is counted as `rounded`
and not as a disagreement; everything else that differs is reported.  Outcomes the model predicts for the
real code beyond errors are compared as well: `hang` (endless loop), `crash` (signal), `int-trunc`
(the compiled code performs a truncating integer division).
Exit status 0 iff there is no unexplained disagreement.
"""
import sys, json, subprocess, os
from fractions import Fraction as F
from concurrent.futures import ThreadPoolExecutor

def opts():
    a = sys.argv[1:]
    if not a: print(__doc__); sys.exit(2)
    o = {'prefix': a[0], '--jobs': str(os.cpu_count() or 4), '--symdrv': '/verif/lean/.lake/build/bin/symdrv',
         '--harness': '/verif/.work/bin/h_parser', '--report': None, '--timeout': '20'}
    i = 1
    while i < len(a):
        o[a[i]] = a[i + 1]; i += 2
    return o

def blocks_of_requests(lines):
    """split at `reset`"""
    out, cur = [], []
    for l in lines:
        if l == 'reset' and cur:
            out.append(cur); cur = []
        cur.append(l)
    if cur: out.append(cur)
    return out

def transcript(text):
    """list of dicts per `expr` block"""
    out, cur = [], None
    for l in text.splitlines():
        if l.startswith('expr'):
            cur = {'expr': l[5:] if len(l) > 5 else ''}
        elif l == 'end':
            if cur is not None: out.append(cur)
            cur = None
        elif cur is not None:
            k = l.split(' ', 1)[0]
            cur[k] = l[len(k) + 1:] if len(l) > len(k) else ''
    return out

def num(tok):
    if tok in ('inf', '-inf', 'nan'): return tok
    return F(tok)

def nums(s):
    return [num(t) for t in s.split()]

def representable(x):
    """is the rational a finite IEEE double?"""
    if not isinstance(x, F): return False
    if x == 0: return True
    d = x.denominator
    if d & (d - 1): return False
    n = abs(x.numerator)
    while n % 2 == 0: n //= 2
    return n < 2 ** 53

def close(a, b):
    if not (isinstance(a, F) and isinstance(b, F)): return False
    if a == b: return True
    m = max(abs(a), abs(b))
    return abs(a - b) <= m * F(1, 10 ** 12)

def cmp_vals(exact, dbl, strict=False, scale=None):
    """'exact' | 'rounded' | 'differ'.  strict: the double computation is known not to round, only equality
    passes.  scale: magnitude of the largest intermediate value of a computation known to round; a
    deviation below 1e-9*scale counts as rounding (cancellation)."""
    if len(exact) != len(dbl): return 'differ'
    res = 'exact'
    for e, d in zip(exact, dbl):
        if e == d: continue
        # outside the range of doubles: overflow to +-inf, underflow to 0
        if isinstance(e, F) and d in ('inf', '-inf') and abs(e) >= F(2) ** 1023 and (e > 0) == (d == 'inf'):
            res = 'rounded'; continue
        if isinstance(e, F) and isinstance(d, F) and e != 0 and abs(e) < F(1, 2 ** 1000) and abs(d) < F(1, 2 ** 1000):
            res = 'rounded'; continue
        if strict: return 'differ'
        if close(e, d): res = 'rounded'; continue
        if scale is not None and isinstance(e, F) and isinstance(d, F) and abs(e - d) <= scale * F(1, 10 ** 9):
            res = 'rounded'; continue
        return 'differ'
    return res

def main():
    o = opts()
    pre = o['prefix']
    req = open(pre + '.req').read().splitlines()
    cases = [json.loads(l) for l in open(pre + '.cases.jsonl')]
    blocks = blocks_of_requests(req)
    # model: one run
    m = subprocess.run([o['--symdrv']], input='model expr\n' + '\n'.join(req) + '\n', capture_output=True, text=True)
    if m.returncode != 0:
        print('symdrv failed:', m.stderr); sys.exit(2)
    M = transcript(m.stdout)
    # harness: blocks in parallel
    def runblock(b):
        r = subprocess.run([o['--harness'], o['--timeout']], input='\n'.join(b) + '\n', capture_output=True, text=True,
                           cwd=os.path.dirname(os.path.abspath(pre)) or '.')
        return r.stdout
    with ThreadPoolExecutor(max_workers=int(o['--jobs'])) as ex:
        outs = list(ex.map(runblock, blocks))
    H = []
    for t in outs: H.extend(transcript(t))
    if not (len(M) == len(H) == len(cases)):
        print('transcript lengths differ: model %d harness %d cases %d' % (len(M), len(H), len(cases))); sys.exit(2)
    stat = {}
    def cnt(k): stat[k] = stat.get(k, 0) + 1
    bad, findings = [], {}
    def finding(kind, c, **kw):
        findings.setdefault(kind, [])
        if len(findings[kind]) < 25:
            d = {'id': c['id'], 'text': c['text']}; d.update(kw); findings[kind].append(d)
        cnt('finding:' + kind)
    for c, mm, hh in zip(cases, M, H):
        cid = c['id']
        def fail(what, **kw):
            d = {'id': cid, 'text': c['text'], 'what': what, 'model': mm, 'real': {k: (v[:300] if isinstance(v, str) else v) for k, v in hh.items()}}
            d.update(kw); bad.append(d); cnt('FAIL:' + what)
        if mm['expr'] != hh['expr'] or mm['expr'] != c['text']:
            fail('protocol'); continue
        # ---------------- parse
        mp, hp = mm.get('parse'), hh.get('parse')
        if mp == 'err:hang':
            if 'hang' in hh and hp is None: cnt('parse:hang'); finding('hang', c)
            else: fail('parse-hang')
            continue
        if mp == 'err:crash':
            if 'crash' in hh and hp is None: cnt('parse:crash'); finding('crash-in-parse', c, signal=hh['crash'])
            else: fail('parse-crash')
            continue
        if mp == 'err:exotic-number':
            cnt('abstain:exotic-number'); continue
        if mp != hp:
            fail('parse'); continue
        if mp.startswith('err:'):
            cnt('parse:' + mp)
            ref = c.get('ref')
            if ref is not None and 'values' in ref:
                fail('meaning-rejected')       # a well-formed, well-typed generated expression was rejected
            continue
        cnt('parse:ok')
        # ---------------- type / toC
        mt, ht = mm.get('type'), hh.get('type')
        skipC = False
        if mt == 'err:crash':
            if 'crash' in hh and ht is None: cnt('toC:crash'); finding('crash-in-toC', c, signal=hh['crash'])
            else: fail('toC-crash')
            continue
        if mt in ('err:opaque', 'err:range'):
            cnt('abstain:toC-' + mt[4:]); skipC = True
        elif mt != ht: fail('type'); continue
        elif mm.get('toC') != hh.get('toC'): fail('toC'); continue
        else: cnt('toC:' + ('err' if mt == 'err' else 'same'))
        mcomp = (mm.get('compiled') or '').split()
        if 'crash' in hh and hh['crash'] in ('4', '8') and hh.get('compiled') is None and ht not in (None, 'err'):
            if 'err:int-div0' in mcomp:
                cnt('compiled:int-div0-crash'); finding('int-division-by-zero-crash', c, signal=hh['crash'], interpreter=hh.get('value'))
                continue
            ctext = hh.get('toC') or ''
            if any(x in mcomp for x in ('err:div0', 'err:opaque', 'err:random', 'err:range')) and \
               ('/(0)' in ctext or '? 1 : 0)/(' in ctext or '/(1)' in ctext):
                # the model evaluator stops at the first division by zero / oracle call and cannot see a later
                # int/int division by zero, which is evident in the emitted text
                cnt('compiled:crash-after-div0'); finding('crash-after-division-by-zero(model stops earlier)', c, signal=hh['crash'], interpreter=hh.get('value'))
                continue
        if 'crash' in hh or 'hang' in hh:
            fail('unpredicted-' + ('crash' if 'crash' in hh else 'hang')); continue
        # ---------------- interpreter value
        ref = c.get('ref')
        strict = bool(ref and ref.get('exact'))
        scale = F(ref['scale']) if ref and 'scale' in ref else None
        mv, hv = mm.get('value'), hh.get('value')
        hvals = None if hv in (None, 'err') else nums(hv)
        mvals = None
        if mv == 'err':
            if hv == 'err': cnt('value:type-error')
            else: fail('value-type')
        elif mv.startswith('err:'):
            cnt('value:model-' + mv[4:])
            if hv == 'err': fail('value-err-kind')
        else:
            mvals = nums(mv)
            if hvals is None: fail('value-real-err')
            else:
                r = cmp_vals(mvals, hvals, strict, scale)
                if r == 'differ': fail('value')
                else: cnt('value:' + r)
        # ---------------- compiled vs interpreter (real), model evalC vs compiled
        mc, hc = mm.get('compiled'), hh.get('compiled')
        if ht not in (None, 'err'):
            if hc is None: fail('compiled-missing')
            elif hc.startswith('err'):
                finding('gcc-rejects', c); cnt('compiled:gcc-error')
            else:
                hcv = nums(hc)
                random_ = 'uran' in c['text']
                if hvals is not None and not random_:
                    if hcv == hvals or (all(a == b or (a == 'nan' and b == 'nan') for a, b in zip(hcv, hvals)) and len(hcv) == len(hvals)):
                        cnt('compiled:bit-identical')
                    elif 'err:int-trunc' in mcomp:
                        finding('int-division', c, interpreter=hv, compiled=hc); cnt('compiled:int-trunc-predicted')
                    elif strict:
                        fail('compiled-vs-interpreter')
                    elif all(isinstance(a, F) and isinstance(b, F) and close(a, b) for a, b in zip(hcv, hvals)):
                        cnt('compiled:rounded')
                    elif mv in ('err:div0',) or any(not isinstance(a, F) for a in hcv + hvals):
                        cnt('compiled:nonfinite-differs'); finding('nonfinite-differs', c, interpreter=hv, compiled=hc)
                    else:
                        fail('compiled-vs-interpreter')
                if not skipC and mc is not None and len(mcomp) == len(hcv):
                    # per component: a value is compared, an error component is skipped
                    pairs = [(F(a), b) for a, b in zip(mcomp, hcv) if not a.startswith('err')]
                    if pairs:
                        r = cmp_vals([a for a, _ in pairs], [b for _, b in pairs], strict, scale)
                        if r == 'differ': fail('model-evalC')
                        else: cnt('evalC:' + r)
                    if hvals is not None and not random_:
                        for a, b, d in zip(mcomp, hcv, hvals):
                            if a == 'err:int-trunc' and b == d: fail('int-trunc-not-observed')
        # ---------------- documented meaning (generator's own tree)
        ref = c.get('ref')
        if ref is not None:
            if 'values' in ref:
                rv = [F(x) for x in ref['values']]
                if hvals is None:
                    # the usual reading is well typed, the parser's grouping is not: rejected, not misread
                    cnt('meaning:welltyped-but-rejected'); finding('usual-reading-welltyped-but-rejected', c)
                else:
                    r = cmp_vals(rv, hvals, strict, scale)
                    if r == 'differ': fail('meaning')
                    else: cnt('meaning:' + r)
            elif ref['err'] == 'type':
                if hvals is not None or (ht not in (None, 'err')): fail('meaning-accepts-illtyped')
                else: cnt('meaning:type-error-rejected')
            elif ref['err'] == 'scalar-contraction':
                cnt('meaning:scalar-contraction')
                finding('scalar-contraction', c, interpreter=hv, toC=ht)
            else:
                cnt('meaning:ref-' + ref['err'])
    summary = {'cases': len(cases), 'stat': dict(sorted(stat.items())), 'unexplained': len(bad), 'findings': findings}
    if o['--report']:
        json.dump({'summary': summary, 'bad': bad}, open(o['--report'], 'w'), indent=1, ensure_ascii=False)
    print(json.dumps(summary['stat'], indent=1))
    for k, v in findings.items():
        print('finding class %-20s %d  e.g. %s' % (k, stat.get('finding:' + k, 0), json.dumps(v[0], ensure_ascii=False)[:300]))
    for b in bad[:40]:
        print('DISAGREE', b['what'], json.dumps(b['text'], ensure_ascii=False))
        for k in ('parse', 'type', 'toC', 'value', 'compiled'):
            if b['model'].get(k) != b['real'].get(k):
                print('    %-8s model: %s' % (k, (b['model'].get(k) or '')[:160]))
                print('    %-8s real : %s' % (k, (b['real'].get(k) or '')[:160]))
        for k in ('crash', 'hang'):
            if k in b['real']: print('    real', k, b['real'][k])
    print('unexplained disagreements: %d of %d' % (len(bad), len(cases)))
    sys.exit(1 if bad else 0)

if __name__ == '__main__':
    main()
