#!/usr/bin/env python3
"""Correspondence check for property C03: Lean model (`symdrv`, model `expr`) against the real parser /
interpreter / emitter / gcc (`h_parser`) on a request stream produced by gen_expr.py.

usage: diff_expr.py PREFIX [--jobs N] [--symdrv PATH] [--harness PATH] [--report FILE] [--timeout S]

Reads PREFIX.req and PREFIX.cases.jsonl.  For every `expr` request it compares

  parse     canonical prefix form of the tree or the error kind                     model  == real      (text)
  type/toC  result type and every emitted C string                                  model  == real      (text)
  value     interpreter `value()`                                                   model  == real      (exact rationals)
  compiled  value of the gcc-compiled function                                      real compiled == real interpreter
                                                                                    (bit for bit), model `evalC∘parseC` == real compiled
  meaning   value of the generator's own tree under the documented semantics        reference == real interpreter

Numbers are compared as exact rationals.  Where a double computation had to round (the exact value is not
a double, or differs from the double result by less than 1e-12 relative) the case is counted as `rounded`
and not as a disagreement; everything else that differs is reported.

Since /repo ad91e0f + 461b1b3 the real code neither hangs nor dies nor emits integer divisions, and the model
(`Sympler/Expr.lean`) no longer has such outcomes.  Accordingly
  * a `hang` / `crash` line of the harness is ALWAYS a disagreement (`unpredicted-hang` / `unpredicted-crash`);
  * a model line `parse err:hang|crash`, `type err:crash` or a `compiled` component `err:int-trunc|int-div0` is
    ALWAYS a disagreement (`model-predicts-old-behaviour`): the emitter theorems prove they cannot occur;
  * the model's `parse err:unbalanced` ("Unbalanced brackets in expression ...") matches the harness's
    `parse err:unbalanced`, and also `parse err:other` printed by a harness binary built before errKind() knew
    that message (h_parser.cpp: add `if (msg.find("Unbalanced brackets in expression") != npos) return
    "unbalanced";` — the unknown-symbol message mentions "Unbalanced brackets" too);
  * compiled vs interpreter: an exact value below the subnormal range (a^5000 with |a| < 1: pow() gives 0, the
    unrolled product stays at the smallest subnormal) counts as rounding (`compiled:underflow-differs`);
  * cases without a generator reference (category `malformed`) have no `scale`; for them the magnitude of the
    emitted C text (every variable replaced by its absolute value, every `-` by `+`; only texts made of loads,
    literals, `+ - *` and brackets) is used as `scale`, so that cancellation in det(..) / {A}:{B}°{M} is
    recognised as rounding exactly as it is for the generated cases;
  * Python's limit on the length of integer literals is lifted (exact powers have thousands of digits).
(The last three are independent of the two commits.)
Exit status 0 iff there is no unexplained disagreement.
"""
import sys, json, subprocess, os
if hasattr(sys, 'set_int_max_str_digits'): sys.set_int_max_str_digits(0)   # exact powers have thousands of digits
from fractions import Fraction as F
from concurrent.futures import ThreadPoolExecutor

def opts():
    a = sys.argv[1:]
    if not a: print(__doc__); sys.exit(2)
    o = {'prefix': a[0], '--jobs': str(os.cpu_count() or 4), '--symdrv': '/verif/lean/.lake/build/bin/symdrv',
         '--harness': '/verif/.work/bin/h_parser', '--report': None, '--timeout': '20'}
    i = 1
    while i < len(a):
        o[a[i]] = a[i + 1]; i += 2
    return o

def blocks_of_requests(lines):
    """split at `reset`"""
    out, cur = [], []
    for l in lines:
        if l == 'reset' and cur:
            out.append(cur); cur = []
        cur.append(l)
    if cur: out.append(cur)
    return out

def transcript(text):
    """list of dicts per `expr` block"""
    out, cur = [], None
    for l in text.splitlines():
        if l.startswith('expr'):
            cur = {'expr': l[5:] if len(l) > 5 else ''}
        elif l == 'end':
            if cur is not None: out.append(cur)
            cur = None
        elif cur is not None:
            k = l.split(' ', 1)[0]
            cur[k] = l[len(k) + 1:] if len(l) > len(k) else ''
    return out

def num(tok):
    if tok in ('inf', '-inf', 'nan'): return tok
    return F(tok)

def nums(s):
    return [num(t) for t in s.split()]

def representable(x):
    """is the rational a finite IEEE double?"""
    if not isinstance(x, F): return False
    if x == 0: return True
    d = x.denominator
    if d & (d - 1): return False
    n = abs(x.numerator)
    while n % 2 == 0: n //= 2
    return n < 2 ** 53

def close(a, b):
    if not (isinstance(a, F) and isinstance(b, F)): return False
    if a == b: return True
    m = max(abs(a), abs(b))
    return abs(a - b) <= m * F(1, 10 ** 12)

def cmp_vals(exact, dbl, strict=False, scale=None):
    """'exact' | 'rounded' | 'differ'.  strict: the double computation is known not to round, only equality
    passes.  scale: magnitude of the largest intermediate value of a computation known to round; a
    deviation below 1e-9*scale counts as rounding (cancellation)."""
    if len(exact) != len(dbl): return 'differ'
    res = 'exact'
    for e, d in zip(exact, dbl):
        if e == d: continue
        # outside the range of doubles: overflow to +-inf, underflow to 0
        if isinstance(e, F) and d in ('inf', '-inf') and abs(e) >= F(2) ** 1023 and (e > 0) == (d == 'inf'):
            res = 'rounded'; continue
        if isinstance(e, F) and isinstance(d, F) and e != 0 and abs(e) < F(1, 2 ** 1000) and abs(d) < F(1, 2 ** 1000):
            res = 'rounded'; continue
        if strict: return 'differ'
        if close(e, d): res = 'rounded'; continue
        if scale is not None and isinstance(e, F) and isinstance(d, F) and abs(e - d) <= scale * F(1, 10 ** 9):
            res = 'rounded'; continue
        return 'differ'
    return res

import re
LOAD = re.compile(r'\*\(\(double\*\) \(\(char\*\) particle_tag \+ (\d+)\)\)')
LIT = re.compile(r'\d+\.?\d*(?:[eE]\d+)?|\.\d+(?:[eE]\d+)?')

def magnitude(ctext, mem):
    """upper bound of the intermediate magnitudes of an emitted C text made of loads, literals, + - * and
    brackets: variables -> absolute values, `-` -> `+`; None for any other text"""
    t = LOAD.sub(lambda m: '@%d@' % (int(m.group(1)) // 8), ctext)
    if re.search(r'[A-Za-z_?:/>,]', t): return None

    out, i = [], 0
    while i < len(t):
        c = t[i]
        if c == '@':
            j = t.index('@', i + 1); out.append('V[%s]' % t[i + 1:j]); i = j + 1
        elif c.isdigit() or c == '.':
            m = LIT.match(t, i)
            if not m: return None
            out.append('F("%s")' % m.group(0)); i = m.end()
        elif c == '-': out.append('+'); i += 1
        elif c in '+*() ': out.append(c); i += 1
        else: return None
    try:
        return eval(''.join(out), {'__builtins__': {}}, {'V': [abs(x) for x in mem], 'F': F})
    except Exception:
        return None

def memories(req):
    """the tag (list of rationals) as it is when each `expr` request is processed"""
    out, mem = [], []
    for l in req:
        if l == 'reset': mem = []
        elif l.startswith('var '):
            mem = mem + [F(x) for x in l.split()[3:]]
        elif l.startswith('expr'): out.append(mem)
    return out

def main():
    o = opts()
    pre = o['prefix']
    req = open(pre + '.req').read().splitlines()
    cases = [json.loads(l) for l in open(pre + '.cases.jsonl')]
    blocks = blocks_of_requests(req)
    mems = memories(req)
    # model: the blocks are self-contained (each starts with `reset`), so they run in parallel too (one long run is slow: the
    # driver's cost grows faster than linearly with the length of its input)
    def runmodel(b):
        m = subprocess.run([o['--symdrv']], input='model expr\n' + '\n'.join(b) + '\n', capture_output=True, text=True)
        if m.returncode != 0:
            print('symdrv failed:', m.stderr); sys.exit(2)
        return m.stdout
    with ThreadPoolExecutor(max_workers=int(o['--jobs'])) as ex:
        mouts = list(ex.map(runmodel, blocks))
    M = []
    for t in mouts: M.extend(transcript(t))
    # harness: blocks in parallel
    def runblock(b):
        r = subprocess.run([o['--harness'], o['--timeout']], input='\n'.join(b) + '\n', capture_output=True, text=True,
                           cwd=os.path.dirname(os.path.abspath(pre)) or '.')
        return r.stdout
    with ThreadPoolExecutor(max_workers=int(o['--jobs'])) as ex:
        outs = list(ex.map(runblock, blocks))
    H = []
    for t in outs: H.extend(transcript(t))
    if not (len(M) == len(H) == len(cases)):
        print('transcript lengths differ: model %d harness %d cases %d' % (len(M), len(H), len(cases))); sys.exit(2)
    stat = {}
    def cnt(k): stat[k] = stat.get(k, 0) + 1
    bad, findings = [], {}
    def finding(kind, c, **kw):
        findings.setdefault(kind, [])
        if len(findings[kind]) < 25:
            d = {'id': c['id'], 'text': c['text']}; d.update(kw); findings[kind].append(d)
        cnt('finding:' + kind)
    for c, mm, hh, mem in zip(cases, M, H, mems):
        cid = c['id']
        def fail(what, **kw):
            d = {'id': cid, 'text': c['text'], 'what': what, 'model': mm, 'real': {k: (v[:300] if isinstance(v, str) else v) for k, v in hh.items()}}
            d.update(kw); bad.append(d); cnt('FAIL:' + what)
        if mm['expr'] != hh['expr'] or mm['expr'] != c['text']:
            fail('protocol'); continue
        # ---------------- parse
        mp, hp = mm.get('parse'), hh.get('parse')
        if mp in ('err:hang', 'err:crash'):
            fail('model-predicts-old-behaviour'); continue
        if 'crash' in hh or 'hang' in hh:
            fail('unpredicted-' + ('crash' if 'crash' in hh else 'hang')); continue
        if mp == 'err:unbalanced' and hp == 'err:other':
            hp = 'err:unbalanced'      # harness binary older than the "Unbalanced brackets" error kind
        if mp == 'err:exotic-number':
            cnt('abstain:exotic-number'); continue
        if mp != hp:
            fail('parse'); continue
        if mp.startswith('err:'):
            cnt('parse:' + mp)
            ref = c.get('ref')
            if ref is not None and 'values' in ref:
                fail('meaning-rejected')       # a well-formed, well-typed generated expression was rejected
            continue
        cnt('parse:ok')
        # ---------------- type / toC
        mt, ht = mm.get('type'), hh.get('type')
        skipC = False
        if mt == 'err:crash':
            fail('model-predicts-old-behaviour'); continue
        if mt in ('err:opaque', 'err:range'):
            cnt('abstain:toC-' + mt[4:]); skipC = True
        elif mt != ht: fail('type'); continue
        elif mm.get('toC') != hh.get('toC'):
            fail('toC'); skipC = True      # the implementation-side checks below (compiled vs interpreter, meaning) still run
        else: cnt('toC:' + ('err' if mt == 'err' else 'same'))
        mcomp = (mm.get('compiled') or '').split()
        if 'err:int-trunc' in mcomp or 'err:int-div0' in mcomp:
            fail('model-predicts-old-behaviour'); continue
        if 'crash' in hh or 'hang' in hh:
            fail('unpredicted-' + ('crash' if 'crash' in hh else 'hang')); continue
        # ---------------- interpreter value
        ref = c.get('ref')
        strict = bool(ref and ref.get('exact'))
        scale = F(ref['scale']) if ref and 'scale' in ref else None
        if ref is None and hh.get('toC'):
            mags = [magnitude(t, mem) for t in hh['toC'].split(' | ')]
            if all(x is not None for x in mags): scale = max(mags)
        mv, hv = mm.get('value'), hh.get('value')
        hvals = None if hv in (None, 'err') else nums(hv)
        mvals = None
        if mv == 'err':
            if hv == 'err': cnt('value:type-error')
            else: fail('value-type')
        elif mv.startswith('err:'):
            cnt('value:model-' + mv[4:])
            if hv == 'err': fail('value-err-kind')
        else:
            mvals = nums(mv)
            if hvals is None: fail('value-real-err')
            else:
                r = cmp_vals(mvals, hvals, strict, scale)
                if r == 'differ': fail('value')
                else: cnt('value:' + r)
        # ---------------- compiled vs interpreter (real), model evalC vs compiled
        mc, hc = mm.get('compiled'), hh.get('compiled')
        if ht not in (None, 'err'):
            if hc is None: fail('compiled-missing')
            elif hc.startswith('err'):
                finding('gcc-rejects', c); cnt('compiled:gcc-error')
            else:
                hcv = nums(hc)
                random_ = 'uran' in c['text']
                if hvals is not None and not random_:
                    if hcv == hvals or (all(a == b or (a == 'nan' and b == 'nan') for a, b in zip(hcv, hvals)) and len(hcv) == len(hvals)):
                        cnt('compiled:bit-identical')
                    elif strict:
                        fail('compiled-vs-interpreter')
                    elif all(isinstance(a, F) and isinstance(b, F) and close(a, b) for a, b in zip(hcv, hvals)):
                        cnt('compiled:rounded')
                    elif all(isinstance(a, F) and isinstance(b, F) and abs(a) < F(1, 2 ** 1000) and abs(b) < F(1, 2 ** 1000)
                             for a, b in zip(hcv, hvals)):
                        cnt('compiled:underflow-differs'); finding('underflow-differs', c, interpreter=hv, compiled=hc)
                    elif mv in ('err:div0',) or any(not isinstance(a, F) for a in hcv + hvals):
                        cnt('compiled:nonfinite-differs'); finding('nonfinite-differs', c, interpreter=hv, compiled=hc)
                    else:
                        fail('compiled-vs-interpreter')
                if not skipC and mc is not None and len(mcomp) == len(hcv):
                    # per component: a value is compared, an error component is skipped
                    pairs = [(F(a), b) for a, b in zip(mcomp, hcv) if not a.startswith('err')]
                    if pairs:
                        r = cmp_vals([a for a, _ in pairs], [b for _, b in pairs], strict, scale)
                        if r == 'differ': fail('model-evalC')
                        else: cnt('evalC:' + r)
        # ---------------- documented meaning (generator's own tree)
        ref = c.get('ref')
        if ref is not None:
            if 'values' in ref:
                rv = [F(x) for x in ref['values']]
                if hvals is None:
                    # the usual reading is well typed, the parser's grouping is not: rejected, not misread
                    cnt('meaning:welltyped-but-rejected'); finding('usual-reading-welltyped-but-rejected', c)
                else:
                    r = cmp_vals(rv, hvals, strict, scale)
                    if r == 'differ': fail('meaning')
                    else: cnt('meaning:' + r)
            elif ref['err'] == 'type':
                if hvals is not None or (ht not in (None, 'err')): fail('meaning-accepts-illtyped')
                else: cnt('meaning:type-error-rejected')
            elif ref['err'] == 'scalar-contraction':
                cnt('meaning:scalar-contraction')
                finding('scalar-contraction', c, interpreter=hv, toC=ht)
            else:
                cnt('meaning:ref-' + ref['err'])
    summary = {'cases': len(cases), 'stat': dict(sorted(stat.items())), 'unexplained': len(bad), 'findings': findings}
    if o['--report']:
        json.dump({'summary': summary, 'bad': bad}, open(o['--report'], 'w'), indent=1, ensure_ascii=False)
    print(json.dumps(summary['stat'], indent=1))
    for k, v in findings.items():
        print('finding class %-20s %d  e.g. %s' % (k, stat.get('finding:' + k, 0), json.dumps(v[0], ensure_ascii=False)[:300]))
    for b in bad[:40]:
        print('DISAGREE', b['what'], json.dumps(b['text'], ensure_ascii=False))
        for k in ('parse', 'type', 'toC', 'value', 'compiled'):
            if b['model'].get(k) != b['real'].get(k):
                print('    %-8s model: %s' % (k, (b['model'].get(k) or '')[:160]))
                print('    %-8s real : %s' % (k, (b['real'].get(k) or '')[:160]))
        for k in ('crash', 'hang'):
            if k in b['real']: print('    real', k, b['real'][k])
    print('unexplained disagreements: %d of %d' % (len(bad), len(cases)))
    sys.exit(1 if bad else 0)

if __name__ == '__main__':
    main()
