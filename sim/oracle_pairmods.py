#!/usr/bin/env python3
"""Implementation-side oracle (no model) for the pair modules the exact-arithmetic model does not instantiate:
FDPD, LJ, ThermostatPetersIso (square roots, random numbers), per-particle expressions of stage 0 / 1 / 2 overwriting a persistent scalar.  Properties C04 and C10.

usage: oracle_pairmods.py <seed> <ncases> [--sympler BIN] [--keep DIR]

Scenarios: 1-2 species in both registration orders, 4-10 free and 0-4 frozen particles in a fully periodic 4x4x4 box, one or two
of the modules above on random species pairs, 3-6 steps.  Oracles on the observer dump:
  frozen     every frozen particle keeps r, v and every tag attribute bit for bit (C10; C04 'only free particles are pushed')
  momentum   no frozen particle and equal masses: sum of m v is constant to 1e-11 relative after every step (C04 reciprocity)
Prints a JSON summary; exit status 1 on any violation."""
import sys, os, json, random, shutil
from fractions import Fraction as F
sys.path.insert(0, os.path.dirname(os.path.abspath(__file__)))
import symlib

SYMPLER = '/verif/.work/build-hooks/sympler'
KINDS = ['FDPD', 'LJ', 'ThermostatPetersIso', 'ThermostatLA', 'CacheStage', 'CacheStage']


def gen(rng):
    nsp = rng.choice([1, 2, 2])
    species = ['A', 'B'][:nsp]
    rng.shuffle(species)
    nfree = rng.randint(4, 10)
    nfrozen = rng.choice([0, 0, 1, 2, 3, 4])
    parts, used = [], set()
    def place():
        while True:
            r = tuple(F(rng.randint(4, 20), 8) for _ in range(3))      # a cluster of ~2 box units: many pairs inside the cutoff
            if r not in used and all(sum((a - b) ** 2 for a, b in zip(r, u)) >= F(1, 4) for u in used):
                used.add(r)
                return r
    for k in range(nfree):
        sp = species[k % nsp] if k < nsp else rng.choice(species)
        parts.append({'species': sp, 'frozen': False, 'r': [symlib.rat(x) for x in place()], 'v': [symlib.rat(F(rng.randint(-4, 4), 8)) for _ in range(3)]})
    for k in range(nfrozen):
        parts.append({'species': rng.choice(species), 'frozen': True, 'r': [symlib.rat(x) for x in place()], 'v': [symlib.rat(F(rng.randint(-2, 2), 8)) for _ in range(3)]})
    rng.shuffle(parts)
    mods = [['Lucy', {'name': 'wf', 'cutoff': '1'}]]
    kinds = []
    extra_integrators, tagcols = [], {}
    for _ in range(rng.choice([1, 1, 2])):
        kind = rng.choice(KINDS)
        s1, s2 = rng.choice(species), rng.choice(species)
        idx = {s: i for i, s in enumerate(species)}
        if idx[s1] > idx[s2] and kind.startswith('Thermostat'):
            s1, s2 = s2, s1
        kinds.append(kind)
        if kind == 'CacheStage':
            # a per-particle expression that post-processes a persistent scalar in place, in the early symbol pass (stage 0), the
            # default pass (1) or both (2): free particles only
            st = rng.choice(['0', '0', '2', '1'])
            kinds[-1] = 'CacheStage' + st
            if not any(ig[0] == 'IntegratorScalar' and ig[1]['species'] == s1 for ig in extra_integrators):
                extra_integrators.append(['IntegratorScalar', {'species': s1, 'scalar': 'q', 'symbol': 'q'}])
                for p in parts:
                    if p['species'] == s1:
                        p.setdefault('tags', {})['q'] = symlib.rat(F(rng.randint(-8, 8), 4))
                tagcols[s1] = ['q']
            mods.append(['ParticleScalar', {'species': s1, 'symbol': 'q', 'overwrite': 'yes', 'stage': st, 'expression': 'q+1'}])
        elif kind == 'FDPD':
            mods.append(['FDPD', {'species1': s1, 'species2': s2, 'weightingFunction': 'wf', 'dissipation': '2', 'kBToverM': '1'}])
        elif kind == 'LJ':
            mods.append(['LJ', {'species1': s1, 'species2': s2, 'sigma': '0.5', 'epsilon': '0.25', 'cutoff': '1'}])
        elif kind == 'ThermostatPetersIso':
            mods.append(['ThermostatPetersIso', {'species1': s1, 'species2': s2, 'weightingFunction': 'wf', 'dissipation': '1', 'kBToverM': '1'}])
        elif kind == 'ThermostatLA':
            # Lowe-Andersen thermostat: loops over the free AND the frozen pairs of its species pair
            i1, i2 = sorted([s1, s2], key=lambda s_: idx[s_])
            mods.append(['ThermostatLA', {'species1': i1, 'species2': i2, 'cutoff': '1', 'kBToverM': '1', 'probability': '1',
                                          'particleFactor_i': 'idVec(1)', 'particleFactor_j': 'idVec(1)', 'particleAddend_i': 'idVec(0)', 'particleAddend_j': 'idVec(0)', 'activateAt': '0'}])
        else:
            raise ValueError(kind)
    # every colour pair needs a pair module so that the lists exist
    for i, a in enumerate(species):
        for b in species[i:]:
            mods.append(['FPairVels', {'species1': a, 'species2': b, 'cutoff': '1', 'pairFactor': '0*[rij]'}])
    sc = {'box': ['4', '4', '4'], 'periodic': [True, True, True], 'sim': {'randomize': 'no'},
          'controller': {'dt': '1/64', 'timesteps': rng.randint(3, 6)},
          'integrators': [['IntegratorVelocityVerlet', {'species': s, 'lambda': '1/2', 'mass': '1'}] for s in species] + extra_integrators,
          'modules': mods, 'particles': parts, 'species_order': species, 'tag_columns': tagcols}
    return sc, dict(kinds=kinds, nfrozen=nfrozen, nspecies=nsp)


def gen_owncut(rng):
    """C04 / C07 'only inside the own cutoff': the neighbour list reaches further than the module under test (a second module with a
    larger cutoff on the same species pair); every partner of every particle lies BEYOND the own cutoff but inside the list cutoff.
    kind 'force': FPairVels with cutoff rc < 1 -> particles at rest must stay at rest.
    kind 'rho':   ValCalculatorRho (Lucy kernel, cutoff 1, with self contribution) -> the density is the self contribution alone."""
    kind = rng.choice(['force', 'rho'])
    n = rng.randint(2, 4)
    if kind == 'force':
        rc = rng.choice([F(1, 4), F(1, 2), F(3, 4), F(1, 2)])
        lo, hi, listcut = rc, F(1), F(1)
    else:
        rc, lo, hi, listcut = F(1), F(1), F(2), F(2)
    # particles on a line along x with gaps in (lo, hi) (dyadic), so that every partner is beyond the own cutoff
    xs = [F(1, 2)]
    for _ in range(n - 1):
        gap = lo + (hi - lo) * F(rng.randint(1, 7), 8)
        xs.append(xs[-1] + gap)
    box = 4 if kind == 'force' else 8
    parts = [{'species': 'A', 'frozen': False, 'r': [symlib.rat(x), '2', '2'], 'v': ['0', '0', '0']} for x in xs if x < box - F(1, 2)]
    mods = []
    if kind == 'force':
        mods.append(['FPairVels', {'species1': 'A', 'species2': 'A', 'cutoff': symlib.rat(rc), 'pairFactor': '8*[rij]'}])
        mods.append(['FPairVels', {'species1': 'A', 'species2': 'A', 'cutoff': symlib.rat(listcut), 'pairFactor': '0*[rij]'}])
    else:
        mods.append(['Lucy', {'name': 'wk', 'cutoff': '1'}])
        mods.append(['ValCalculatorRho', {'symbol': 'n', 'weightingFunction': 'wk', 'species1': 'A', 'species2': 'A', 'selfContribution': 'yes'}])
        mods.append(['PairParticleScalar', {'species1': 'A', 'species2': 'A', 'symbol': 'cnt', 'expression': '1', 'cutoff': symlib.rat(listcut), 'symmetry': 1}])
    sc = {'box': [str(box)] * 3, 'periodic': [True, True, True], 'sim': {'randomize': 'no'}, 'controller': {'dt': '1/64', 'timesteps': 2},
          'integrators': [['IntegratorVelocityVerlet', {'species': 'A', 'lambda': '1/2', 'mass': '1'}]],
          'modules': mods, 'particles': parts, 'species_order': ['A'], 'tag_columns': {}}
    return sc, dict(kinds=['OwnCutoff-' + kind], nfrozen=0, nspecies=1, owncut=kind, gaps=[str(b - a) for a, b in zip(xs, xs[1:])], rc=str(rc))


def oracle_owncut(steps, meta):
    import math
    bad = []
    for st in steps:
        for p in st['particles']:
            if meta['owncut'] == 'force':
                if any(x != 0 for x in p['v']):
                    bad.append(('own-cutoff', 'step %d: particle (slot %d) moves (v = %s) although every partner is beyond the force cutoff %s (gaps %s)'
                                % (st['step'], p['slot'], [float(x) for x in p['v']], meta['rc'], meta['gaps'])))
            elif 'n' in p['tag'] and st['step'] >= 0:
                want = 105.0 / (16.0 * math.pi)          # Lucy self contribution W(0) for cutoff 1
                got = float(p['tag']['n'][2])
                if abs(got - want) > 1e-9 * want:
                    bad.append(('own-cutoff', 'step %d: kernel density of particle (slot %d) is %r, the self contribution alone is %r: a partner beyond the kernel cutoff contributes (gaps %s)'
                                % (st['step'], p['slot'], got, want, meta['gaps'])))
        if bad:
            break
    return bad


def oracle(steps, meta):
    if meta.get('owncut'):
        return oracle_owncut(steps, meta)
    bad = []
    first = steps[0]
    fz0 = {(p['colour'], p['slot']): p for p in first['particles'] if p['frozen']}
    for st in steps[1:]:
        for p in st['particles']:
            if not p['frozen']:
                continue
            q = fz0.get((p['colour'], p['slot']))
            if q is None:
                bad.append(('frozen', 'step %d: frozen particle (c=%d,slot=%d) appeared' % (st['step'], p['colour'], p['slot']))); continue
            for k in ('r', 'v'):
                if list(p[k]) != list(q[k]):
                    bad.append(('frozen', 'step %d: frozen particle (c=%d,slot=%d) %s changed from %s to %s' % (st['step'], p['colour'], p['slot'], k,
                                                                                                                    [str(x) for x in q[k]], [float(x) for x in p[k]])))
            for n, t in p['tag'].items():
                if n.startswith('force_') or n.startswith('copy'):
                    continue
                if n in q['tag'] and t != q['tag'][n]:
                    bad.append(('frozen', 'step %d: frozen particle (c=%d,slot=%d) attribute %s changed' % (st['step'], p['colour'], p['slot'], n)))
        if len([p for p in st['particles'] if p['frozen']]) != len(fz0):
            bad.append(('frozen', 'step %d: number of frozen particles changed' % st['step']))
        if bad:
            return bad
    if meta['nfrozen'] == 0:
        def mom(st):
            return [sum(p['v'][k] for p in st['particles']) for k in range(3)]
        m0 = mom(first)
        scale = max(1, max(abs(x) for p in first['particles'] for x in p['v']))
        for st in steps[1:]:
            m = mom(st)
            if any(abs(a - b) > F(1, 10 ** 11) * scale * len(st['particles']) for a, b in zip(m, m0)):
                bad.append(('momentum', 'step %d: total momentum %s, initially %s' % (st['step'], [float(x) for x in m], [float(x) for x in m0])))
                break
    return bad


def main(argv):
    global SYMPLER
    seed, n = int(argv[1]), int(argv[2])
    if '--sympler' in argv: SYMPLER = argv[argv.index('--sympler') + 1]
    keep = argv[argv.index('--keep') + 1] if '--keep' in argv else None
    work = keep or '/verif/.work/oracle_pairmods_%d_%d' % (seed, os.getpid())
    rng = random.Random(seed)
    summ = dict(seed=seed, cases=0, kinds={}, with_frozen=0, momentum_checked=0, failed_runs=0, violations=[])
    for case in range(n):
        sc, meta = gen(rng) if case % 4 != 3 else gen_owncut(rng)
        d = os.path.join(work, 'c%d' % case)
        shutil.rmtree(d, ignore_errors=True)
        symlib.write_case(d, sc)
        rc, out = symlib.run_sympler(d, SYMPLER, timeout=120)
        if rc != 0 or not os.path.exists(os.path.join(d, 'obs.txt')):
            summ['failed_runs'] += 1
            if 'flew farther' not in out:
                summ.setdefault('failed_messages', []).append(out[-200:])
            shutil.rmtree(d, ignore_errors=True)
            continue
        steps = symlib.parse_obs(os.path.join(d, 'obs.txt'))
        summ['cases'] += 1
        for k in meta['kinds']: summ['kinds'][k] = summ['kinds'].get(k, 0) + 1
        summ['with_frozen'] += meta['nfrozen'] > 0
        summ['momentum_checked'] += meta['nfrozen'] == 0
        for sig, what in oracle(steps, meta)[:1]:
            summ['violations'].append(dict(case=case, oracle=sig, detail=what, kinds=meta['kinds'], scenario=sc))
        if not keep: shutil.rmtree(d, ignore_errors=True)
    if not keep: shutil.rmtree(work, ignore_errors=True)
    summ['ok'] = not summ['violations']
    summ['violations'] = summ['violations'][:6]
    print(json.dumps(summ, indent=1, default=str))
    return 0 if summ['ok'] else 1


if __name__ == '__main__':
    sys.exit(main(sys.argv))
