"""C02 correspondence: Verlet-list scenarios on the real binary.

family A (force-free, exact): constant velocities with rational speeds (axis aligned or 3-4-5 multiples), so the displacement
  magnitudes the scan sees are exact rationals.  Observed per step: displacement and displacement__Old of every particle
  (-> did the list get rebuilt?), the pair lists.  Compared with the Lean driver `verlet`: `scan skin ms` on the magnitudes in
  storage order (or `every` in counter mode), `wrapvec` for the refreshed distance of every listed pair.
family B (with forces): the same input once with VerletCreator and once with LinkedListCreator; forces must be identical.
oracle (both families, on the dump): every pair with true minimum-image separation < interaction cutoff is listed exactly once with
  its current separation; no listed pair reports a separation < interaction cutoff unless that is its true current separation.
"""
import os
import sys
from fractions import Fraction
from math import isqrt

sys.path.insert(0, os.path.dirname(os.path.abspath(__file__)))
import symlib  # noqa: E402

F = Fraction


def rat_norm(v):
    """exact norm of a rational vector if it is rational, else None"""
    s = sum(x * x for x in v)
    n, d = s.numerator, s.denominator
    a, b = isqrt(n), isqrt(d)
    if a * a == n and b * b == d:
        return F(a, b)
    return None


DIRS = [(1, 0, 0), (0, 1, 0), (0, 0, 1), (-1, 0, 0), (0, -1, 0), (0, 0, -1), (3, 4, 0), (-3, 0, 4), (0, 3, -4), (4, -3, 0)]


def gen_case(r, family="A", force_mode=None):
    """returns a scenario description (dict) for symlib plus meta"""
    n_cells = r.choice([2, 3, 4])
    rc = F(1)
    skin = r.choice([F(1, 8), F(1, 4), F(1, 2), F(1), F(3, 8)])
    # cell width w = L/n must be dyadic (exact regime): L = n * w with trunc(L / (rc+skin)) = n
    L = []
    for _ in range(3):
        cut = rc + skin
        while True:
            n = r.choice([2, 2, 3, 4])
            w = cut + r.choice([F(0), F(1, 8), F(1, 4), F(1, 2)])
            def dyadic(x):
                d = x.denominator
                return d & (d - 1) == 0
            n_ll = int((n * w) / rc)          # cells of the linked-cell run of family B (cutoff without skin)
            if int((n * w) / cut) == n and (family == "A" or dyadic((n * w) / n_ll)):
                break
        L.append(n * w)
    periodic = [r.random() < 0.7 for _ in range(3)]
    every = 0
    if force_mode and force_mode.endswith("-every1"):
        # violation search in counter mode at its boundary value: the list must be rebuilt in EVERY step
        force_mode = force_mode[:-len("-every1")]
        every = 1
    elif r.random() < 0.35 and not force_mode:
        every = r.choice([1, 1, 1, 2, 3, 5])      # every = 1 (rebuild in every step) is the boundary value of the counter test
    dt = F(1, r.choice([4, 8, 16]))
    nsteps = r.randrange(3, 9)
    npart = r.randrange(2, 9)
    parts = []
    mode = force_mode or r.choice(["headon", "slowfast", "random", "ascending", "descending"])
    speeds = []
    for k in range(npart):
        if mode == "slowfast":
            sp = F(r.choice([1, 1, 1, 2]), 16) if k < npart - 1 else F(r.choice([8, 12, 16]), 8)
        elif mode == "ascending":
            sp = F(k + 1, 8)
        elif mode == "descending":
            sp = F(npart - k, 8)
        else:
            sp = F(r.randrange(0, 17), 8)
        speeds.append(sp)
    for k in range(npart):
        d = r.choice(DIRS)
        if 3 in [abs(x) for x in d]:
            # 3-4-5 direction: components stay dyadic, the speed is 5 * unit (rational)
            unit = F(max(1, int(speeds[k] * 8) // 5), 8) if speeds[k] > 0 else F(0)
            v = [F(x) * unit for x in d]
        else:
            v = [F(x) * speeds[k] for x in d]
        # keep particles away from walls in non-periodic directions for the whole run
        pos = []
        for a in range(3):
            margin = abs(v[a]) * dt * nsteps + F(1, 4)
            lo, hi = (margin, L[a] - margin) if not periodic[a] else (F(0), L[a] - F(1, 16))
            if lo >= hi:
                v[a] = F(0)
                lo, hi = F(1, 4), L[a] - F(1, 4)
            x = lo + (hi - lo) * F(r.randrange(0, 65), 64)
            x = F(round(x * 16), 16)
            x = min(max(x, lo), hi)
            pos.append(x)
        parts.append(dict(r=pos, v=v))
    if mode == "headon" and npart >= 2:
        # two particles approaching head-on along x, the slower one stored first or second
        a, b = (0, 1) if r.random() < 0.5 else (1, 0)
        y, z = L[1] / 2, L[2] / 2
        gap = rc + skin * (r.choice([F(1, 2), F(3, 4), F(1), F(5, 4)]) if not force_mode else r.choice([F(9, 8), F(5, 4), F(3, 2)]))
        x0 = F(round((L[0] / 2 - gap / 2) * 16), 16)
        parts[a] = dict(r=[x0, y, z], v=[F(r.choice([1, 2, 3]), 8), F(0), F(0)])
        parts[b] = dict(r=[x0 + gap, y, z], v=[-F(r.choice([3, 4, 6]), 8), F(0), F(0)])
    two = r.random() < 0.5
    spec = ["A", "B"] if two else ["A"]
    for k, p in enumerate(parts):
        p["species"] = spec[k % len(spec)] if mode != "headon" or k > 1 else None
    if mode == "headon" and npart >= 2:
        # the two approaching particles are of different species in half of the two-species cases
        parts[0]["species"] = "A"
        parts[1]["species"] = "B" if two else "A"
    for p in parts:
        if p["species"] is None:
            p["species"] = "A"
    if two and not any(p["species"] == "B" for p in parts):
        parts[-1]["species"] = "B"
    # frozen (wall) particles: never move, never count for the displacement criterion, but their pairs with free particles are
    # listed (frozen list) and must be cleared and rebuilt like the free ones
    nfrozen = 0
    if r.random() < 0.45:
        for k, p in enumerate(parts):
            if (mode != "headon" or k > 1) and r.random() < 0.5:
                p["frozen"] = True
                p["v"] = [F(0)] * 3
                nfrozen += 1
        for sp_ in spec:      # every species needs at least one free particle (its position integrator needs one)
            if not any(p["species"] == sp_ and not p.get("frozen") for p in parts):
                q = [p for p in parts if p["species"] == sp_][0]
                q["frozen"] = False
                nfrozen -= 1
    force = "0*[rij]" if family == "A" else r.choice(["[rij]", "(1/2)*[rij]", "[rij]+(1/4)*[vij]".replace("[vij]", "([vi]-[vj])")])
    sc = {"box": [symlib.rat(x) for x in L], "periodic": periodic,
          "controller": {"dt": symlib.rat(dt), "timesteps": nsteps},
          "integrators": [["IntegratorVelocityVerletDisp", {"species": sp, "lambda": "1/2", "mass": "1", "displacement": "displacement", "symbol": "ds"}] for sp in spec],
          "modules": [["FPairVels", {"species1": sa, "species2": sb, "cutoff": symlib.rat(rc), "pairFactor": force}] for sa in spec for sb in spec if sa <= sb],
          "pair_creator": ["VerletCreator", {"skinSize": symlib.rat(skin), "every": every, "displacement": "displacement"}],
          "particles": [{"species": p["species"], "frozen": bool(p.get("frozen")), "r": [symlib.rat(x) for x in p["r"]], "v": [symlib.rat(x) for x in p["v"]]} for p in parts],
          "species_order": spec}
    meta = dict(nfrozen=nfrozen, rc=rc, skin=skin, L=L, periodic=periodic, every=every, dt=dt, nsteps=nsteps, mode=mode, family=family, species=len(spec))
    return sc, meta


def minimg(d, L, periodic):
    out = []
    for x, l, p in zip(d, L, periodic):
        if p:
            while x > l / 2:
                x -= l
            while x < -l / 2:
                x += l
        out.append(x)
    return out


def premise_holds(step, meta):
    """fixed-interval mode: the property presupposes a rebuild interval within the safe interval, i.e. no two particles
    have together moved the skin since the last rebuild"""
    if meta["every"] == 0:
        return True
    ps = [p for p in step["particles"] if not p["frozen"]]
    if meta.get("family") == "A":
        # force-free runs: measured against the DOCUMENTED schedule (a rebuild at the first call and then at every `every`-th call;
        # Lean: C02_every_mode), not against the code's own bookkeeping - a broken counter must not switch the oracle off.
        # call index k = step + 1; m = calls since the last scheduled rebuild; displacement of a particle since then = |v| dt m
        m = (step["step"] + 1) % meta["every"]
        ms = sorted((sum(x * x for x in p["v"]) * meta["dt"] * meta["dt"] * m * m for p in ps), reverse=True)
        if len(ms) < 2:
            return True
        return 2 * (ms[0] + ms[1]) < meta["skin"] * meta["skin"]
    ms = []
    for p in ps:
        d = [a - b for a, b in zip(p["tag"]["displacement"][2], p["tag"]["displacement__Old"][2])]
        ms.append(sum(x * x for x in d))
    ms.sort(reverse=True)
    if len(ms) < 2:
        return True
    # (|a|+|b|)^2 <= 2(a^2+b^2): sufficient rational test
    return 2 * (ms[0] + ms[1]) < meta["skin"] * meta["skin"]


def oracle_step(step, meta):
    """the property on one dumped step; returns list of error strings"""
    errs = []
    if not premise_holds(step, meta):
        return errs
    rc = meta["rc"]
    L, per = meta["L"], meta["periodic"]
    ps = {(p["colour"], int(bool(p["frozen"])), p["slot"]): p for p in step["particles"]}
    listed = {}
    for pr in step["pairs"]:
        a, b = (pr["c1"], pr["fz1"], pr["s1"]), (pr["c2"], pr["fz2"], pr["s2"])
        key = (min(a, b), max(a, b))
        listed.setdefault(key, []).append(pr)
    ids = sorted(ps)
    for i in range(len(ids)):
        for j in range(i + 1, len(ids)):
            if ids[i][1] and ids[j][1]:
                continue                      # frozen-frozen pairs are never listed
            a, b = ps[ids[i]], ps[ids[j]]
            d = minimg([x - y for x, y in zip(a["r"], b["r"])], L, per)
            d2 = sum(x * x for x in d)
            key = (ids[i], ids[j])
            if d2 < rc * rc:
                if key not in listed:
                    errs.append("pair %s with separation^2 %s < cutoff^2 is missing from the list" % (key, d2))
                elif len(listed[key]) != 1:
                    errs.append("pair %s is listed %d times" % (key, len(listed[key])))
    for key, prs in listed.items():
        for pr in prs:
            a, b = ps[(pr["c1"], pr["fz1"], pr["s1"])], ps[(pr["c2"], pr["fz2"], pr["s2"])]
            d = minimg([x - y for x, y in zip(a["r"], b["r"])], L, per)
            true2 = sum(x * x for x in d)
            # the refreshed vector is a double subtraction of two doubles: equal to the exact difference up to one rounding once bit
            # growth (runs with forces) has left the exactly representable range; a STALE vector differs by O(v dt)
            same = all(abs(x - y) <= F(1, 2 ** 36) * max(1, abs(y)) for x, y in zip(pr["d"], d))
            if pr["abs2"] < rc * rc and not same:
                errs.append("listed pair %s reports separation %s (< cutoff) but the true current separation is %s" % (key, [str(x) for x in pr["d"]], [str(x) for x in d]))
            if true2 < rc * rc and not same:
                errs.append("pair %s inside the cutoff is listed with separation %s instead of the current %s" % (key, [str(x) for x in pr["d"]], [str(x) for x in d]))
    return errs


def model_requests(steps, meta):
    """protocol lines for the Lean driver + the values observed on the real run, per step >= 0"""
    reqs = []     # (line, expected-from-real, description)
    prev_listkeys = None
    for k, st in enumerate(steps):
        if st["step"] < 0:
            continue
        ps = sorted([p for p in st["particles"] if not p["frozen"]], key=lambda p: (p["colour"], p["slot"]))
        before = steps[k - 1]
        bps = {(p["colour"], p["slot"]): p for p in before["particles"] if not p["frozen"]}
        # the scan compares the CURRENT displacement with the OLD one as it was before this step's decision
        ms = []
        exact = True
        for p in ps:
            disp = p["tag"]["displacement"][2]
            old = bps[(p["colour"], p["slot"])]["tag"]["displacement__Old"][2]
            m = rat_norm([a - b for a, b in zip(disp, old)])
            if m is None:
                exact = False
                break
            ms.append(m)
        rebuilt = all(p["tag"]["displacement__Old"][2] == p["tag"]["displacement"][2] for p in ps)
        moving = any(p["tag"]["displacement"][2] != bps[(p["colour"], p["slot"])]["tag"]["displacement__Old"][2] for p in ps)
        if meta["every"] == 0 and exact and moving:
            reqs.append(("scan %s %s" % (symlib.rat(meta["skin"]), " ".join(symlib.rat(m) for m in ms)), "scan %d" % (1 if rebuilt else 0),
                         "step %d rebuild decision" % st["step"]))
        if not rebuilt:
            # refreshed distances of all listed pairs
            pmap = {(p["colour"], int(bool(p["frozen"])), p["slot"]): p for p in st["particles"]}
            for pr in st["pairs"][:40]:
                raw = [a - b for a, b in zip(pmap[(pr["c1"], pr["fz1"], pr["s1"])]["r"], pmap[(pr["c2"], pr["fz2"], pr["s2"])]["r"])]
                reqs.append(("wrapvec %s %s" % (" ".join(symlib.rat(x) for x in meta["L"]), " ".join(symlib.rat(x) for x in raw)),
                             "wrapvec " + ",".join(symlib.rat(x) for x in pr["d"]), "step %d refreshed pair %d-%d" % (st["step"], pr["s1"], pr["s2"])))
    if meta["every"] > 0:
        decisions = []
        for k, st in enumerate(steps):
            if st["step"] < 0:
                continue
            ps = [p for p in st["particles"] if not p["frozen"]]
            same = all(p["tag"]["displacement__Old"][2] == p["tag"]["displacement"][2] for p in ps)
            # "rebuilt" shows as displacement == displacement__Old; when no free particle moves the two are equal after a mere refresh
            # as well, so the step tells nothing (None)
            moving = any(any(x != 0 for x in p["v"]) for p in ps)
            decisions.append(same if (moving or not same) else None)
        # step -1 (initial) is the call with counter 0
        reqs.append(("every %d %d" % (meta["every"], len(decisions) + 1), None, decisions))
    return reqs
