#!/usr/bin/env python3
"""Correspondence check + violation search for property C20 (OpenMP build = serial build for every thread count).

usage: corr_omp.py <seed> <ncases> [--keep DIR] [--serial BIN] [--omp BIN] [--threads 1,2,4,8,16] [--repeat N]
       (symdrv path from env SYMDRV, default /verif/lean/.lake/build/bin/symdrv)

Scenarios: the generator of sim/corr_dyn.py (several species, several pair forces per species pair, pair sums incl. allPairs,
particle caches, Euler integrators, frozen particles, dyadic data), LinkedListCreator.
For every scenario
  S   the serial hooked binary (build-hooks) runs it;
  O_T the OpenMP hooked binary (build-omp) runs it with <Simulation nThreads="T"> for every T, `repeat` times each.
ORACLE (serial vs OpenMP, no model): after every step inside the exact horizon (the exact rationals of the Lean model `dyn`
  fit into doubles with room for every product, so sums are order-independent) every particle's r, v, both force buffers and
  every tag attribute that is not a per-thread copy vector are BIT-IDENTICAL between S and every O_T run; beyond the horizon
  they agree to 1e-9 (never counted).  Copy vectors (`copy…`) must be all zero after every step (nothing leaks into the next
  stage or step: theorem C20_steps).
CORRESPONDENCE with the Lean model `threads` (Sympler/Threads.lean):
  assignment  the serial dump of step -1 lists the active links in push-front order, i.e. the reverse of the activation order;
              the model gets `threads T`, `act l` in activation order, `links`; its answer `link l t` must equal the thread the
              OpenMP binary gave to link l (round robin, C20_assignment / C20_round_robin)
  partition   per step: the union over threads of the OpenMP pair lists = the serial pair list as multisets of
              (colours, kind, slots, vector, flags) (C20_partition_pairs), every pair sits in the list of its link's thread
Prints a JSON summary; exit status 1 on any disagreement / oracle violation.
"""
import sys, os, json, random, shutil, subprocess
from fractions import Fraction as F
sys.path.insert(0, os.path.dirname(os.path.abspath(__file__)))
import symlib
import corr_dyn as cd

SERIAL = '/verif/.work/build-hooks/sympler'
OMP = '/verif/.work/build-omp/sympler'
SYMDRV = os.environ.get('SYMDRV', '/verif/lean/.lake/build/bin/symdrv')


def run(gs, d, binary, T=None, env=None):
    if os.path.isdir(d): shutil.rmtree(d)
    sc = cd.to_symlib(gs)
    if T is not None:
        sc['sim'] = dict(sc.get('sim', {}), nThreads=T)
    symlib.write_case(d, sc)
    e = dict(os.environ)
    if T is not None: e['OMP_NUM_THREADS'] = str(T)
    rc, out = symlib.run_sympler(d, binary, timeout=300)
    if rc != 0 or not os.path.exists(os.path.join(d, 'obs.txt')):
        return ('err', rc, out[-800:])
    return ('ok', symlib.parse_obs(os.path.join(d, 'obs.txt')), out)


def particle_rows(st):
    rows = []
    for p in cd.real_particles(st):
        tags = {}
        for n, t in p['tag'].items():
            tags[n] = t
        rows.append((p['colour'], p['slot'], p['frozen'], tuple(p['r']), tuple(p['v']), tuple(p['f0']), tuple(p['f1']), tags))
    return rows


def is_copy(name):
    return name.startswith('copy') or name.startswith('__copy') or 'copy' in name.lower()


def compare_states(a, b, exact):
    """first difference between serial state a and OpenMP state b (particles matched by colour/slot/frozen)"""
    ra, rb = particle_rows(a), particle_rows(b)
    if len(ra) != len(rb): return 'particle count %d vs %d' % (len(ra), len(rb))
    def eq(x, y):
        if exact: return x == y
        return abs(x - y) <= F(1, 10 ** 9) * max(1, abs(x), abs(y))
    for p, q in zip(ra, rb):
        if p[:3] != q[:3]: return 'identity %s vs %s' % (p[:3], q[:3])
        who = 'particle(c=%d,slot=%d,%s)' % (p[0], p[1], 'frozen' if p[2] else 'free')
        for k, nm in ((3, 'r'), (4, 'v'), (5, 'f0'), (6, 'f1')):
            for c in range(3):
                if not eq(p[k][c], q[k][c]): return '%s %s[%d] serial=%s omp=%s' % (who, nm, c, p[k][c], q[k][c])
        for n, t in p[7].items():
            if is_copy(n): continue
            if n not in q[7]: return '%s attribute %s missing in the OpenMP run' % (who, n)
            va, vb = cd.real_tagval(t), cd.real_tagval(q[7][n])
            if va[0] != vb[0] or va[1] != vb[1]: return '%s %s type/persistency %s vs %s' % (who, n, va[:2], vb[:2])
            xs = [va[2]] if va[0] == 'S' else list(va[2])
            ys = [vb[2]] if vb[0] == 'S' else list(vb[2])
            for c, (x, y) in enumerate(zip(xs, ys)):
                if not eq(x, y): return '%s %s[%d] serial=%s omp=%s' % (who, n, c, x, y)
    return None


def copies_nonzero(st):
    for p in st['particles']:
        for n, t in p['tag'].items():
            if not is_copy(n): continue
            vals = t.get('values') if isinstance(t, dict) else None
            if vals is None:
                try:
                    v = cd.real_tagval(t)[2]
                    vals = [v] if not isinstance(v, (tuple, list)) else list(v)
                except Exception:
                    continue
            if any(x != 0 for x in vals):
                return 'particle(c=%d,slot=%d) copy vector %s not zero after the step: %s' % (p['colour'], p['slot'], n, [str(x) for x in vals][:6])
    return None


def canon_pairs(st):
    out = []
    for q in st['pairs']:
        out.append((q['c1'], q['c2'], q['kind'], q['s1'], q['fz1'], q['s2'], q['fz2'], tuple(q['d']), q['ao']))
    return sorted(out)


def model_links(T, order):
    inp = 'model threads\nthreads %d\n' % T + ''.join('act %d\n' % l for l in order) + 'links\n'
    p = subprocess.run([SYMDRV], input=inp.encode(), stdout=subprocess.PIPE, stderr=subprocess.PIPE, timeout=120)
    res = {}
    for l in p.stdout.decode().split('\n'):
        w = l.split()
        if len(w) == 3 and w[0] == 'link': res[int(w[1])] = int(w[2])
    return res


def slot_stress(gs):
    """the same physics written so that the per-thread force-copy slots are used in the less common layout: every species that has
    another integrator lists it BEFORE its velocity-Verlet integrator (the copy slot of the velocity force then starts above 0),
    and every cross-species velocity force names its species in the reverse of the colour order"""
    gs = dict(gs)
    integ = list(gs['integrators'])
    for sp in gs['species']:
        iv = [k for k, ig in enumerate(integ) if ig[0] == 'vv' and ig[1] == sp]
        ie = [k for k, ig in enumerate(integ) if ig[0] == 'euler' and ig[1] == sp]
        if iv and ie and ie[0] > iv[0]:
            integ[iv[0]], integ[ie[0]] = integ[ie[0]], integ[iv[0]]
    gs['integrators'] = integ
    col = {sp: i for i, sp in enumerate(gs['species'])}
    mods = []
    for m in gs['modules']:
        if m[0] == 'pforce' and m[3] == 'vel' and col[m[1]] < col[m[2]]:
            m = (m[0], m[2], m[1]) + tuple(m[3:])
        mods.append(m)
    gs['modules'] = mods
    return gs


def lj_scenario(rng):
    """pair modules OUTSIDE the exact model whose OpenMP branch has its own copy-slot logic: LJ on a cross-species pair written in
    colour order or reversed, one species with another integrator before / after its velocity-Verlet integrator (the two species'
    records then differ).  Floating-point forces: serial and OpenMP runs are compared to 1e-9 relative."""
    nA, nB = rng.randint(3, 6), rng.randint(3, 6)
    parts, used = [], []
    def place():
        while True:
            r = [F(rng.randint(4, 20), 8) for _ in range(3)]
            if all(sum((a - b) ** 2 for a, b in zip(r, u)) >= F(1, 4) for u in used):
                used.append(r); return r
    extra = rng.choice(['A', 'B', 'A', 'B', 'A', 'B', None])
    for sp, n in (('A', nA), ('B', nB)):
        for _ in range(n):
            p = {'species': sp, 'frozen': False, 'r': [symlib.rat(x) for x in place()], 'v': [symlib.rat(F(rng.randint(-2, 2), 8)) for _ in range(3)]}
            if sp == extra: p['tags'] = {'q': symlib.rat(F(rng.randint(-4, 4), 4))}
            parts.append(p)
    rng.shuffle(parts)
    order = ['A', 'B'] if rng.random() < 0.5 else ['B', 'A']
    s1, s2 = (order[0], order[1]) if rng.random() < 0.4 else (order[1], order[0])
    integ = []
    for sp in order:
        vv = ['IntegratorVelocityVerlet', {'species': sp, 'lambda': '1/2', 'mass': '1'}]
        if sp == extra:
            sc = ['IntegratorScalar', {'species': sp, 'scalar': 'q', 'symbol': 'q'}]
            integ += [sc, vv] if rng.random() < 0.75 else [vv, sc]
        else:
            integ.append(vv)
    mods = [['LJ', {'species1': s1, 'species2': s2, 'sigma': '0.5', 'epsilon': '0.25', 'cutoff': '1'}]]
    if rng.random() < 0.5:
        mods.append(['LJ', {'species1': order[0], 'species2': order[0], 'sigma': '0.5', 'epsilon': '0.125', 'cutoff': '1'}])
    for a in order:
        mods.append(['FPairVels', {'species1': a, 'species2': a, 'cutoff': '1', 'pairFactor': '0*[rij]'}])
    return {'box': ['4', '4', '4'], 'periodic': [True, True, True], 'sim': {'randomize': 'no'}, 'controller': {'dt': '1/64', 'timesteps': rng.randint(2, 5)},
            'integrators': integ, 'modules': mods, 'particles': parts, 'species_order': order, 'tag_columns': ({extra: ['q']} if extra else {})}


def lj_family(rng, n, work, threads, summ):
    for case in range(n):
        sc = lj_scenario(rng)
        runs = {}
        for label, binary, T in [('s', SERIAL, None)] + [('o%d' % T, OMP, T) for T in threads[:3]]:
            d = os.path.join(work, 'lj%d_%s' % (case, label))
            if os.path.isdir(d): shutil.rmtree(d)
            sc2 = dict(sc)
            if T is not None: sc2['sim'] = dict(sc['sim'], nThreads=T)
            symlib.write_case(d, sc2)
            rc, out = symlib.run_sympler(d, binary, timeout=300)
            runs[label] = (rc, symlib.parse_obs(os.path.join(d, 'obs.txt')) if rc == 0 and os.path.exists(os.path.join(d, 'obs.txt')) else None, out[-300:])
            shutil.rmtree(d, ignore_errors=True)
        if runs['s'][0] != 0:
            summ['skipped']['lj serial run failed'] = summ['skipped'].get('lj serial run failed', 0) + 1
            continue
        summ['lj_cases'] = summ.get('lj_cases', 0) + 1
        for label, (rc, st, out) in runs.items():
            if label == 's': continue
            summ['lj_omp_runs'] = summ.get('lj_omp_runs', 0) + 1
            if rc != 0 or st is None:
                summ['violations'].append(dict(case='lj%d' % case, T=label, oracle='omp-run', detail='OpenMP run of an LJ scenario failed rc=%s (serial run fine): %s' % (rc, out), scenario=sc))
                break
            bad = None
            for a, b in zip(runs['s'][1], st):
                for pa, pb in zip(a['particles'], b['particles']):
                    for k in ('r', 'v'):
                        for x, y in zip(pa[k], pb[k]):
                            if abs(x - y) > F(1, 10 ** 9) * max(1, abs(x)):
                                bad = 'step %d particle (c=%d,slot=%d) %s: serial %r OpenMP %r' % (a['step'], pa['colour'], pa['slot'], k, float(x), float(y))
                    if bad: break
                if bad: break
            if bad:
                summ['violations'].append(dict(case='lj%d' % case, T=label, oracle='serial-vs-omp', detail=bad, scenario=sc))
                break


def main(argv):
    global SERIAL, OMP
    seed, ncases = int(argv[1]), int(argv[2])
    keep = argv[argv.index('--keep') + 1] if '--keep' in argv else None
    if '--serial' in argv: SERIAL = argv[argv.index('--serial') + 1]
    if '--omp' in argv: OMP = argv[argv.index('--omp') + 1]
    threads = [int(x) for x in (argv[argv.index('--threads') + 1] if '--threads' in argv else '1,2,4,8,16').split(',')]
    repeat = int(argv[argv.index('--repeat') + 1]) if '--repeat' in argv else 1
    work = keep or '/verif/.work/corr_omp_%d_%d' % (seed, os.getpid())
    os.makedirs(work, exist_ok=True)
    rng = random.Random(seed)
    summ = dict(seed=seed, cases=0, omp_runs=0, states_compared=0, exact_states=0, assignment_links=0, partition_states=0, skipped={},
                threads=threads, repeat=repeat, species_counts={}, modules={}, disagreements=[], violations=[])
    def skip(k): summ['skipped'][k] = summ['skipped'].get(k, 0) + 1
    lj_family(random.Random(seed * 7 + 1), max(3, ncases), work, threads, summ)
    for case in range(ncases):
        gs = cd.gen_scenario(rng, None)
        if case % 2 == 1:
            gs = slot_stress(gs)
            summ['slot_stress'] = summ.get('slot_stress', 0) + 1
        ms = cd.run_model(gs)
        if isinstance(ms, tuple): skip('model ' + str(ms[1])); continue
        d = os.path.join(work, 'case%d' % case)
        s = run(gs, d + '_s', SERIAL)
        if s[0] != 'ok':
            skip('serial run failed/flew'); continue
        srs = s[1]
        if len(ms) != len(srs): skip('dump count'); continue
        h = cd.exact_horizon(gs, ms)
        summ['cases'] += 1
        summ['species_counts'][len(gs['species'])] = summ['species_counts'].get(len(gs['species']), 0) + 1
        for m in cd.to_symlib(gs)['modules']:
            summ['modules'][m[0]] = summ['modules'].get(m[0], 0) + 1
        # activation order at step -1 = reverse of the serial active-link list
        al = srs[0]['activelinks'][0]['order']
        order = list(reversed(al))
        scenario = cd.to_symlib(gs)
        for T in threads:
            for rep in range(repeat):
                o = run(gs, d + '_o%d_%d' % (T, rep), OMP, T)
                summ['omp_runs'] += 1
                if o[0] != 'ok':
                    summ['violations'].append(dict(case=case, T=T, oracle='omp-run', detail='OpenMP run failed rc=%s: %s' % (o[1], o[2][-300:]), scenario=scenario))
                    continue
                ors = o[1]
                if len(ors) != len(srs):
                    summ['violations'].append(dict(case=case, T=T, oracle='omp-run', detail='%d dumps vs %d serial' % (len(ors), len(srs)), scenario=scenario))
                    continue
                for k, (a, b) in enumerate(zip(srs, ors)):
                    diff = compare_states(a, b, exact=(k < h))
                    summ['states_compared'] += 1
                    if k < h: summ['exact_states'] += 1
                    if diff and k < h:
                        summ['violations'].append(dict(case=case, T=T, rep=rep, oracle='serial-vs-omp', step=a['step'], detail=diff, scenario=scenario))
                        break
                    cz = copies_nonzero(b)
                    if cz:
                        summ['violations'].append(dict(case=case, T=T, rep=rep, oracle='copies-zero', step=a['step'], detail=cz, scenario=scenario))
                        break
                    if canon_pairs(a) != canon_pairs(b):
                        summ['disagreements'].append(dict(case=case, T=T, kind='partition', step=a['step'],
                                                          detail='union of the per-thread pair lists differs from the serial list (%d vs %d pairs)' % (len(b['pairs']), len(a['pairs'])), scenario=scenario))
                        break
                    summ['partition_states'] += 1
                if rep == 0:
                    want = model_links(T, order)
                    got = {l['idx']: l.get('thread', 0) for l in ors[0]['links'] if l['nact'] == 2}
                    summ['assignment_links'] += len(got)
                    if want != got:
                        bad = sorted(k for k in set(want) | set(got) if want.get(k) != got.get(k))[:5]
                        summ['disagreements'].append(dict(case=case, T=T, kind='assignment', step=-1,
                                                          detail='link -> thread: model %s, OpenMP binary %s' % ({k: want.get(k) for k in bad}, {k: got.get(k) for k in bad}), scenario=scenario))
                if not keep: shutil.rmtree(d + '_o%d_%d' % (T, rep), ignore_errors=True)
        if not keep: shutil.rmtree(d + '_s', ignore_errors=True)
    if not keep: shutil.rmtree(work, ignore_errors=True)
    summ['ok'] = not summ['disagreements'] and not summ['violations']
    summ['disagreements'] = summ['disagreements'][:10]
    summ['violations'] = summ['violations'][:10]
    print(json.dumps(summ, indent=1, default=str))
    return 0 if summ['ok'] else 1


if __name__ == '__main__':
    sys.exit(main(sys.argv))
