#!/usr/bin/env python3
"""Correspondence check C01/C09: real sympler (hooked build, VerifObserver dump) vs the Lean model `grid`
(Sympler/Grid.lean, Cells.lean, PairSearch.lean through `symdrv`), plus an independent brute-force
oracle on the dump.

usage: corr_grid.py <seed> <ncases> [--keep dir] [--jobs n] [--only i]

Every random choice comes from one random.Random(seed).  Exit status 1 on any disagreement between
model and code or any oracle violation.  Environment: SYMDRV (model driver, default
/verif/lean/.lake/build/bin/symdrv), SYMPLER (real binary, default /verif/.work/build-hooks/sympler).

Exact-arithmetic regime: box lengths, cutoffs, positions, dt and velocities are small dyadic rationals so
every double operation of the C++ on them is exact and the dump must EQUAL the model's rationals.
`g_geom_eps` = 1e-10 is passed to the model as the rational 1/10^10 (all compared coordinates are
multiples of 2^-12, so the comparisons with `corner ± eps` have the same outcome in double and in Rat).
"""
import json
import os
import random
import shutil
import subprocess
import sys
import tempfile
from concurrent.futures import ThreadPoolExecutor
from fractions import Fraction as Fr

sys.path.insert(0, os.path.dirname(os.path.abspath(__file__)))
import symlib  # noqa: E402

SYMDRV = os.environ.get("SYMDRV", "/verif/lean/.lake/build/bin/symdrv")
SYMPLER = os.environ.get("SYMPLER", "/verif/.work/build-hooks/sympler")
EPS = Fr(1, 10 ** 10)
SPECIES = ["A", "B", "C"]
rat = symlib.rat


def v3(v):
    return ",".join(rat(x) for x in v)


# ------------------------------------------------------------------ scenario generator

def is_pow2(x):
    n, d = x.numerator, x.denominator
    return (n == 1 or d == 1) and (n & (n - 1)) == 0 and (d & (d - 1)) == 0


def gen_case(rng, idx):
    """returns (scenario dict, meta dict)"""
    base = rng.choice([Fr(1, 2), Fr(1), Fr(2)])
    periodic = [bool((idx >> d) & 1) for d in range(3)] if rng.random() < 0.8 else [rng.random() < 0.5 for _ in range(3)]
    shape_kind = rng.choice(["two", "small", "any", "any"])
    if shape_kind == "two":
        n = [2, 2, 2]
        n[rng.randrange(3)] = rng.choice([2, 3])
    elif shape_kind == "small":
        n = [rng.choice([2, 3]) for _ in range(3)]
    else:
        n = [rng.choice([2, 3, 4, 5]) for _ in range(3)]
        while n[0] * n[1] * n[2] > 80:
            n[rng.randrange(3)] = 2
    mode = rng.choice(["even", "uneven", "mixed"])
    w = [base] * 3
    rc = base
    if mode == "uneven":      # cutoff does not divide the box
        cands = [Fr(7, 8), Fr(15, 16), Fr(29, 32)] + ([Fr(3, 4)] if max(n) == 2 else [])
        rc = base * rng.choice(cands)
    elif mode == "mixed":     # different widths per direction, width not a power of two
        for d in range(3):
            allowed = [Fr(1), Fr(9, 8)] + ([Fr(5, 4)] if n[d] <= 3 else []) + ([Fr(11, 8)] if n[d] == 2 else [])
            w[d] = base * rng.choice(allowed)
    L = [n[d] * w[d] for d in range(3)]
    for d in range(3):
        assert int(L[d] / rc) == n[d], (L, rc, n)
    # width a power of two  <=>  inv_width = n/L is exact in double; otherwise no initial particle on a face
    inexact = [not is_pow2(w[d]) for d in range(3)]
    ns = rng.choice([1, 2, 2, 3])
    species = SPECIES[:ns]
    order = species[:]
    rng.shuffle(order)
    dt = rng.choice([Fr(1, 16), Fr(1, 8), Fr(1, 32)])
    T = rng.randint(3, 8)
    # colour pairs with cutoffs; one of them carries the maximum cutoff
    allpairs = [(a, b) for i, a in enumerate(species) for b in species[i:]]
    rng.shuffle(allpairs)
    npairs = rng.randint(1, len(allpairs))
    modules = []
    for i, (a, b) in enumerate(allpairs[:npairs]):
        c = rc if i == 0 else rc * rng.choice([Fr(1), Fr(3, 4), Fr(1, 2), Fr(7, 8), Fr(5, 8)])
        if rng.random() < 0.5:
            a, b = b, a
        modules.append(["FPairVels", {"species1": a, "species2": b, "cutoff": rat(c), "pairFactor": "0*[rij]"}])
    if rng.random() < 0.3 and len(modules) > 0:   # a second module on an existing pair with another cutoff
        m = rng.choice(modules)
        modules.append(["FPairVels", {"species1": m[1]["species1"], "species2": m[1]["species2"],
                                      "cutoff": rat(rc * rng.choice([Fr(1, 2), Fr(3, 4)])), "pairFactor": "0*[rij]"}])
    rng.shuffle(modules)

    kind = rng.choice(["random", "random", "random", "single", "swap", "dense", "cluster", "cluster"])
    N = {"random": rng.randint(1, 10), "single": rng.randint(1, 4), "swap": 2, "dense": rng.randint(8, 16),
         "cluster": rng.randint(5, 14)}[kind]
    fine = Fr(1, 1024)

    def lo_hi(d):
        if periodic[d]:
            return Fr(0), L[d] - fine
        return w[d] / 8, L[d] - w[d] / 8

    def pick_pos(d):
        lo, hi = lo_hi(d)
        r = rng.random()
        if r < 0.35:     # on a cell face / lattice
            x = rng.randrange(0, 4 * n[d] + 1) * w[d] / 4
        elif r < 0.6:    # next to a face
            x = rng.randrange(0, n[d] + 1) * w[d] + rng.choice([-1, 1]) * rng.choice([fine, Fr(1, 64) * base])
        else:
            x = rng.randrange(0, 16 * n[d]) * w[d] / 16
        x = min(max(x, lo), hi)
        if inexact[d] and (x / w[d]).denominator == 1:
            x += w[d] / 8 if x + w[d] / 8 <= hi else -w[d] / 8
        return x

    def pick_delta(d, x, allow_far=False):
        cands = [Fr(0)] * 5 + [s * f * w[d] for s in (-1, 1) for f in (Fr(1, 8), Fr(1, 4), Fr(1, 2), Fr(3, 4), Fr(7, 8), Fr(15, 16))]
        cands += [s * (w[d] - fine) for s in (-1, 1)]
        if allow_far:
            cands = [s * f * w[d] for s in (-1, 1) for f in (Fr(9, 8), Fr(3, 2), Fr(2))]
        if not periodic[d]:
            lo, hi = w[d] / 16, L[d] - w[d] / 16
            cands = [c for c in cands if lo <= x + T * c <= hi] or [Fr(0)]
        return rng.choice(cands)

    particles = []
    far = rng.random() < 0.04
    if kind == "single":
        cell = [rng.randrange(n[d]) for d in range(3)]
        delta = None
        for i in range(N):
            r = []
            for d in range(3):
                lo, hi = lo_hi(d)
                x = cell[d] * w[d] + rng.randrange(1, 8) * w[d] / 8
                r.append(min(max(x, lo), hi))
            if delta is None:
                delta = [pick_delta(d, r[d]) for d in range(3)]
                for d in range(3):
                    if not periodic[d]:
                        delta[d] = Fr(0)
            particles.append((rng.choice(species), False, r, delta))
    elif kind == "swap":
        d0 = rng.randrange(3)
        cell = [rng.randrange(n[d]) for d in range(3)]
        if not periodic[d0]:
            cell[d0] = rng.randrange(n[d0] - 1)
        r1 = [cell[d] * w[d] + w[d] / 2 for d in range(3)]
        r2 = list(r1)
        r2[d0] = r1[d0] + w[d0]
        if r2[d0] >= L[d0]:
            r2[d0] -= L[d0]
        de = [Fr(0)] * 3
        de[d0] = w[d0] * rng.choice([Fr(3, 4), Fr(1, 2), Fr(7, 8)])
        particles.append((rng.choice(species), False, r1, de))
        particles.append((rng.choice(species), False, r2, [-x for x in de]))
        T = min(T, 4) if not periodic[d0] else T
        if not periodic[d0]:
            # keep both inside: stop them from reaching the walls
            T = 1 if cell[d0] in (0, n[d0] - 2) else min(T, 2)
            T = max(T, 1)
    elif kind == "cluster":
        # a cloud of about one cutoff around a corner of the box / of a cell: pairs across periodic faces,
        # also through both links of a two-cell periodic direction
        centre = [rng.choice([0, 0, n[d]]) * w[d] if rng.random() < 0.6 else rng.randrange(n[d] + 1) * w[d] for d in range(3)]
        for i in range(N):
            r = []
            for d in range(3):
                lo, hi = lo_hi(d)
                x = centre[d] + rng.randrange(-8, 9) * rc / 8
                if periodic[d]:
                    x = x % L[d]
                x = min(max(x, lo), hi)
                if inexact[d] and (x / w[d]).denominator == 1:
                    x += w[d] / 8 if x + w[d] / 8 <= hi else -w[d] / 8
                r.append(x)
            frozen = rng.random() < 0.25
            delta = [Fr(0)] * 3 if frozen else [rng.choice([Fr(0), Fr(0), 1, -1]) * rng.choice([Fr(1, 8), Fr(1, 4)]) * w[d] for d in range(3)]
            for d in range(3):
                if not periodic[d] and not (w[d] / 16 <= r[d] + T * delta[d] <= L[d] - w[d] / 16):
                    delta[d] = Fr(0)
            particles.append((rng.choice(species), frozen, r, delta))
    else:
        for i in range(N):
            r = [pick_pos(d) for d in range(3)]
            frozen = rng.random() < 0.25
            delta = [Fr(0)] * 3 if frozen else [pick_delta(d, r[d]) for d in range(3)]
            particles.append((rng.choice(species), frozen, r, delta))
    # an integrator refuses a species without free particles
    for sp in species:
        if not any(p[0] == sp and not p[1] for p in particles):
            r = [pick_pos(d) for d in range(3)]
            particles.append((sp, False, r, [pick_delta(d, r[d]) for d in range(3)]))
    if far:
        cand = [i for i, p in enumerate(particles) if not p[1]]
        i = rng.choice(cand)
        p = particles[i]
        de = list(p[3])
        dd = [d for d in range(3) if periodic[d]]
        if dd:
            d = rng.choice(dd)
            de[d] = pick_delta(d, p[2][d], allow_far=True)
            particles[i] = (p[0], p[1], p[2], de)
        else:
            far = False
    # every species needs at least an integrator; colours are created in integrator order
    sc = {
        "box": [rat(x) for x in L], "periodic": periodic,
        "controller": {"dt": rat(dt), "timesteps": T},
        "integrators": [["IntegratorVelocityVerlet", {"species": s, "lambda": "1/2", "mass": rng.choice(["1", "2", "1/2"])}] for s in order],
        "modules": modules,
        "boundary_children": [["ReflectorMirror", {}]],
        "particles": [{"species": s, "frozen": fz, "r": [rat(x) for x in r], "v": [rat(x / dt) for x in de]} for (s, fz, r, de) in particles],
        "species_order": order,
    }
    meta = {"n": n, "w": [rat(x) for x in w], "rc": rat(rc), "mode": mode, "kind": kind, "far": far, "periodic": periodic, "T": T}
    return sc, meta


# ------------------------------------------------------------------ canonical text of a dump

def canon_dump(st):
    """same text as `Sympler.PairSearch.dump`"""
    ncol = len(st["species"])
    out = []
    for c in st["cells"]:
        s = "cell %d %s %s n=%d" % (c["idx"], v3(c["c1"]), v3(c["c2"]), c["npart"])
        for k in range(ncol):
            for key in ("free", "frozen", "inj"):
                s += " | %s %d %s" % (key, k, " ".join(str(x) for x in c[key].get(k, [])))
        out.append(s)
    out.append("activecells n=%d %s" % (st["activecells"]["n"], " ".join(str(x) for x in st["activecells"]["order"])))
    for l in st["links"]:
        out.append("link %d %d %d %d %s nact=%d ao=%s" % (l["idx"], l["first"], l["second"], l["align"], v3(l["dist"]), l["nact"], l["ao"]))
    al = st["activelinks"][0]
    out.append("activelinks n=%d %s" % (al["n"], " ".join(str(x) for x in al["order"])))
    for cp in st["cps"]:
        for kind in ("free", "frozen"):
            for p in st["pairs"]:
                if p["c1"] == cp["c1"] and p["c2"] == cp["c2"] and p["kind"] == kind:
                    out.append("pair %d %d %s %d %d %d %d %s %s ao=%s" % (p["c1"], p["c2"], kind, p["s1"], p["fz1"], p["s2"], p["fz2"],
                                                                       v3(p["d"]), rat(p["abs2"]), p["ao"]))
    for p in st["particles"]:
        if not p["frozen"]:
            out.append("pos %d %d %s" % (p["colour"], p["slot"], v3(p["r"])))
    out.append("enddump")
    return out


def model_input(sc, steps, integrator_colours):
    st0 = steps[0]
    L = st0["box"][1]
    assert st0["box"][0] == [0, 0, 0]
    lines = ["box %s %s %s" % tuple(rat(x) for x in L),
             "periodic %d %d %d" % tuple(int(bool(x)) for x in sc["periodic"]),
             "eps %s" % rat(EPS), "ncol %d" % len(st0["species"])]
    need = [cp["cutoff"] for cp in st0["cps"] if cp["need"]]
    lines.append("cutoff %s" % rat(max(need) if need else 0))
    for cp in st0["cps"]:
        lines.append("cp %d %d %s %d" % (cp["c1"], cp["c2"], rat(cp["cutoff"]), cp["need"]))
    for p in st0["particles"]:
        lines.append("%s %d %d %s" % ("frozen" if p["frozen"] else "free", p["colour"], p["slot"], v3(p["r"])))
    # the dump lists per colour free then frozen; the model wants free (colour-major) and frozen (colour-major): order within each kind is already right
    lines.append("init")
    lines.append("dump")

    def moves(prev):
        dt = prev["dt"]
        for k in integrator_colours:
            mv = []
            for p in prev["particles"]:
                if p["frozen"] or p["colour"] != k:
                    continue
                assert p["f0"] == [0, 0, 0] and p["f1"] == [0, 0, 0], "scenario is not force free"
                newr = [p["r"][d] + dt * p["v"][d] for d in range(3)]
                mv.append("%d %s" % (p["slot"], v3(newr)))
            lines.append("move %d %s" % (k, " ".join(mv)))
            lines.append("commit")
        lines.append("dump")

    for i in range(len(steps) - 1):
        moves(steps[i])
    if sc.get("_failed"):
        moves(steps[-1])
    lines.append("end")
    return lines


# ------------------------------------------------------------------ independent oracle on the dump

def oracle(st, periodic, stats):
    """violations of the PROPERTIES C09/C01 in one dumped state (brute force, independent of the model)"""
    bad = []
    ncol = len(st["species"])
    cells = st["cells"]
    L = [st["box"][1][d] - st["box"][0][d] for d in range(3)]
    where = {}
    for c in cells:
        tot = 0
        for k in range(ncol):
            for key in ("free", "frozen", "inj"):
                for s in c[key].get(k, []):
                    where.setdefault((k, key == "frozen", s), []).append((c["idx"], key))
            tot += len(c["free"].get(k, [])) + len(c["frozen"].get(k, []))
            if c["inj"].get(k):
                bad.append("cell %d: injection buffer not empty after the step" % c["idx"])
        if tot != c["npart"]:
            bad.append("cell %d: m_n_particles=%d but %d particles listed" % (c["idx"], c["npart"], tot))
    for p in st["particles"]:
        key = (p["colour"], p["frozen"], p["slot"])
        w = where.get(key, [])
        if len(w) != 1:
            bad.append("particle %s registered %d times: %s" % (key, len(w), w))
            continue
        c = cells[w[0][0]]
        ins_eps = all(c["c1"][d] - EPS <= p["r"][d] < c["c2"][d] + EPS for d in range(3))
        ins = all(c["c1"][d] <= p["r"][d] < c["c2"][d] for d in range(3))
        if not ins_eps:
            bad.append("particle %s at %s not inside its cell %d (eps)" % (key, v3(p["r"]), c["idx"]))
        elif not ins:
            stats["on_upper_face_kept"] += 1
        if p["isFrozen"] != int(p["frozen"]) or p["c"] != p["colour"]:
            bad.append("particle %s has wrong colour/frozen flag" % (key,))
    npar = {k for k in where}
    if len(npar) != len(st["particles"]):
        bad.append("cells list %d distinct particles, phase has %d" % (len(npar), len(st["particles"])))
    nonempty = {c["idx"] for c in cells if any(c["free"].get(k) or c["frozen"].get(k) for k in range(ncol))}
    ac = st["activecells"]
    if len(ac["order"]) != len(set(ac["order"])) or set(ac["order"]) != nonempty or ac["n"] != len(ac["order"]):
        bad.append("active cells %s (n=%d) != non-empty cells %s" % (ac["order"], ac["n"], sorted(nonempty)))
    want_links = set()
    for l in st["links"]:
        k = (1 if l["first"] in nonempty else 0) + (1 if l["second"] in nonempty else 0)
        if l["nact"] != k:
            bad.append("link %d (%d,%d): counter %d, active ends %d" % (l["idx"], l["first"], l["second"], l["nact"], k))
        if k == 2:
            want_links.add(l["idx"])
    al = st["activelinks"][0]
    if len(al["order"]) != len(set(al["order"])) or set(al["order"]) != want_links or al["n"] != len(al["order"]):
        bad.append("active links != links with two non-empty cells (%d vs %d)" % (len(al["order"]), len(want_links)))
    # pairs
    parts = st["particles"]
    for cp in st["cps"]:
        a, b = cp["c1"], cp["c2"]
        got = {"free": [], "frozen": []}
        for q in st["pairs"]:
            if q["c1"] == a and q["c2"] == b:
                got[q["kind"]].append(q)
        if not cp["need"]:
            if got["free"] or got["frozen"]:
                bad.append("pairs for colour pair (%d,%d) that needs none" % (a, b))
            continue
        rc2 = cp["cutoff"] ** 2
        want = {"free": [], "frozen": []}
        for i, p in enumerate(parts):
            for j, q in enumerate(parts):
                if a == b:
                    if not (p["colour"] == a and q["colour"] == a and i < j):
                        continue
                else:
                    if not (p["colour"] == a and q["colour"] == b):
                        continue
                if p["frozen"] and q["frozen"]:
                    continue
                d0 = [p["r"][d] - q["r"][d] for d in range(3)]
                ks = [[-1, 0, 1] if periodic[d] else [0] for d in range(3)]
                for kx in ks[0]:
                    for ky in ks[1]:
                        for kz in ks[2]:
                            dd = [d0[0] + kx * L[0], d0[1] + ky * L[1], d0[2] + kz * L[2]]
                            a2 = dd[0] ** 2 + dd[1] ** 2 + dd[2] ** 2
                            if a2 == rc2:
                                stats["cutoff_ties"] += 1
                            elif abs(a2 - rc2) < Fr(1, 2 ** 20):
                                stats["near_cutoff"] += 1
                            if a2 < rc2:
                                kind = "frozen" if (p["frozen"] or q["frozen"]) else "free"
                                # canonical orientation: as listed (first has colour a); same colour: lower (frozen, slot) first
                                want[kind].append((p["slot"], int(p["frozen"]), q["slot"], int(q["frozen"]), tuple(dd), a2,
                                                   "%d%d" % (0 if p["frozen"] else 1, 0 if q["frozen"] else 1)))
        for kind in ("free", "frozen"):
            for q in got[kind]:
                if q["ao"] != "%d%d" % (0 if q["fz1"] else 1, 0 if q["fz2"] else 1):
                    bad.append("acts-on flags %s of listed pair (%d,%d) slots %d/%d frozen %d/%d: a frozen partner would be pushed or a free one not" %
                               (q["ao"], a, b, q["s1"], q["s2"], q["fz1"], q["fz2"]))
            g = []
            for q in got[kind]:
                t = (q["s1"], q["fz1"], q["s2"], q["fz2"], tuple(q["d"]), q["abs2"], q["ao"])
                if a == b:
                    # orientation is not fixed for equal colours: put it in (index order) = order of `parts`
                    i1 = next(i for i, p in enumerate(parts) if p["colour"] == a and p["slot"] == q["s1"] and int(p["frozen"]) == q["fz1"])
                    i2 = next(i for i, p in enumerate(parts) if p["colour"] == a and p["slot"] == q["s2"] and int(p["frozen"]) == q["fz2"])
                    if i1 > i2:
                        t = (q["s2"], q["fz2"], q["s1"], q["fz1"], tuple(-x for x in q["d"]), q["abs2"], q["ao"][::-1])
                g.append(t)
            stats["pairs"] += len(g)
            if sorted(g) != sorted(want[kind]):
                missing = [x for x in want[kind] if x not in g]
                extra = [x for x in g if x not in want[kind]]
                dup = len(g) - len(set(g))
                bad.append("pair list (%d,%d) %s differs from brute force: missing %s extra %s duplicates %d" %
                           (a, b, kind, [(m[0], m[1], m[2], m[3], v3(m[4])) for m in missing[:3]],
                            [(m[0], m[1], m[2], m[3], v3(m[4])) for m in extra[:3]], dup))
    return bad


# ------------------------------------------------------------------ statistics of what the run exercised

def crossing_stats(steps, periodic, stats):
    for i in range(1, len(steps)):
        prev, cur = steps[i - 1], steps[i]
        L = prev["box"][1]
        cellof = {}
        for c in prev["cells"]:
            for k, lst in c["free"].items():
                for s in lst:
                    cellof[(k, s)] = c
        for p in prev["particles"]:
            if p["frozen"]:
                continue
            c = cellof.get((p["colour"], p["slot"]))
            if c is None:
                continue
            newr = [p["r"][d] + prev["dt"] * p["v"][d] for d in range(3)]
            off = [(-1 if newr[d] < c["c1"][d] - EPS else (1 if newr[d] >= c["c2"][d] + EPS else 0)) for d in range(3)]
            if any(off):
                # the code uses the exact corners for the direction once the eps test failed
                off = [(-1 if newr[d] < c["c1"][d] else (1 if newr[d] >= c["c2"][d] else 0)) for d in range(3)]
            nz = sum(1 for o in off if o)
            if nz:
                stats["cross_" + {1: "face", 2: "edge", 3: "corner"}[nz]] += 1
            nb = sum(1 for d in range(3) if periodic[d] and not (0 <= newr[d] < L[d]))
            if nb:
                stats["cross_box_" + {1: "face", 2: "edge", 3: "corner"}[nb]] += 1
        occ_prev = {c["idx"]: {(k, s) for k, l in c["free"].items() for s in l} | {("z", k, s) for k, l in c["frozen"].items() for s in l} for c in prev["cells"]}
        occ_cur = {c["idx"]: {(k, s) for k, l in c["free"].items() for s in l} | {("z", k, s) for k, l in c["frozen"].items() for s in l} for c in cur["cells"]}
        for idx in occ_prev:
            a, b = occ_prev[idx], occ_cur[idx]
            if a and not b:
                stats["cells_emptied"] += 1
            if b and not a:
                stats["cells_refilled"] += 1
            if a and b and not (a & b):
                stats["cells_emptied_and_refilled_same_step"] += 1


# ------------------------------------------------------------------ main

def run_case(args):
    i, sc, d = args
    symlib.write_case(d, sc)
    for attempt in range(6):
        try:
            rc, out = symlib.run_sympler(d, SYMPLER)
            break
        except (PermissionError, FileNotFoundError, OSError):
            # the shared hooked binary is being relinked by another check; wait for it
            import time
            time.sleep(10)
    else:
        rc, out = 127, "cannot execute %s" % SYMPLER
    steps = symlib.parse_obs(os.path.join(d, "obs.txt")) if os.path.exists(os.path.join(d, "obs.txt")) else []
    return i, rc, out, steps


def main():
    av = sys.argv[1:]
    keep = None
    jobs = 8
    only = None
    if "--keep" in av:
        k = av.index("--keep")
        keep = av[k + 1]
        del av[k:k + 2]
    if "--jobs" in av:
        k = av.index("--jobs")
        jobs = int(av[k + 1])
        del av[k:k + 2]
    if "--only" in av:
        k = av.index("--only")
        only = int(av[k + 1])
        del av[k:k + 2]
    seed, ncases = int(av[0]), int(av[1])
    rng = random.Random(seed)
    root = keep or tempfile.mkdtemp(prefix="corr_grid_")
    os.makedirs(root, exist_ok=True)
    cases = []
    for i in range(ncases):
        sc, meta = gen_case(rng, i)
        cases.append((i, sc, meta))
    if only is not None:
        cases = [c for c in cases if c[0] == only]
    from collections import Counter
    stats = Counter()
    dist = {"shapes": Counter(), "periodic": Counter(), "modes": Counter(), "kinds": Counter(), "nspecies": Counter()}
    disagreements = []
    violations = []
    with ThreadPoolExecutor(max_workers=jobs) as ex:
        results = list(ex.map(run_case, [(i, sc, os.path.join(root, "case%04d" % i)) for (i, sc, meta) in cases]))
    # model input for all cases in one batch
    batch = ["model grid"]
    per_case = {}
    for (i, sc, meta), (_, rc, out, steps) in zip(cases, results):
        d = os.path.join(root, "case%04d" % i)
        json.dump({"scenario": sc, "meta": meta}, open(os.path.join(d, "scenario.json"), "w"), indent=1)
        failed = rc != 0
        flew = "flew farther" in out
        if flew and steps:
            # implementation-side oracle (C09): the documented error is only legitimate when some particle really moves farther than
            # one cell in one step (force-free scenarios: displacement = |v| dt)
            st0 = steps[0]
            w = [min(c["c2"][d] - c["c1"][d] for c in st0["cells"]) for d in range(3)]
            too_fast = any(abs(p["v"][d]) * st0["dt"] >= w[d] for p in steps[-1]["particles"] if not p["frozen"] for d in range(3))
            if not too_fast:
                violations.append({"case": i, "step": steps[-1]["step"], "what": "PARTICLEFLEWTOOFAR reported although every free particle moves less than one cell width per step "
                                   "(cell widths %s, dt %s): a legal crossing was rejected" % ([str(x) for x in w], st0["dt"])})
        if not steps or (failed and not flew):
            disagreements.append({"case": i, "step": None, "what": "sympler failed: rc=%d %s" % (rc, out[-300:])})
            continue
        names = steps[0]["species"]
        col = {v: k for k, v in names.items()}
        integrator_colours = [col[x[1]["species"]] for x in sc["integrators"]]
        sc2 = dict(sc)
        sc2["_failed"] = failed
        try:
            lines = model_input(sc2, steps, integrator_colours)
        except AssertionError as e:
            disagreements.append({"case": i, "step": None, "what": "generator: %s" % e})
            continue
        open(os.path.join(d, "model.in"), "w").write("\n".join(["model grid"] + lines) + "\n")
        batch.append("### %d" % i)
        batch += lines
        per_case[i] = (sc, meta, steps, failed)
        dist["shapes"]["x".join(str(x) for x in meta["n"])] += 1
        dist["periodic"]["".join("p" if x else "w" for x in meta["periodic"])] += 1
        dist["modes"][meta["mode"]] += 1
        dist["kinds"][meta["kind"]] += 1
        dist["nspecies"][len(names)] += 1
    p = subprocess.run([SYMDRV], input="\n".join(batch) + "\n", stdout=subprocess.PIPE, stderr=subprocess.PIPE, universal_newlines=True)
    if p.returncode != 0:
        print(json.dumps({"error": "symdrv failed", "stderr": p.stderr[-500:]}))
        return 1
    outs = {}
    cur = None
    for line in p.stdout.split("\n"):
        if line.startswith("### "):
            cur = int(line[4:])
            outs[cur] = []
        elif cur is not None and line != "":
            outs[cur].append(line)
    nsteps = 0
    for i, (sc, meta, steps, failed) in per_case.items():
        mo = outs.get(i, [])
        open(os.path.join(root, "case%04d" % i, "model.out"), "w").write("\n".join(mo) + "\n")
        # split the model output into dumps
        dumps = []
        curd = []
        tail = []
        gridok = [l for l in mo if l.startswith("gridok")]
        if gridok != ["gridok 1"]:
            disagreements.append({"case": i, "step": None, "what": "GridOK check of the model: %s" % gridok})
        mo = [l for l in mo if not l.startswith("gridok")]
        for line in mo:
            if line == "enddump":
                curd.append(line)
                dumps.append(curd)
                curd = []
            else:
                curd.append(line)
        tail = curd
        first_bad = None
        for k, st in enumerate(steps):
            # the implementation-side oracle is applied to EVERY dumped state, also where model and code differ
            for b in oracle(st, sc["periodic"], stats):
                violations.append({"case": i, "step": st["step"], "what": b})
            if first_bad is not None:
                continue
            want = canon_dump(st)
            nsteps += 1
            if k >= len(dumps):
                first_bad = {"case": i, "step": st["step"], "what": "model stopped: %s" % (tail[:1])}
                continue
            got = dumps[k]
            if got != want:
                for a, b in zip(got + ["<end>"] * len(want), want + ["<end>"] * len(got)):
                    if a != b:
                        first_bad = {"case": i, "step": st["step"], "model": a[:300], "code": b[:300]}
                        break
        if first_bad is None:
            if failed:
                stats["flewtoofar_cases"] += 1
                if tail != ["err:flewtoofar"] or len(dumps) != len(steps):
                    first_bad = {"case": i, "step": "after %d" % steps[-1]["step"], "what": "code stopped with PARTICLEFLEWTOOFAR, model says %s (dumps %d/%d)" % (tail[:2], len(dumps), len(steps))}
            elif tail or len(dumps) != len(steps):
                first_bad = {"case": i, "step": None, "what": "model output has %d dumps + %s, code %d" % (len(dumps), tail[:2], len(steps))}
            if any(l.startswith("erased") for l in mo):
                stats["erased"] += 1
        if first_bad:
            disagreements.append(first_bad)
        crossing_stats(steps, sc["periodic"], stats)
    summary = {
        "seed": seed, "cases": len(cases), "cases_compared": len(per_case), "states_compared": nsteps,
        "distribution": {k: dict(sorted(v.items())) for k, v in dist.items()},
        "exercised": dict(sorted(stats.items())),
        "disagreements": disagreements[:10], "n_disagreements": len(disagreements),
        "oracle_violations": violations[:10], "n_oracle_violations": len(violations),
        "dir": root if keep else None,
    }
    print(json.dumps(summary, indent=1))
    if not keep:
        shutil.rmtree(root, ignore_errors=True)
    return 1 if (disagreements or violations) else 0


if __name__ == "__main__":
    sys.exit(main())
