"""C06 correspondence: random dependency graphs of symbol modules, each written in several module orders.

Symbol kinds (all for one species A, one colour pair):
  P  ParticleScalar      q = c + sum a_k * dep_k  (+ b * dep_1 * dep_2)         deps: P or S symbols (particle level)
  W  PairScalar          w = c + a * (dep_i + dep_j)                             deps: particle level symbols, used as <dep>i / <dep>j
  S  PairParticleScalar  s_i = sum_j (c + a * (dep_i + dep_j) + b * wdep_ij)     deps: particle level symbols and W symbols (<w>ij)
Observed on the real binary: the stage of every symbol (VSTAGE), the execution trace (VSYM) and every symbol value of every
particle after each step (exact rationals).  Compared with: the Lean model `stages` (stage numbers, schedule) and an
independent topological evaluation in exact arithmetic (values); all module orders must give identical values.
"""
import itertools
import os
import sys
from fractions import Fraction

sys.path.insert(0, os.path.dirname(os.path.abspath(__file__)))
import symlib  # noqa: E402

NAMES = ["ma", "mb", "mc", "md", "me", "mf", "mg", "mh", "mk", "ml", "mm", "mn", "mo", "mp", "mq", "mr"]
CUT = Fraction(1)


def gen_case(r, nsym=None, cyclic=False, overwrite=False):
    n = nsym or r.randrange(3, 9)
    syms = []
    for k in range(n):
        kind = r.choice(["P", "P", "S", "W"]) if k > 0 else r.choice(["P", "S"])
        name = NAMES[k]
        plevel = [s for s in syms if s["kind"] in ("P", "S")]
        wlevel = [s for s in syms if s["kind"] == "W"]
        deps, wdeps = [], []
        if plevel and r.random() < 0.85:
            deps = [s["name"] for s in r.sample(plevel, r.randrange(1, min(3, len(plevel)) + 1))]
        if kind == "S" and wlevel and r.random() < 0.6:
            wdeps = [r.choice(wlevel)["name"]]
        c = Fraction(r.randrange(-4, 5), r.choice([1, 2, 4]))
        a = Fraction(r.randrange(-3, 4) or 1, r.choice([1, 2]))
        b = Fraction(r.randrange(-2, 3), r.choice([1, 2]))
        syms.append(dict(name=name, kind=kind, deps=deps, wdeps=wdeps, c=c, a=a, b=b, overwrite=False, produces=name))
    if cyclic and len(syms) >= 2:
        # close a cycle: the first particle-level symbol reads the last particle-level one
        pl = [s for s in syms if s["kind"] in ("P", "S")]
        if len(pl) >= 2:
            pl[0]["deps"] = list(set(pl[0]["deps"] + [pl[-1]["name"]]))
            # make sure the last one (transitively) reads the first
            if pl[0]["name"] not in pl[-1]["deps"]:
                pl[-1]["deps"].append(pl[0]["name"])
    # particles: a small static cluster in a periodic box of 4 (2.. cells per direction with cutoff 1)
    pts = set()
    npart = r.randrange(3, 7)
    while len(pts) < npart:
        pts.add((Fraction(r.randrange(2, 14), 4), Fraction(r.randrange(2, 14), 4), Fraction(r.randrange(4, 8), 4)))
    return dict(symbols=syms, particles=sorted(pts), cyclic=cyclic)


def fmt(x):
    s = symlib.dec(x)
    return "(%s)" % s if s.startswith("-") else s


def expr_of(s):
    k = s["kind"]
    if k == "P":
        t = [fmt(s["c"])]
        if not s["deps"]:
            t.append("%s*xCoord([r])" % fmt(s["a"]))
        for d in s["deps"]:
            t.append("%s*%s" % (fmt(s["a"]), d))
        if len(s["deps"]) >= 2 and s["b"] != 0:
            t.append("%s*%s*%s" % (fmt(s["b"]), s["deps"][0], s["deps"][1]))
        return "+".join(t)
    t = [fmt(s["c"])]
    for d in s["deps"]:
        t.append("%s*(%si+%sj)" % (fmt(s["a"]), d, d))
    for w in s.get("wdeps", []):
        t.append("%s*%sij" % (fmt(s["b"] if s["b"] != 0 else Fraction(1)), w))
    return "+".join(t)


def module_of(s):
    if s["kind"] == "P":
        return ["ParticleScalar", {"species": "A", "symbol": s["name"], "expression": expr_of(s), "overwrite": bool(s["overwrite"])}]
    if s["kind"] == "W":
        return ["PairScalar", {"species1": "A", "species2": "A", "symbol": s["name"], "expression": expr_of(s), "cutoff": CUT}]
    return ["PairParticleScalar", {"species1": "A", "species2": "A", "symbol": s["name"], "expression": expr_of(s), "cutoff": CUT,
                                   "symmetry": 1, "overwrite": bool(s["overwrite"])}]


def scenario(case, order, stage_iterations=None):
    mods = [module_of(case["symbols"][i]) for i in order]
    sim = {}
    if stage_iterations is not None:
        sim["stageIterations"] = stage_iterations
    return {"box": ["4", "4", "4"], "periodic": [True, True, True], "sim": sim,
            "controller": {"dt": "1/16", "timesteps": 2},
            "integrators": [["IntegratorVelocityVerlet", {"species": "A", "lambda": "1/2", "mass": "1"}]],
            "modules": mods,
            "particles": [{"species": "A", "r": [symlib.rat(x) for x in p], "v": ["0", "0", "0"]} for p in case["particles"]],
            "species_order": ["A"]}


def model_lines(case, order, B=20):
    """sweep order of the real code: the colour pair's val-calculators (W and S) in input order, then the particle caches (P)"""
    ids = {s["name"]: i for i, s in enumerate(case["symbols"])}
    seq = [i for i in order if case["symbols"][i]["kind"] in ("W", "S")] + [i for i in order if case["symbols"][i]["kind"] == "P"]
    lines = ["B %d" % B]
    for i in seq:
        s = case["symbols"][i]
        uses = [ids[d] for d in s["deps"]] + [ids[w] for w in s.get("wdeps", [])]
        lines.append("sym %d prod=%d uses=%s ow=%d" % (i, ids[s["produces"]], ",".join(str(u) for u in sorted(set(uses))) or "-", 1 if s["overwrite"] else 0))
    lines.append("end")
    return lines, seq


def minimg(d, L=Fraction(4)):
    out = []
    for x in d:
        while x > L / 2:
            x -= L
        while x < -L / 2:
            x += L
        out.append(x)
    return out


def oracle_values(case):
    """independent topological evaluation; returns {symbol: [value per particle]} or None if cyclic"""
    syms = {s["name"]: s for s in case["symbols"]}
    pts = case["particles"]
    n = len(pts)
    nb = [[j for j in range(n) if j != i and sum(c * c for c in minimg([a - b for a, b in zip(pts[i], pts[j])])) < CUT * CUT] for i in range(n)]
    val = {}
    wval = {}
    pending = list(syms)
    guard = 0
    while pending and guard < 100:
        guard += 1
        for name in list(pending):
            s = syms[name]
            need = s["deps"] + s.get("wdeps", [])
            if any(d not in val and d not in wval for d in need):
                continue
            if s["kind"] == "P":
                v = []
                for i in range(n):
                    x = s["c"] + sum(s["a"] * val[d][i] for d in s["deps"])
                    if not s["deps"]:
                        x += s["a"] * pts[i][0]
                    if len(s["deps"]) >= 2 and s["b"] != 0:
                        x += s["b"] * val[s["deps"][0]][i] * val[s["deps"][1]][i]
                    v.append(x)
                val[name] = v
            elif s["kind"] == "W":
                wval[name] = {(i, j): s["c"] + sum(s["a"] * (val[d][i] + val[d][j]) for d in s["deps"]) for i in range(n) for j in nb[i]}
            else:
                bb = s["b"] if s["b"] != 0 else Fraction(1)
                val[name] = [sum(s["c"] + sum(s["a"] * (val[d][i] + val[d][j]) for d in s["deps"]) + sum(bb * wval[w][(i, j)] for w in s.get("wdeps", []))
                                 for j in nb[i]) for i in range(n)]
            pending.remove(name)
    if pending:
        return None
    return val


def observed(steps, case):
    """stages per symbol name, trace, values per symbol per particle per step"""
    st = {x["symbol"]: x["stage"] for x in steps[0]["stages"]}
    vals = []
    for s in steps:
        ps = sorted(s["particles"], key=lambda p: p["slot"])
        vals.append({name: [p["tag"][name][2] for p in ps] for name in [y["name"] for y in case["symbols"] if y["kind"] != "W"] if name in ps[0]["tag"]})
    trace = [t for t in steps[1]["symtrace"]] if len(steps) > 1 else []
    return st, trace, vals
